// bs_driver: runs a scripted history against the real llbuild BuildSystem (through BuildSystemFrontend) in a
// private sandbox directory and records what a client can observe as ndjson:
//   every delegate callback of a build (commandStarted/Finished, determinedRuleNeedsToRun, errors, ...),
//   the build's result, the database read back independently after every build (every stored result with
//   its value kind, both epochs and its dependency list) and the state of the tracked paths after every step.
//
// usage: bs_driver <script> <sandbox-dir>      script: one step per line, TAB separated, arguments hex encoded
//   TRACK <path>...            paths to observe (relative to the sandbox)
//   FRONTEND <llbuild text> <db 0|1> <serial 0|1> [cancel-on-failure 0|1]     new BuildSystemFrontend
//   WRITE <path> <content> | TOUCH <path> | RM <path> | MKDIR <path> | RENAME <a> <b> | SYMLINK <target> <path>
//   SKIP <command>...          commands the delegate refuses to start (shouldCommandStart) in the NEXT build only
//   BUILD <target> | BUILDNODE <node>
// File times: a logical clock - every mutation sets the mtime of what it changed (and of the containing
// directory) to a strictly increasing whole second, and the file .vb holds the base the commands of the next
// build use for their outputs - so that no verdict depends on timestamp granularity.
#include "llbuild/Basic/FileInfo.h"
#include "llbuild/Basic/FileSystem.h"
#include "llbuild/BuildSystem/BuildDescription.h"
#include "llbuild/BuildSystem/BuildFile.h"
#include "llbuild/BuildSystem/BuildKey.h"
#include "llbuild/BuildSystem/BuildSystem.h"
#include "llbuild/BuildSystem/BuildSystemFrontend.h"
#include "llbuild/BuildSystem/BuildValue.h"
#include "llbuild/BuildSystem/Command.h"
#include "llbuild/BuildSystem/Tool.h"
#include <csignal>
#include "llbuild/Core/BuildDB.h"
#include "llbuild/Core/BuildEngine.h"
#include "llvm/Support/SourceMgr.h"

#include <algorithm>
#include <cstdio>
#include <cstdlib>
#include <cstring>
#include <dirent.h>
#include <fcntl.h>
#include <fstream>
#include <iostream>
#include <map>
#include <mutex>
#include <set>
#include <string>
#include <sys/stat.h>
#include <unistd.h>
#include <vector>

using namespace llbuild;
using namespace llbuild::basic;
using namespace llbuild::buildsystem;
using namespace llbuild::core;

static std::mutex logMutex;
static std::string sandbox;          // absolute path of the sandbox; replaced by "@" in everything logged

static std::string unhex(const std::string& h) {
  if (h == "-") return std::string();
  std::string r; for (size_t i = 0; i + 1 < h.size(); i += 2) r += (char)std::stoi(h.substr(i, 2), nullptr, 16); return r;
}
static std::string jstr(const std::string& s0) {
  // replace the sandbox prefix, then JSON-escape (bytes >= 0x80 are written as \u00XX: the trace is latin-1 decoded)
  std::string s = s0; size_t p;
  while (!sandbox.empty() && (p = s.find(sandbox)) != std::string::npos) s.replace(p, sandbox.size(), "@");
  std::string r = "\"";
  for (unsigned char c : s) {
    if (c == '"' || c == '\\') { r += '\\'; r += (char)c; }
    else if (c < 0x20 || c >= 0x7f) { char b[8]; snprintf(b, sizeof b, "\\u%04x", c); r += b; }
    else r += (char)c;
  }
  return r + "\"";
}
static void emit(const std::string& s) {
  std::lock_guard<std::mutex> g(logMutex);
  fputs(s.c_str(), stdout); fputc('\n', stdout); fflush(stdout);
}

static std::string keyStr(const KeyType& k) {
  // kind letter + readable remainder (signature keys carry binary filter lists: keep the path only)
  auto key = BuildKey::fromData(k);
  switch (key.getKind()) {
  case BuildKey::Kind::Command: return "C" + key.getCommandName().str();
  case BuildKey::Kind::Node: return "N" + key.getNodeName().str();
  case BuildKey::Kind::Target: return "T" + key.getTargetName().str();
  case BuildKey::Kind::DirectoryContents: return "D" + key.getDirectoryPath().str();
  case BuildKey::Kind::FilteredDirectoryContents: return "d" + key.getFilteredDirectoryPath().str();
  case BuildKey::Kind::DirectoryTreeSignature: return "S" + key.getDirectoryTreeSignaturePath().str();
  case BuildKey::Kind::DirectoryTreeStructureSignature: return "s" + key.getFilteredDirectoryPath().str();
  case BuildKey::Kind::Stat: return "I" + key.getStatName().str();
  default: return "?" + k.str();
  }
}

static const char* reasonStr(Rule::RunReason r) {
  switch (r) {
  case Rule::RunReason::NeverBuilt: return "NeverBuilt";
  case Rule::RunReason::SignatureChanged: return "SignatureChanged";
  case Rule::RunReason::InvalidValue: return "InvalidValue";
  case Rule::RunReason::InputRebuilt: return "InputRebuilt";
  case Rule::RunReason::Forced: return "Forced";
  }
  return "?";
}
static const char* statusStr(ProcessStatus s) {
  switch (s) {
  case ProcessStatus::Succeeded: return "Succeeded";
  case ProcessStatus::Failed: return "Failed";
  case ProcessStatus::Cancelled: return "Cancelled";
  case ProcessStatus::Skipped: return "Skipped";
  default: return "Unknown";
  }
}

class Delegate : public BuildSystemFrontendDelegate {
public:
  bool cancelOnFailure = false;
  std::set<std::string> refuse;        // shouldCommandStart answers false for these (next build only)
  bool shouldCommandStart(Command* c) override {
    bool no = refuse.count(c->getName().str()) != 0;
    emit("{\"e\":\"ShouldStart\",\"c\":" + jstr(c->getName().str()) + ",\"answer\":" + (no ? "false" : "true") + "}");
    return !no;
  }
  Delegate(llvm::SourceMgr& sm) : BuildSystemFrontendDelegate(sm, "basic", /*version=*/0) {}
  std::unique_ptr<Tool> lookupTool(StringRef) override { return nullptr; }
  void hadCommandFailure() override {
    emit("{\"e\":\"HadFailure\"}");
    BuildSystemFrontendDelegate::hadCommandFailure();
    if (cancelOnFailure) cancel();
  }
  void error(StringRef filename, const Token& at, const Twine& message) override {
    emit("{\"e\":\"Error\",\"msg\":" + jstr(message.str()) + "}");
    BuildSystemFrontendDelegate::error(filename, at, message);
  }
  void commandStarted(Command* c) override {
    emit("{\"e\":\"CmdStarted\",\"c\":" + jstr(c->getName().str()) + "}");
    // (the base implementation prints the description; not needed)
  }
  void commandFinished(Command* c, ProcessStatus st) override {
    emit("{\"e\":\"CmdFinished\",\"c\":" + jstr(c->getName().str()) + ",\"s\":\"" + statusStr(st) + "\"}");
  }
  void commandHadError(Command* c, StringRef data) override {
    emit("{\"e\":\"CmdError\",\"c\":" + jstr(c->getName().str()) + ",\"msg\":" + jstr(data.str()) + "}");
  }
  void commandHadNote(Command* c, StringRef data) override {
    emit("{\"e\":\"CmdNote\",\"c\":" + jstr(c->getName().str()) + ",\"msg\":" + jstr(data.str()) + "}");
  }
  void commandHadWarning(Command* c, StringRef data) override {
    emit("{\"e\":\"CmdWarning\",\"c\":" + jstr(c->getName().str()) + ",\"msg\":" + jstr(data.str()) + "}");
  }
  void commandCannotBuildOutputDueToMissingInputs(Command* c, Node*, ArrayRef<BuildKey> inputs) override {
    std::string s = "{\"e\":\"CmdMissingInputs\",\"c\":" + jstr(c->getName().str()) + ",\"inputs\":[";
    for (size_t i = 0; i < inputs.size(); ++i) s += std::string(i ? "," : "") + jstr(keyStr(inputs[i].toData()));
    emit(s + "]}");
  }
  void cannotBuildNodeDueToMultipleProducers(Node* n, std::vector<Command*>) override {
    emit("{\"e\":\"MultipleProducers\",\"n\":" + jstr(n->getName().str()) + "}");
  }
  void commandFoundDiscoveredDependency(Command* c, StringRef path, DiscoveredDependencyKind) override {
    emit("{\"e\":\"Discovered\",\"c\":" + jstr(c->getName().str()) + ",\"p\":" + jstr(path.str()) + "}");
  }
  void determinedRuleNeedsToRun(Rule* r, Rule::RunReason reason, Rule* input) override {
    emit("{\"e\":\"NeedsRun\",\"k\":" + jstr(keyStr(r->key)) + ",\"reason\":\"" + reasonStr(reason) + "\",\"input\":" +
         jstr(input ? keyStr(input->key) : std::string()) + "}");
  }
  void cycleDetected(const std::vector<Rule*>& items) override {
    std::string s = "{\"e\":\"Cycle\",\"keys\":[";
    for (size_t i = 0; i < items.size(); ++i) s += std::string(i ? "," : "") + jstr(keyStr(items[i]->key));
    emit(s + "]}");
    BuildSystemFrontendDelegate::error("cycle detected");
  }
};

// ---------------------------------------------------------------------------------------------- file system side
static long clockNow = 1000000000;      // logical clock (seconds)
static std::vector<std::string> tracked;
static std::map<std::string, FileInfo> lastInfo;
static std::map<std::string, std::string> lastDesc;

static void setTime(const std::string& p, long t) {
  struct timespec ts[2]; ts[0].tv_sec = t; ts[0].tv_nsec = 0; ts[1] = ts[0];
  utimensat(AT_FDCWD, p.c_str(), ts, AT_SYMLINK_NOFOLLOW);
}
static std::string parentOf(const std::string& p) {
  size_t i = p.rfind('/'); return i == std::string::npos ? std::string(".") : p.substr(0, i);
}
static void stamp(const std::string& p) {     // p changed: new time for it and for its directory
  ++clockNow; setTime(p, clockNow);
  ++clockNow; setTime(parentOf(p), clockNow);
}
static void stampDirOnly(const std::string& p) { ++clockNow; setTime(parentOf(p), clockNow); }
static void rmTree(const std::string& p) {
  struct stat st; if (lstat(p.c_str(), &st) != 0) return;
  if (S_ISDIR(st.st_mode)) {
    DIR* d = opendir(p.c_str());
    if (d) { while (struct dirent* e = readdir(d)) { std::string n = e->d_name; if (n != "." && n != "..") rmTree(p + "/" + n); } closedir(d); }
    rmdir(p.c_str());
  } else unlink(p.c_str());
}
static void mkdirs(const std::string& p) {
  if (p.empty() || p == ".") return;
  struct stat st; if (lstat(p.c_str(), &st) == 0) return;
  mkdirs(parentOf(p)); mkdir(p.c_str(), 0755); stamp(p);
}
static std::string describe(const std::string& p, FileInfo* infoOut) {
  // "<type>" + content for small regular files
  struct stat st; std::string r;
  FileInfo info = FileInfo::getInfoForPath(p, /*asLink=*/true);
  *infoOut = info;
  if (lstat(p.c_str(), &st) != 0) return "none:";
  if (S_ISDIR(st.st_mode)) return "dir:";
  if (S_ISLNK(st.st_mode)) { char buf[4096]; ssize_t n = readlink(p.c_str(), buf, sizeof buf); return "link:" + std::string(buf, n > 0 ? n : 0); }
  std::ifstream f(p, std::ios::binary); std::string c((std::istreambuf_iterator<char>(f)), std::istreambuf_iterator<char>());
  if (c.size() > 4096) c = c.substr(0, 4096);
  return "file:" + c;
}
static void snapshotFS(const char* ev) {
  std::string s = std::string("{\"e\":\"") + ev + "\",\"changes\":[";
  bool first = true;
  for (auto& p : tracked) {
    FileInfo info; std::string d = describe(p, &info);
    auto it = lastInfo.find(p);
    bool infoChanged = it == lastInfo.end() || !(it->second == info) || it->second.mode != info.mode;
    bool descChanged = lastDesc.find(p) == lastDesc.end() || lastDesc[p] != d;
    if (infoChanged || descChanged) {
      size_t c = d.find(':');
      s += std::string(first ? "" : ",") + "{\"p\":" + jstr(p) + ",\"t\":\"" + d.substr(0, c) + "\",\"c\":" + jstr(d.substr(c + 1)) +
           ",\"info\":" + (infoChanged ? "true" : "false") + "}";
      first = false;
    }
    lastInfo[p] = info; lastDesc[p] = d;
  }
  emit(s + "]}");
}

// ---------------------------------------------------------------------------------------------- database side
struct SnapDelegate : BuildDBDelegate {
  std::map<std::string, uint64_t> ids; std::vector<std::string> names;
  const KeyID getKeyID(const KeyType& key) override {
    auto it = ids.find(key.str());
    if (it == ids.end()) { names.push_back(key.str()); it = ids.insert({key.str(), names.size()}).first; }
    return KeyID((const void*)(uintptr_t)it->second);
  }
  KeyType getKeyForID(const KeyID id) override { return names[(uint64_t)id - 1]; }
};

static std::string valueJson(const std::string& key, const BuildValue& v, std::map<std::string, std::vector<std::string>>& outsOf) {
  std::string kind;
  if (v.isInvalid()) kind = "Invalid"; else if (v.isVirtualInput()) kind = "VirtualInput"; else if (v.isExistingInput()) kind = "ExistingInput";
  else if (v.isMissingInput()) kind = "MissingInput"; else if (v.isDirectoryContents()) kind = "DirectoryContents";
  else if (v.isDirectoryTreeSignature()) kind = "DirectoryTreeSignature"; else if (v.isDirectoryTreeStructureSignature()) kind = "DirectoryTreeStructureSignature";
  else if (v.isStaleFileRemoval()) kind = "StaleFileRemoval"; else if (v.isMissingOutput()) kind = "MissingOutput"; else if (v.isFailedInput()) kind = "FailedInput";
  else if (v.isSuccessfulCommand()) kind = "SuccessfulCommand"; else if (v.isFailedCommand()) kind = "FailedCommand";
  else if (v.isPropagatedFailureCommand()) kind = "PropagatedFailureCommand"; else if (v.isCancelledCommand()) kind = "CancelledCommand";
  else if (v.isSkippedCommand()) kind = "SkippedCommand"; else if (v.isTarget()) kind = "Target"; else if (v.isFilteredDirectoryContents()) kind = "FilteredDirectoryContents";
  else kind = "Other";
  std::string s = "{\"k\":\"" + kind + "\",\"i\":[";
  // per output: 0 = stored info is the missing record, 1 = stored info equals the path's current info, 2 = differs, -1 = no path known
  if (v.isExistingInput() || v.isSuccessfulCommand()) {
    std::vector<std::string> paths;
    if (key[0] == 'N') paths.push_back(key.substr(1)); else { auto it = outsOf.find(key.substr(1)); if (it != outsOf.end()) paths = it->second; }
    for (unsigned i = 0; i < v.getNumOutputs(); ++i) {
      const FileInfo& fi = v.getNthOutputInfo(i);
      int code;
      if (i >= paths.size() || paths[i].empty()) code = -1;
      else if (fi.isMissing()) code = 0;
      else { std::string p = paths[i]; while (p.size() > 1 && p.back() == '/') p.pop_back();
             FileInfo cur = FileInfo::getInfoForPath(p, false); code = (cur == fi && cur.mode == fi.mode) ? 1 : 2; }
      s += std::string(i ? "," : "") + std::to_string(code);
    }
  }
  s += "],\"x\":[";
  if (v.isStaleFileRemoval()) { auto l = v.getStaleFileList(); for (size_t i = 0; i < l.size(); ++i) s += std::string(i ? "," : "") + jstr(l[i].str()); }
  return s + "]}";
}

static std::map<std::string, std::vector<std::string>> cmdOutputs;   // command name -> output paths ("" for virtual), from the script

static void snapshotDB(bool hasDB) {
  if (!hasDB) { emit("{\"e\":\"DB\",\"ok\":true,\"present\":false,\"epoch\":0,\"rows\":[]}"); return; }
  std::string err;
  auto db = createSQLiteBuildDB("build.db", 9, /*recreate=*/false, &err);
  if (!db) { emit("{\"e\":\"DB\",\"ok\":false,\"msg\":" + jstr(err) + "}"); return; }
  SnapDelegate sd; db->attachDelegate(&sd);
  bool ok = false; Epoch ep = db->getCurrentEpoch(&ok, &err);
  std::vector<KeyType> keys; std::vector<Result> results;
  if (!ok || !db->getKeysWithResult(keys, results, &err)) { emit("{\"e\":\"DB\",\"ok\":false,\"msg\":" + jstr(err) + "}"); return; }
  std::vector<std::pair<std::string, std::string>> rows;
  for (size_t i = 0; i < keys.size(); ++i) {
    std::string k = keyStr(keys[i]);
    const Result& r = results[i];
    std::string s = "{\"k\":" + jstr(k) + ",\"sig\":\"" + std::to_string(r.signature.value) + "\",\"built\":" + std::to_string(r.builtAt) +
                    ",\"computed\":" + std::to_string(r.computedAt) + ",\"val\":" + valueJson(k, BuildValue::fromData(r.value), cmdOutputs) + ",\"deps\":[";
    bool first = true;
    for (auto d : r.dependencies) {
      s += std::string(first ? "" : ",") + "{\"k\":" + jstr(keyStr(sd.getKeyForID(d.keyID))) + ",\"oo\":" + (d.orderOnly ? "true" : "false") + "}";
      first = false;
    }
    rows.push_back({k, s + "]}"});
  }
  std::sort(rows.begin(), rows.end());
  std::string s = "{\"e\":\"DB\",\"ok\":true,\"present\":true,\"epoch\":" + std::to_string(ep) + ",\"rows\":[";
  for (size_t i = 0; i < rows.size(); ++i) s += std::string(i ? "," : "") + rows[i].second;
  emit(s + "]}");
}

// ---------------------------------------------------------------------------------------------- main
static std::vector<std::string> splitTab(const std::string& s) {
  std::vector<std::string> r; size_t p = 0;
  while (true) { size_t q = s.find('\t', p); r.push_back(s.substr(p, q == std::string::npos ? q : q - p)); if (q == std::string::npos) break; p = q + 1; }
  return r;
}
static void onAlarm(int) { const char* m = "{\"e\":\"Hang\"}\n"; ssize_t r = write(1, m, strlen(m)); (void)r; _exit(3); }

int main(int argc, char** argv) {
  if (argc < 3) { fprintf(stderr, "usage: bs_driver <script> <sandbox>\n"); return 2; }
  std::ifstream script(argv[1]);
  if (chdir(argv[2]) != 0) { perror("chdir"); return 2; }
  { char buf[4096]; if (getcwd(buf, sizeof buf)) sandbox = buf; }
  signal(SIGALRM, onAlarm);
  // stderr of llbuild (diagnostics) is noise here
  { int fd = open("/dev/null", O_WRONLY); if (fd >= 0) { dup2(fd, 2); close(fd); } }

  std::unique_ptr<llvm::SourceMgr> sourceMgr;
  std::unique_ptr<Delegate> delegate;
  std::unique_ptr<BuildSystemFrontend> frontend;
  BuildSystemInvocation invocation;
  bool hasDB = false;
  std::string line; int step = 0;
  // a history may be continued by a later process: the logical clock is carried over in the file .clock
  { std::ifstream cf(".clock"); long c; if (cf >> c) clockNow = c; }
  while (std::getline(script, line)) {
    if (line.empty()) continue;
    auto t = splitTab(line);
    std::vector<std::string> a; for (size_t i = 1; i < t.size(); ++i) a.push_back(unhex(t[i]));
    const std::string& op = t[0];
    ++step;
    emit("{\"e\":\"Step\",\"i\":" + std::to_string(step) + ",\"op\":\"" + op + "\"}");
    if (op == "TRACK") { tracked = a; snapshotFS("FS0"); }
    else if (op == "OUTPUTS") { // OUTPUTS <command> <path>...   (for the 'current info' comparison of stored command results)
      cmdOutputs[a[0]] = std::vector<std::string>(a.begin() + 1, a.end()); }
    else if (op == "FRONTEND") {
      frontend.reset(); delegate.reset(); sourceMgr.reset();
      { std::ofstream f("build.llbuild", std::ios::binary); f << a[0]; }
      hasDB = a[1] == "1";
      if (!hasDB) unlink("build.db");
      invocation = BuildSystemInvocation();
      invocation.buildFilePath = "build.llbuild";
      invocation.dbPath = hasDB ? "build.db" : "";
      invocation.useSerialBuild = a[2] == "1";
      invocation.schedulerLanes = a[2] == "1" ? 1 : 4;
      sourceMgr.reset(new llvm::SourceMgr());
      delegate.reset(new Delegate(*sourceMgr));
      delegate->cancelOnFailure = a.size() > 3 && a[3] == "1";
      frontend.reset(new BuildSystemFrontend(*delegate, invocation, createLocalFileSystem()));
      cmdOutputs.clear();
      emit(std::string("{\"e\":\"Frontend\",\"db\":") + (hasDB ? "true" : "false") + "}");
    }
    else if (op == "WRITE") {
      mkdirs(parentOf(a[0]));
      struct stat st; bool existed = lstat(a[0].c_str(), &st) == 0 && S_ISREG(st.st_mode);
      if (!existed) rmTree(a[0]);
      { int fd = open(a[0].c_str(), O_WRONLY | O_CREAT | O_TRUNC, 0644); ssize_t r = write(fd, a[1].data(), a[1].size()); (void)r; close(fd); }
      if (existed) { ++clockNow; setTime(a[0], clockNow); } else stamp(a[0]);
      snapshotFS("Mutate");
    }
    else if (op == "TOUCH") { ++clockNow; setTime(a[0], clockNow); snapshotFS("Mutate"); }
    else if (op == "RM") { struct stat st; if (lstat(a[0].c_str(), &st) == 0) { rmTree(a[0]); stampDirOnly(a[0]); } snapshotFS("Mutate"); }
    else if (op == "MKDIR") { mkdirs(a[0]); snapshotFS("Mutate"); }
    else if (op == "RENAME") { mkdirs(parentOf(a[1])); rmTree(a[1]); if (rename(a[0].c_str(), a[1].c_str()) == 0) { stampDirOnly(a[0]); stamp(a[1]); } snapshotFS("Mutate"); }
    else if (op == "SYMLINK") { mkdirs(parentOf(a[1])); rmTree(a[1]); if (symlink(a[0].c_str(), a[1].c_str()) == 0) stamp(a[1]); snapshotFS("Mutate"); }
    else if (op == "SKIP") { delegate->refuse.clear(); for (auto& x : a) if (!x.empty()) delegate->refuse.insert(x); }
    else if (op == "BUILD" || op == "BUILDNODE") {
      clockNow += 200;
      { std::ofstream f(".vb"); f << clockNow - 100; }       // commands stamp their outputs with .vb + index (< 100)
      emit("{\"e\":\"Build\",\"k\":" + jstr((op == "BUILD" ? "T" : "N") + a[0]) + "}");
      alarm(120);
      bool ok = op == "BUILD" ? frontend->build(a[0]) : frontend->buildNode(a[0]);
      alarm(0);
      emit(std::string("{\"e\":\"BuildEnd\",\"ok\":") + (ok ? "true" : "false") + "}");
      delegate->refuse.clear();
      snapshotFS("FS");
      snapshotDB(hasDB);
    }
    else { emit("{\"e\":\"BadStep\"}"); return 2; }
  }
  frontend.reset(); delegate.reset();
  { std::ofstream cf(".clock"); cf << clockNow; }
  emit("{\"e\":\"End\"}");
  return 0;
}
