// Common parts of the engine drivers (C++ API and C API): trace logging, the scripted program model,
// case-file parsing helpers.  Included by engine_driver.cpp and engine_driver_capi.cpp.
#pragma once
#include <algorithm>
#include <atomic>
#include <chrono>
#include <condition_variable>
#include <csignal>
#include <cstdio>
#include <cstdlib>
#include <cstring>
#include <deque>
#include <fstream>
#include <iostream>
#include <map>
#include <mutex>
#include <random>
#include <set>
#include <sstream>
#include <string>
#include <thread>
#include <dlfcn.h>
#include <fcntl.h>
#include <unistd.h>
#include <vector>

// ---------------------------------------------------------------- logging
static int outFd = 1;
static bool unbuffered = false;
static std::string outBuf;
static std::mutex logMutex;          // every line is written under this mutex
static long seqNo = 0;

static void flushOut() {
  size_t off = 0;
  while (off < outBuf.size()) {
    ssize_t n = ::write(outFd, outBuf.data() + off, outBuf.size() - off);
    if (n <= 0) break;
    off += n;
  }
  outBuf.clear();
}
static void emitLocked(const std::string& s) {
  ++seqNo;
  outBuf += s;
  outBuf += '\n';
  if (unbuffered || outBuf.size() > (1 << 16)) flushOut();
}
static bool quietLog = false;       // set while an unlogged from-scratch reference build runs
static void emit(const std::string& s) {
  if (quietLog) return;
  std::lock_guard<std::mutex> g(logMutex);
  emitLocked(s);
}
static std::string q(const std::string& s) { return "\"" + s + "\""; }
static std::string hexOf(const std::string& s) {
  static const char* d = "0123456789abcdef"; std::string r;
  for (unsigned char c : s) { r += d[c >> 4]; r += d[c & 15]; }
  return r;
}
static std::string unhex(const std::string& h) {
  std::string r;
  for (size_t i = 0; i + 1 < h.size(); i += 2) r += (char)std::stoi(h.substr(i, 2), nullptr, 16);
  return r;
}

[[noreturn]] static void die(int code, const char* ev) {
  // async-signal-safe enough for our purposes: single write of a constant line
  flushOut();
  std::string s = std::string("{\"e\":\"") + ev + "\"}\n";
  ssize_t r = ::write(outFd, s.data(), s.size()); (void)r;
  _exit(code);
}
static void onAlarm(int) { die(3, "Hang"); }
static void onAbort(int) { die(4, "Abort"); }

// count of database system calls seen by the kill shim (0 when the shim is not loaded)
static long shimCount() {
  static long (*fn)(void) = (long (*)(void))dlsym(RTLD_DEFAULT, "verif_shim_count");
  return fn ? fn() : 0;
}

// ---------------------------------------------------------------- program
struct Req { std::string k; std::string kind; };
struct RuleDef {
  bool leaf = false;
  std::vector<Req> start, dynThen, dynElse;
  std::string dynOn = "none";
  std::vector<std::string> disc;
  std::set<std::string> proj;
  int base = 0; bool force = false; bool valid = true; bool out = false; uint64_t sig = 1;
};
static std::map<std::string, RuleDef> prog;       // symbolic key -> rule
static std::map<std::string, int> ext;            // leaf -> value
static std::map<std::string, std::string> keyBytes, bytesKey;   // symbolic <-> actual key bytes
static std::vector<std::string> valBytes = {std::string(), std::string("\x01", 1), std::string("\x02", 1)};
static const int NVALS = 3;

static std::string symOf(const std::string& bytes) {
  auto it = bytesKey.find(bytes);
  if (it != bytesKey.end()) return it->second;
  if (keyBytes.empty() && prog.count(bytes)) return bytes;
  return "?" + hexOf(bytes);
}
static std::string bytesOf(const std::string& sym) {
  auto it = keyBytes.find(sym);
  return it == keyBytes.end() ? sym : it->second;
}
static std::vector<uint8_t> V(int v) { const std::string& b = valBytes[v]; return std::vector<uint8_t>(b.begin(), b.end()); }
static int I(const std::vector<uint8_t>& v) {
  std::string s(v.begin(), v.end());
  for (int i = 0; i < (int)valBytes.size(); ++i) if (valBytes[i] == s) return i;
  return 77;   // not a value of the program: the specification will reject the event
}

// ---------------------------------------------------------------- case file parsing and execution
static std::map<std::string, std::string> kv(const std::vector<std::string>& toks, size_t from) {
  std::map<std::string, std::string> m;
  for (size_t i = from; i < toks.size(); ++i) { auto p = toks[i].find('='); if (p != std::string::npos) m[toks[i].substr(0, p)] = toks[i].substr(p + 1); }
  return m;
}
static std::vector<std::string> split(const std::string& s, char c) {
  std::vector<std::string> r; std::string cur; for (char x : s) { if (x == c) { if (!cur.empty()) r.push_back(cur); cur.clear(); } else cur += x; }
  if (!cur.empty()) r.push_back(cur); return r;
}
static std::vector<Req> parseReqs(const std::string& s) {
  std::vector<Req> r; for (auto& t : split(s, ',')) { auto p = t.find(':'); r.push_back({t.substr(0, p), t.substr(p + 1)}); } return r;
}
static void parseRule(const std::vector<std::string>& toks) {
  RuleDef d; auto m = kv(toks, 2);
  d.leaf = m["leaf"] == "1"; d.sig = m.count("sig") ? std::stoull(m["sig"]) : 1;
  d.base = m.count("base") ? std::stoi(m["base"]) : 0; d.force = m["force"] == "1"; d.valid = m["valid"] != "0"; d.out = m["out"] == "1";
  d.start = parseReqs(m["start"]); d.dynOn = m.count("dyn") && !m["dyn"].empty() ? m["dyn"] : "none";
  d.dynThen = parseReqs(m["then"]); d.dynElse = parseReqs(m["else"]);
  d.disc = split(m["disc"], ','); for (auto& p : split(m["proj"], ',')) d.proj.insert(p);
  prog[toks[1]] = d;
}

