// engine_driver: scripted-program client of core::BuildEngine (C++ API).
//
// Reads "case files" (see tools/gen_engine_cases.py for the format), runs each
// case against the real engine built from /repo's working tree and writes an
// ndjson trace of every observable API event (one JSON object per line) that
// spec/EngineTrace.tla validates against spec/Engine.tla.
//
// The scripted rules here and the "client semantics" section of Engine.tla are
// two interpreters of the same program records.
#include "llbuild/Core/BuildEngine.h"
#include "llbuild/Core/BuildDB.h"
#include "llbuild/Basic/ExecutionQueue.h"
#ifdef LLBUILD_VERIF
#include "llbuild/Core/VerifHooks.h"
#endif


using namespace llbuild;
using namespace llbuild::core;

#include "driver_common.h"

// ---------------------------------------------------------------- schedule control
enum Mode { SYNC, DET, THR };
static Mode mode = SYNC;
static BuildEngine* gEngine = nullptr;
static std::mt19937 schedRng;
static std::vector<int> tape; static size_t tapePos = 0;    // explicit choices (for enumeration / replay)
static long pointNo = 0;        // decision/callback points seen in the current build
static long cancelAt = -1;      // cancel when pointNo reaches this value
static bool cancelledThisBuild = false;
static bool sawCycle = false, sawError = false;
static int deferPct = 100;      // DET: percentage of completions deferred to hook points
static bool enumMode = false;   // DET: every decision (also defer-or-not) is a logged Choice, for schedule enumeration

static int choose(int n) {      // pick one of n options
  int c;
  if (tapePos < tape.size()) c = tape[tapePos++] % n; else c = (int)(schedRng() % n);
  emit("{\"e\":\"Choice\",\"n\":" + std::to_string(n) + ",\"c\":" + std::to_string(c) + "}");
  return c;
}
static void point() {           // a place where a synchronous cancel may be injected
  ++pointNo;
  if (cancelAt >= 0 && pointNo == cancelAt && !cancelledThisBuild) {
    cancelledThisBuild = true;
    emit("{\"e\":\"Cancel\",\"sync\":true}");
    gEngine->cancelBuild();
  }
}

struct ScriptTask;
struct PendingCompletion { ScriptTask* task; TaskInterface ti; std::string key; int value; bool force; std::vector<std::string> disc; bool writesOut; };
static std::vector<PendingCompletion> pending;       // DET mode: completions not yet delivered
static void deliver(size_t idx);

// worker pool for THR mode
static std::vector<std::thread> workers;
static std::mutex wqMutex; static std::condition_variable wqCv; static std::deque<PendingCompletion> wq; static bool wqStop = false;
static std::atomic<int> thrSeed{0};

static void doComplete(PendingCompletion& pc) {
  // discovered dependencies, then complete; each announced before the call
  if (pc.writesOut) ext[pc.key] = pc.value;      // the task's side effect on external state (its "output file")
  for (auto& d : pc.disc) {
    emit("{\"e\":\"Disc\",\"k\":" + q(pc.key) + ",\"d\":" + q(d) + "}");
    pc.ti.discoveredDependency(bytesOf(d));
  }
  emit("{\"e\":\"Complete\",\"k\":" + q(pc.key) + ",\"v\":" + std::to_string(pc.value) + ",\"force\":" + (pc.force ? "true" : "false") + "}");
  pc.ti.complete(V(pc.value), pc.force);
}

static void workerMain(int id) {
  std::mt19937 rng(thrSeed.load() * 977 + id);
  while (true) {
    PendingCompletion pc{nullptr, TaskInterface(nullptr, nullptr), "", 0, false, {}, false};
    {
      std::unique_lock<std::mutex> l(wqMutex);
      wqCv.wait(l, [] { return wqStop || !wq.empty(); });
      if (wq.empty()) return;
      size_t i = rng() % wq.size();
      pc = wq[i]; wq.erase(wq.begin() + i);
    }
    int us = rng() % 300;
    if (us > 100) std::this_thread::sleep_for(std::chrono::microseconds(us - 100));
    doComplete(pc);
  }
}

// ---------------------------------------------------------------- rules and tasks
struct ScriptTask : Task {
  std::string key; RuleDef* def; std::vector<Req> reqs; std::vector<int> got;
  ScriptTask(std::string k) : key(k), def(&prog[k]) {}
  void doReq(TaskInterface ti, const Req& r) {
    uintptr_t id = reqs.size(); reqs.push_back(r); got.push_back(0);
    std::string kb = bytesOf(r.k);
    if (r.kind == "in") ti.request(kb, id);
    else if (r.kind == "single") ti.requestSingleUse(kb, id);
    else ti.mustFollow(kb);
  }
  void start(TaskInterface ti) override {
    emit("{\"e\":\"Start\",\"k\":" + q(key) + "}");
    if (!def->leaf) for (auto& r : def->start) doReq(ti, r);
    point();
  }
  void providePriorValue(TaskInterface, const ValueType& v) override {
    emit("{\"e\":\"Prior\",\"k\":" + q(key) + ",\"v\":" + std::to_string(I(v)) + "}");
    point();
  }
  void provideValue(TaskInterface ti, uintptr_t id, const KeyType& k, const ValueType& v) override {
    std::string from = symOf(k.str());
    emit("{\"e\":\"Provide\",\"k\":" + q(key) + ",\"i\":" + std::to_string(id + 1) + ",\"from\":" + q(from) + ",\"v\":" + std::to_string(I(v)) + "}");
    if (id < got.size()) got[id] = I(v);
    if (def->dynOn == from) for (auto& r : (I(v) % 2 == 1 ? def->dynThen : def->dynElse)) doReq(ti, r);
    point();
  }
  void inputsAvailable(TaskInterface ti) override {
    emit("{\"e\":\"Avail\",\"k\":" + q(key) + "}");
    point();
    PendingCompletion pc{this, ti, key, 0, false, {}, false};
    if (def->leaf) pc.value = ext[key];
    else {
      int s = def->base;
      for (size_t i = 0; i < reqs.size(); ++i) if (reqs[i].kind != "follow" && def->proj.count(reqs[i].k)) s += got[i];
      for (auto& d : def->disc) if (prog[d].leaf) s += ext[d];     // a discovered derived key is reported, not read
      pc.value = s % NVALS; pc.force = def->force; pc.disc = def->disc; pc.writesOut = def->out;
    }
    if (mode == SYNC) { doComplete(pc); return; }
    if (mode == DET) {
      // decision: complete synchronously inside inputsAvailable, or defer to a hook point
      bool defer = enumMode ? (choose(2) == 1) : ((int)(schedRng() % 100) < deferPct);
      if (!defer) { doComplete(pc); return; }
      pending.push_back(pc); return;
    }
    { std::lock_guard<std::mutex> l(wqMutex); wq.push_back(pc); }
    wqCv.notify_one();
  }
};

static void deliver(size_t idx) {
  PendingCompletion pc = pending[idx];
  pending.erase(pending.begin() + idx);
  doComplete(pc);
}

struct ScriptRule : Rule {
  std::string sym;
  ScriptRule(const KeyType& k, const std::string& sym, uint64_t sig) : Rule(k, basic::CommandSignature(sig)), sym(sym) {}
  Task* createTask(BuildEngine&) override { emit("{\"e\":\"Create\",\"k\":" + q(sym) + "}"); return new ScriptTask(sym); }
  bool isResultValid(BuildEngine&, const ValueType& v) override {
    RuleDef& d = prog[sym];
    bool b = d.leaf ? (I(v) == ext[sym]) : (d.valid && (!d.out || I(v) == ext[sym]));
    emit("{\"e\":\"Valid\",\"k\":" + q(sym) + ",\"b\":" + (b ? "true" : "false") + "}");
    point();
    return b;
  }
  void updateStatus(BuildEngine&, StatusKind s) override {
    const char* n = s == StatusKind::IsScanning ? "scanning" : s == StatusKind::IsUpToDate ? "uptodate" : "complete";
    emit("{\"e\":\"Status\",\"k\":" + q(sym) + ",\"s\":\"" + n + "\"}");
    point();
  }
};
// rule for a key the program does not define (only reachable if the engine corrupts a key)
struct BogusRule : Rule {
  BogusRule(const KeyType& k) : Rule(k) {}
  struct T : Task { void start(TaskInterface) override {} void provideValue(TaskInterface, uintptr_t, const KeyType&, const ValueType&) override {}
    void inputsAvailable(TaskInterface ti) override { ti.complete(ValueType{}); } };
  Task* createTask(BuildEngine&) override { return new T(); }
  bool isResultValid(BuildEngine&, const ValueType&) override { return false; }
};

struct Del : BuildEngineDelegate, basic::ExecutionQueueDelegate {
  std::unique_ptr<Rule> lookupRule(const KeyType& key) override {
    std::string sym = symOf(key.str());
    if (!prog.count(sym)) {
      emit("{\"e\":\"UnknownKey\",\"hex\":" + q(hexOf(key.str())) + "}");
      return std::unique_ptr<Rule>(new BogusRule(key));
    }
    return std::unique_ptr<Rule>(new ScriptRule(key, sym, prog[sym].sig));
  }
  void determinedRuleNeedsToRun(Rule* r, Rule::RunReason reason, Rule* in) override {
    static const char* names[] = {"NeverBuilt", "SignatureChanged", "InvalidValue", "InputRebuilt", "Forced"};
    emit("{\"e\":\"NeedsRun\",\"k\":" + q(symOf(r->key.str())) + ",\"reason\":\"" + names[(int)reason] + "\",\"input\":" + q(in ? symOf(in->key.str()) : "none") + "}");
    point();
  }
  void cycleDetected(const std::vector<Rule*>& items) override {
    sawCycle = true;
    std::string s = "{\"e\":\"Cycle\",\"keys\":[";
    for (size_t i = 0; i < items.size(); ++i) s += (i ? "," : "") + q(symOf(items[i]->key.str()));
    emit(s + "]}");
  }
  void error(const llvm::Twine& m) override {
    sawError = true;
    std::string msg = m.str(); std::string clean;
    for (char c : msg) clean += (c == '"' || c == '\\' || (unsigned char)c < 32) ? '_' : c;
    emit("{\"e\":\"Error\",\"msg\":" + q(clean) + "}");
  }
  void processStarted(basic::ProcessContext*, basic::ProcessHandle, llbuild_pid_t) override {}
  void processHadError(basic::ProcessContext*, basic::ProcessHandle, const llvm::Twine&) override {}
  void processHadOutput(basic::ProcessContext*, basic::ProcessHandle, llvm::StringRef) override {}
  void processFinished(basic::ProcessContext*, basic::ProcessHandle, const basic::ProcessResult&) override {}
  void queueJobStarted(basic::JobDescriptor*) override {}
  void queueJobFinished(basic::JobDescriptor*) override {}
  std::unique_ptr<basic::ExecutionQueue> createExecutionQueue() override { return createSerialQueue(*this, nullptr); }
};

// ---------------------------------------------------------------- database decorators
static std::string recJson(BuildDBDelegate* d, const Result& r) {
  std::string s = "{\"v\":" + std::to_string(I(r.value)) + ",\"sig\":" + std::to_string((long long)r.signature.value) +
                  ",\"built\":" + std::to_string(r.builtAt) + ",\"computed\":" + std::to_string(r.computedAt) + ",\"deps\":[";
  bool first = true;
  for (auto dep : r.dependencies) {
    s += std::string(first ? "" : ",") + "{\"k\":" + q(symOf(d->getKeyForID(dep.keyID).str())) + ",\"oo\":" + (dep.orderOnly ? "true" : "false") + ",\"su\":" + (dep.singleUse ? "true" : "false") + "}";
    first = false;
  }
  return s + "]}";
}

// failure injection: the N-th forwarded database call of the given kind fails
static std::string failOp; static long failAt = -1; static long failCount = 0;
static bool shouldFail(const char* op) {
  if (failOp != op) return false;
  return ++failCount == failAt;
}

struct LoggingBuildDB : BuildDB {
  std::unique_ptr<BuildDB> inner;      // may be null: non-persisting variant
  BuildDBDelegate* del = nullptr;
  LoggingBuildDB(std::unique_ptr<BuildDB> in) : inner(std::move(in)) {}
  void attachDelegate(BuildDBDelegate* d) override { del = d; if (inner) inner->attachDelegate(d); }
  Epoch getCurrentEpoch(bool* ok, std::string* err) override {
    if (!inner) { *ok = true; return 0; }
    Epoch e = inner->getCurrentEpoch(ok, err);
    emit("{\"e\":\"DbEpoch\",\"ok\":" + std::string(*ok ? "true" : "false") + ",\"n\":" + std::to_string(e) + "}");
    return e;
  }
  bool setCurrentIteration(uint64_t v, std::string* err) override {
    emit("{\"e\":\"DbIter\",\"n\":" + std::to_string(v) + "}");
    if (shouldFail("iter")) { *err = "injected failure"; emit("{\"e\":\"DbErr\",\"op\":\"iter\"}"); return false; }
    return inner ? inner->setCurrentIteration(v, err) : true;
  }
  bool lookupRuleResult(KeyID id, const KeyType& key, Result* out, std::string* err) override {
    if (!inner) return false;
    bool found = inner->lookupRuleResult(id, key, out, err);
    if (!err->empty()) { emit("{\"e\":\"DbErr\",\"op\":\"lookup\"}"); return found; }
    emit("{\"e\":\"DbLookup\",\"k\":" + q(symOf(key.str())) + ",\"found\":" + (found ? "true" : "false") + ",\"rec\":" + (found ? recJson(del, *out) : std::string("{}")) + "}");
    return found;
  }
  bool setRuleResult(KeyID id, const Rule& rule, const Result& r, std::string* err) override {
    emit("{\"e\":\"DbSet\",\"k\":" + q(symOf(rule.key.str())) + ",\"rec\":" + recJson(del, r) + "}");
    if (shouldFail("set")) { *err = "injected failure"; emit("{\"e\":\"DbErr\",\"op\":\"set\"}"); return false; }
    return inner ? inner->setRuleResult(id, rule, r, err) : true;
  }
  bool buildStarted(std::string* err) override {
    if (shouldFail("begin")) { *err = "injected failure"; emit("{\"e\":\"DbErr\",\"op\":\"begin\"}"); return false; }
    bool ok = inner ? inner->buildStarted(err) : true;
    emit(std::string("{\"e\":\"DbBegin\",\"ok\":") + (ok ? "true" : "false") + "}");
    return ok;
  }
  void buildComplete() override { if (inner) inner->buildComplete(); emit("{\"e\":\"DbEnd\"}"); }
  bool getKeys(std::vector<KeyType>& k, std::string* e) override { return inner ? inner->getKeys(k, e) : true; }
  bool getKeysWithResult(std::vector<KeyType>& k, std::vector<Result>& r, std::string* e) override { return inner ? inner->getKeysWithResult(k, r, e) : true; }
};

// delegate used when reading a database file back independently of any engine
struct SnapDelegate : BuildDBDelegate {
  std::map<std::string, uint64_t> ids; std::vector<std::string> names;
  const KeyID getKeyID(const KeyType& key) override {
    auto it = ids.find(key.str());
    if (it == ids.end()) { names.push_back(key.str()); it = ids.insert({key.str(), names.size()}).first; }
    return KeyID((const void*)(uintptr_t)it->second);
  }
  KeyType getKeyForID(const KeyID id) override { return names[(uint64_t)id - 1]; }
};

static void snapshot(const std::string& path, uint32_t ver) {
  std::string err;
  auto db = createSQLiteBuildDB(path, ver, /*recreate=*/false, &err);
  if (!db) { emit("{\"e\":\"Snapshot\",\"ok\":false}"); return; }
  SnapDelegate sd; db->attachDelegate(&sd);
  bool ok = false; Epoch ep = db->getCurrentEpoch(&ok, &err);
  if (!ok) { emit("{\"e\":\"Snapshot\",\"ok\":false}"); return; }
  std::vector<KeyType> keys; std::vector<Result> results;
  if (!db->getKeysWithResult(keys, results, &err)) { emit("{\"e\":\"Snapshot\",\"ok\":false}"); return; }
  // rows sorted by symbolic key so that the line is canonical
  std::vector<std::pair<std::string, std::string>> rows;
  for (size_t i = 0; i < keys.size(); ++i) rows.push_back({symOf(keys[i].str()), recJson(&sd, results[i])});
  std::sort(rows.begin(), rows.end());
  std::string s = "{\"e\":\"Snapshot\",\"ok\":true,\"epoch\":" + std::to_string(ep) + ",\"rows\":[";
  for (size_t i = 0; i < rows.size(); ++i) s += std::string(i ? "," : "") + "{\"k\":" + q(rows[i].first) + ",\"rec\":" + rows[i].second + "}";
  emit(s + "]}");
}

// ---------------------------------------------------------------- hook
static void engineHook(int pt) {
#ifdef LLBUILD_VERIF
  using namespace llbuild::core::verif;
  if (pt == LoopTop) {
    point();                      // a synchronous cancel decided here precedes the Top line
    emit("{\"e\":\"Top\"}");
    if (mode == DET) {
      // deliver any number of pending completions (choice 0 = stop)
      while (!pending.empty()) {
        int c = choose((int)pending.size() + 1);
        if (c == 0) break;
        deliver(c - 1);
      }
    }
    return;
  }
  // BeforeWait / CancelDrain: the engine is about to block until a completion arrives
  if (mode == DET) {
    if (pending.empty()) {
      if (pt == BeforeWait) die(3, "Hang");     // engine would wait forever
      return;                                   // drain loop: finished queue may hold the completions already
    }
    int c = choose((int)pending.size());
    deliver(c);
    while (!pending.empty()) {
      int c2 = choose((int)pending.size() + 1);
      if (c2 == 0) break;
      deliver(c2 - 1);
    }
  }
#else
  (void)pt;
#endif
}

int main(int argc, char** argv) {
  if (argc < 2) { fprintf(stderr, "usage: engine_driver <casefile> [out.ndjson]\n"); return 2; }
  if (argc > 2) { outFd = ::open(argv[2], O_WRONLY | O_CREAT | O_TRUNC, 0644); if (outFd < 0) { perror("open"); return 2; } }
  unbuffered = getenv("VERIF_UNBUF") != nullptr;
  int hangSecs = getenv("VERIF_HANG_SECS") ? atoi(getenv("VERIF_HANG_SECS")) : 20;
  signal(SIGALRM, onAlarm); signal(SIGABRT, onAbort); signal(SIGSEGV, onAbort);
#ifdef LLBUILD_VERIF
  llbuild::core::verif::engineHook = engineHook;
#endif
  std::ifstream in(argv[1]); std::string line;
  std::unique_ptr<Del> del; std::unique_ptr<BuildEngine> engine;
  std::string dbPath; uint32_t dbVer = 1;
  int nThreads = 4;
  auto stopWorkers = [&]() {
    { std::lock_guard<std::mutex> l(wqMutex); wqStop = true; } wqCv.notify_all();
    for (auto& t : workers) t.join(); workers.clear(); wqStop = false;
  };
  while (std::getline(in, line)) {
    if (line.empty() || line[0] == '#') continue;
    std::vector<std::string> toks = split(line, ' ');
    const std::string& cmd = toks[0];
    if (cmd == "case") {
      engine.reset(); del.reset(); gEngine = nullptr; pending.clear();
      prog.clear(); ext.clear(); keyBytes.clear(); bytesKey.clear(); dbPath.clear();
      failOp.clear(); failAt = -1; failCount = 0;
      alarm(hangSecs);
    } else if (cmd == "raw") {            // raw <json>: passed through to the trace (Reset lines etc.)
      emit(line.substr(4));
    } else if (cmd == "rule") parseRule(toks);
    else if (cmd == "ext") { ext[toks[1]] = std::stoi(toks[2]); }
    else if (cmd == "keybytes") { std::string b = unhex(toks[2]); keyBytes[toks[1]] = b; bytesKey[b] = toks[1]; }
    else if (cmd == "valbytes") { valBytes.clear(); for (size_t i = 1; i < toks.size(); ++i) valBytes.push_back(toks[i] == "-" ? std::string() : unhex(toks[i])); }
    else if (cmd == "engine") {
      // engine db=<path|none> ver=<n> recreate=<0|1> rest=<raw json members to splice into the event>
      auto m = kv(toks, 1);
      engine.reset(); del.reset(new Del()); engine.reset(new BuildEngine(*del)); gEngine = engine.get(); pending.clear();
      std::string err; bool ok = true; bool withdb = m["db"] != "none";
      dbVer = m.count("ver") ? std::stoul(m["ver"]) : 1;
      std::string extra; { auto p = line.find(" rest="); if (p != std::string::npos) extra = "," + line.substr(p + 6); }
      // the Engine line precedes the attach, whose DbEpoch line follows it
      emit("{\"e\":\"Engine\",\"db\":" + std::string(withdb ? "true" : "false") + ",\"ver\":" + std::to_string(dbVer) + extra + "}");
      if (withdb) {
        dbPath = m["db"];
        auto sq = createSQLiteBuildDB(dbPath, dbVer, m["recreate"] != "0", &err);
        if (!sq) ok = false;
        else ok = engine->attachDB(std::unique_ptr<BuildDB>(new LoggingBuildDB(std::move(sq))), &err);
      } else {
        dbPath.clear();
        ok = engine->attachDB(std::unique_ptr<BuildDB>(new LoggingBuildDB(nullptr)), &err);
      }
      emit(std::string("{\"e\":\"Attach\",\"ok\":") + (ok ? "true" : "false") + "}");
    } else if (cmd == "mutate") {
      ext[toks[1]] = std::stoi(toks[2]);
      emit("{\"e\":\"Mutate\",\"k\":" + q(toks[1]) + ",\"v\":" + toks[2] + "}");
    } else if (cmd == "reset") {
      engine->resetForBuild(); emit("{\"e\":\"ResetForBuild\"}");
    } else if (cmd == "dbfail") {         // dbfail op=<begin|set|iter> at=<n>
      auto m = kv(toks, 1); failOp = m["op"]; failAt = std::stol(m["at"]); failCount = 0;
    } else if (cmd == "build") {
      // build <key> mode=<sync|det|thr> seed=<n> tape=<c,c,..> cancel=<point#> defer=<pct> threads=<n> acancel=<usec>
      auto m = kv(toks, 2);
      mode = m["mode"] == "det" ? DET : m["mode"] == "thr" ? THR : SYNC;
      schedRng.seed(m.count("seed") ? std::stoul(m["seed"]) : 1);
      tape.clear(); tapePos = 0; for (auto& t : split(m["tape"], ',')) tape.push_back(std::stoi(t));
      cancelAt = m.count("cancel") ? std::stol(m["cancel"]) : -1; cancelledThisBuild = false;
      deferPct = m.count("defer") ? std::stoi(m["defer"]) : 100;
      enumMode = m.count("tape") != 0;
      pointNo = 0; sawCycle = false; sawError = false; pending.clear();
      std::thread canceller;
      if (mode == THR) {
        nThreads = m.count("threads") ? std::stoi(m["threads"]) : 4; thrSeed = m.count("seed") ? std::stoi(m["seed"]) : 1;
        for (int i = 0; i < nThreads; ++i) workers.emplace_back(workerMain, i);
        if (m.count("acancel")) {
          long us = std::stol(m["acancel"]);
          canceller = std::thread([us]() {
            std::this_thread::sleep_for(std::chrono::microseconds(us));
            emit("{\"e\":\"Cancel\",\"sync\":false}");
            gEngine->cancelBuild();
            emit("{\"e\":\"CancelDone\"}");
          });
        }
      }
      emit("{\"e\":\"Build\",\"k\":" + q(toks[1]) + ",\"sc\":" + std::to_string(shimCount()) + "}");
      const ValueType& v = engine->build(bytesOf(toks[1]));
      int iv = I(v);
      if (canceller.joinable()) canceller.join();
      if (mode == THR) stopWorkers();
      emit(std::string("{\"e\":\"Return\",\"v\":") + std::to_string(iv) + ",\"cancelled\":" + (engine->isCancelled() ? "true" : "false") +
           ",\"cycle\":" + (sawCycle ? "true" : "false") + ",\"error\":" + (sawError ? "true" : "false") +
           ",\"pending\":" + std::to_string(pending.size()) + ",\"points\":" + std::to_string(pointNo) + ",\"sc\":" + std::to_string(shimCount()) + "}");
      pending.clear();
      if (m["verify"] == "1" && !sawCycle && !sawError && !engine->isCancelled()) {
        // differential oracle: a brand-new engine without history builds the same key
        quietLog = true; Mode savedMode = mode; mode = SYNC; long savedCancel = cancelAt; cancelAt = -1;
        int cv;
        auto savedExt = ext;       // the reference build must not leave side effects behind (output cells it writes)
        { Del d2; BuildEngine e2(d2); BuildEngine* savedE = gEngine; gEngine = &e2;
          cv = I(e2.build(bytesOf(toks[1]))); gEngine = savedE; }
        ext = savedExt;
        mode = savedMode; cancelAt = savedCancel; quietLog = false; sawCycle = false; sawError = false;
        emit("{\"e\":\"CleanCheck\",\"k\":" + q(toks[1]) + ",\"v\":" + std::to_string(iv) + ",\"clean\":" + std::to_string(cv) + "}");
      }
      if (!dbPath.empty() && m["snap"] != "0") snapshot(dbPath, dbVer);
    } else if (cmd == "snapshot") {
      snapshot(toks[1], toks.size() > 2 ? std::stoul(toks[2]) : 1);
    } else if (cmd == "end") {
      engine.reset(); del.reset(); gEngine = nullptr;
      alarm(0);
      emit("{\"e\":\"End\"}");
    }
  }
  { std::lock_guard<std::mutex> g(logMutex); flushOut(); }
  return 0;
}
