// engine_driver_capi: the same scripted programs as engine_driver.cpp, written against the
// libllbuild C interface (products/libllbuild/include/llbuild/core.h) only.  (C20)
//
// The engine is reached exclusively through llb_* functions; the only C++ library call is the
// observer's independent read-back of the database file (snapshot), which is not part of the
// client under test.  Events the C interface cannot express (prior value, rule signatures,
// single-use requests, cancellation, determinedRuleNeedsToRun, database decorator events) do
// not appear in this driver's traces; spec/EngineTraceC.tla lets TLC infer them.
#include <llbuild/llbuild.h>
#include "llbuild/Core/BuildDB.h"          // observer only (snapshot)
#include "llbuild/Core/BuildEngine.h"      // observer only (Result)
#ifdef LLBUILD_VERIF
#include "llbuild/Core/VerifHooks.h"
#endif

#include "driver_common.h"

enum Mode { SYNC, DET };
static Mode mode = SYNC;
static std::mt19937 schedRng;
static std::vector<int> tape; static size_t tapePos = 0;
static int deferPct = 100; static bool enumMode = false;
static bool sawCycle = false, sawError = false;

static int choose(int n) {
  int c;
  if (tapePos < tape.size()) c = tape[tapePos++] % n; else c = (int)(schedRng() % n);
  emit("{\"e\":\"Choice\",\"n\":" + std::to_string(n) + ",\"c\":" + std::to_string(c) + "}");
  return c;
}
static llb_data_t D(const std::string& s) { return llb_data_t{ s.size(), (const uint8_t*)s.data() }; }
static int Idata(const llb_data_t* d) { return I(std::vector<uint8_t>(d->data, d->data + d->length)); }

struct CTask {
  std::string key; RuleDef* def; std::vector<Req> reqs; std::vector<int> got;
};
struct PendingC { llb_task_interface_t ti; std::string key; int value; bool force; std::vector<std::string> disc; bool writesOut; };
static std::vector<PendingC> pending;

static void doRequest(CTask* t, llb_task_interface_t ti, const Req& r) {
  uintptr_t id = t->reqs.size(); t->reqs.push_back(r); t->got.push_back(0);
  std::string kb = bytesOf(r.k); llb_data_t kd = D(kb);
  if (r.kind == "follow") llb_buildengine_task_must_follow(ti, &kd);
  else llb_buildengine_task_needs_input(ti, &kd, id);
}
static void doComplete(PendingC& pc) {
  if (pc.writesOut) ext[pc.key] = pc.value;
  for (auto& d : pc.disc) {
    emit("{\"e\":\"Disc\",\"k\":" + q(pc.key) + ",\"d\":" + q(d) + "}");
    std::string kb = bytesOf(d); llb_data_t kd = D(kb);
    llb_buildengine_task_discovered_dependency(pc.ti, &kd);
  }
  emit("{\"e\":\"Complete\",\"k\":" + q(pc.key) + ",\"v\":" + std::to_string(pc.value) + ",\"force\":" + (pc.force ? "true" : "false") + "}");
  std::vector<uint8_t> vb = V(pc.value); llb_data_t vd{ vb.size(), vb.data() };
  llb_buildengine_task_is_complete(pc.ti, &vd, pc.force);
}
static void deliver(size_t idx) { PendingC pc = pending[idx]; pending.erase(pending.begin() + idx); doComplete(pc); }

// ---- task callbacks
static void t_destroy(void* ctx) { delete (CTask*)ctx; }
static void t_start(void* ctx, void*, llb_task_interface_t ti) {
  CTask* t = (CTask*)ctx;
  emit("{\"e\":\"Start\",\"k\":" + q(t->key) + "}");
  if (!t->def->leaf) for (auto& r : t->def->start) doRequest(t, ti, r);
}
static void t_provide(void* ctx, void*, llb_task_interface_t ti, uintptr_t id, const llb_data_t* value) {
  CTask* t = (CTask*)ctx;
  int v = Idata(value);
  std::string from = id < t->reqs.size() ? t->reqs[id].k : std::string("?");
  emit("{\"e\":\"Provide\",\"k\":" + q(t->key) + ",\"i\":" + std::to_string(id + 1) + ",\"from\":" + q(from) + ",\"v\":" + std::to_string(v) + "}");
  if (id < t->got.size()) t->got[id] = v;
  if (t->def->dynOn == from) for (auto& r : (v % 2 == 1 ? t->def->dynThen : t->def->dynElse)) doRequest(t, ti, r);
}
static void t_avail(void* ctx, void*, llb_task_interface_t ti) {
  CTask* t = (CTask*)ctx;
  emit("{\"e\":\"Avail\",\"k\":" + q(t->key) + "}");
  PendingC pc{ti, t->key, 0, false, {}, false};
  if (t->def->leaf) pc.value = ext[t->key];
  else {
    int s = t->def->base;
    for (size_t i = 0; i < t->reqs.size(); ++i) if (t->reqs[i].kind != "follow" && t->def->proj.count(t->reqs[i].k)) s += t->got[i];
    for (auto& d : t->def->disc) if (prog[d].leaf) s += ext[d];     // a discovered derived key is reported, not read
    pc.value = s % NVALS; pc.force = t->def->force; pc.disc = t->def->disc; pc.writesOut = t->def->out;
  }
  if (mode == SYNC) { doComplete(pc); return; }
  bool defer = enumMode ? (choose(2) == 1) : ((int)(schedRng() % 100) < deferPct);
  if (!defer) { doComplete(pc); return; }
  pending.push_back(pc);
}
// ---- rule callbacks (context = heap copy of the symbolic key)
static llb_task_t* r_create(void* ctx, void*) {
  std::string* sym = (std::string*)ctx;
  emit("{\"e\":\"Create\",\"k\":" + q(*sym) + "}");
  CTask* t = new CTask{*sym, &prog[*sym], {}, {}};
  llb_task_delegate_t d; memset(&d, 0, sizeof d);
  d.context = t; d.destroy_context = t_destroy; d.start = t_start; d.provide_value = t_provide; d.inputs_available = t_avail;
  return llb_task_create(d);
}
static bool r_valid(void* ctx, void*, const llb_rule_t*, const llb_data_t* result) {
  std::string* sym = (std::string*)ctx; RuleDef& d = prog[*sym];
  int v = Idata(result);
  bool b = d.leaf ? (v == ext[*sym]) : (d.valid && (!d.out || v == ext[*sym]));
  emit("{\"e\":\"Valid\",\"k\":" + q(*sym) + ",\"b\":" + (b ? "true" : "false") + "}");
  return b;
}
static void r_status(void* ctx, void*, llb_rule_status_kind_t kind) {
  std::string* sym = (std::string*)ctx;
  const char* n = kind == llb_rule_is_scanning ? "scanning" : kind == llb_rule_is_up_to_date ? "uptodate" : "complete";
  emit("{\"e\":\"Status\",\"k\":" + q(*sym) + ",\"s\":\"" + n + "\"}");
}
// ---- engine delegate
static std::vector<std::string*> ruleContexts;
static void d_lookup(void*, const llb_data_t* key, llb_rule_t* rule_out) {
  std::string kb((const char*)key->data, key->length);
  std::string sym = symOf(kb);
  if (!prog.count(sym)) { emit("{\"e\":\"UnknownKey\",\"hex\":" + q(hexOf(kb)) + "}"); sym = "a"; }
  std::string* ctx = new std::string(sym); ruleContexts.push_back(ctx);
  rule_out->context = ctx; rule_out->create_task = r_create; rule_out->is_result_valid = r_valid; rule_out->update_status = r_status;
}
static void d_error(void*, const char* m) {
  sawError = true; std::string clean; for (const char* p = m; *p; ++p) clean += (*p == '"' || *p == '\\' || (unsigned char)*p < 32) ? '_' : *p;
  emit("{\"e\":\"Error\",\"msg\":" + q(clean) + "}");
}
static void d_cycle(void*, const llb_data_t* keys, uint64_t n) {
  sawCycle = true; std::string s = "{\"e\":\"Cycle\",\"keys\":[";
  for (uint64_t i = 0; i < n; ++i) s += (i ? "," : "") + q(symOf(std::string((const char*)keys[i].data, keys[i].length)));
  emit(s + "]}");
}

// ---- observer: independent read-back of the database
struct SnapDelegate : llbuild::core::BuildDBDelegate {
  std::map<std::string, uint64_t> ids; std::vector<std::string> names;
  const llbuild::core::KeyID getKeyID(const llbuild::core::KeyType& key) override {
    auto it = ids.find(key.str());
    if (it == ids.end()) { names.push_back(key.str()); it = ids.insert({key.str(), names.size()}).first; }
    return llbuild::core::KeyID((const void*)(uintptr_t)it->second);
  }
  llbuild::core::KeyType getKeyForID(const llbuild::core::KeyID id) override { return names[(uint64_t)id - 1]; }
};
static void snapshot(const std::string& path, uint32_t ver) {
  using namespace llbuild::core;
  std::string err; auto db = createSQLiteBuildDB(path, ver, false, &err);
  if (!db) { emit("{\"e\":\"Snapshot\",\"ok\":false}"); return; }
  SnapDelegate sd; db->attachDelegate(&sd); bool ok = false; Epoch ep = db->getCurrentEpoch(&ok, &err);
  std::vector<KeyType> keys; std::vector<Result> results;
  if (!ok || !db->getKeysWithResult(keys, results, &err)) { emit("{\"e\":\"Snapshot\",\"ok\":false}"); return; }
  std::vector<std::pair<std::string, std::string>> rows;
  for (size_t i = 0; i < keys.size(); ++i) {
    const Result& r = results[i];
    std::string s = "{\"v\":" + std::to_string(I(r.value)) + ",\"sig\":" + std::to_string((long long)r.signature.value) + ",\"built\":" + std::to_string(r.builtAt) + ",\"computed\":" + std::to_string(r.computedAt) + ",\"deps\":[";
    bool first = true;
    for (auto dep : r.dependencies) { s += std::string(first ? "" : ",") + "{\"k\":" + q(symOf(sd.getKeyForID(dep.keyID).str())) + ",\"oo\":" + (dep.orderOnly ? "true" : "false") + ",\"su\":" + (dep.singleUse ? "true" : "false") + "}"; first = false; }
    rows.push_back({symOf(keys[i].str()), s + "]}"});
  }
  std::sort(rows.begin(), rows.end());
  std::string s = "{\"e\":\"Snapshot\",\"ok\":true,\"epoch\":" + std::to_string(ep) + ",\"rows\":[";
  for (size_t i = 0; i < rows.size(); ++i) s += std::string(i ? "," : "") + "{\"k\":" + q(rows[i].first) + ",\"rec\":" + rows[i].second + "}";
  emit(s + "]}");
}

static void engineHook(int pt) {
#ifdef LLBUILD_VERIF
  using namespace llbuild::core::verif;
  if (pt == LoopTop) {
    emit("{\"e\":\"Top\"}");
    if (mode == DET) while (!pending.empty()) { int c = choose((int)pending.size() + 1); if (c == 0) break; deliver(c - 1); }
    return;
  }
  if (mode == DET) {
    if (pending.empty()) { if (pt == BeforeWait) die(3, "Hang"); return; }
    deliver(choose((int)pending.size()));
    while (!pending.empty()) { int c2 = choose((int)pending.size() + 1); if (c2 == 0) break; deliver(c2 - 1); }
  }
#else
  (void)pt;
#endif
}

int main(int argc, char** argv) {
  if (argc < 2) { fprintf(stderr, "usage: engine_driver_capi <casefile> [out.ndjson]\n"); return 2; }
  if (argc > 2) { outFd = ::open(argv[2], O_WRONLY | O_CREAT | O_TRUNC, 0644); if (outFd < 0) { perror("open"); return 2; } }
  int hangSecs = getenv("VERIF_HANG_SECS") ? atoi(getenv("VERIF_HANG_SECS")) : 20;
  signal(SIGALRM, onAlarm); signal(SIGABRT, onAbort); signal(SIGSEGV, onAbort);
#ifdef LLBUILD_VERIF
  llbuild::core::verif::engineHook = engineHook;
#endif
  std::ifstream in(argv[1]); std::string line;
  llb_buildengine_t* engine = nullptr; std::string dbPath; uint32_t dbVer = 1;
  auto destroy = [&]() { if (engine) llb_buildengine_destroy(engine); engine = nullptr; for (auto p : ruleContexts) delete p; ruleContexts.clear(); };
  while (std::getline(in, line)) {
    if (line.empty() || line[0] == '#') continue;
    std::vector<std::string> toks = split(line, ' ');
    const std::string& cmd = toks[0];
    if (cmd == "case") { destroy(); pending.clear(); prog.clear(); ext.clear(); keyBytes.clear(); bytesKey.clear(); dbPath.clear(); alarm(hangSecs); }
    else if (cmd == "raw") emit(line.substr(4));
    else if (cmd == "rule") parseRule(toks);
    else if (cmd == "ext") ext[toks[1]] = std::stoi(toks[2]);
    else if (cmd == "keybytes") { std::string b = unhex(toks[2]); keyBytes[toks[1]] = b; bytesKey[b] = toks[1]; }
    else if (cmd == "valbytes") { valBytes.clear(); for (size_t i = 1; i < toks.size(); ++i) valBytes.push_back(toks[i] == "-" ? std::string() : unhex(toks[i])); }
    else if (cmd == "engine") {
      auto m = kv(toks, 1); destroy(); pending.clear();
      llb_buildengine_delegate_t d; memset(&d, 0, sizeof d);
      d.lookup_rule = d_lookup; d.error = d_error; d.cycle_detected = d_cycle;
      engine = llb_buildengine_create(d);
      bool withdb = m["db"] != "none"; dbVer = m.count("ver") ? std::stoul(m["ver"]) : 1; bool ok = true;
      std::string extra; { auto p = line.find(" rest="); if (p != std::string::npos) extra = "," + line.substr(p + 6); }
      emit("{\"e\":\"Engine\",\"db\":" + std::string(withdb ? "true" : "false") + ",\"ver\":" + std::to_string(dbVer) + extra + "}");
      if (withdb) { dbPath = m["db"]; llb_data_t pd = D(dbPath); char* err = nullptr; ok = llb_buildengine_attach_db(engine, &pd, dbVer, &err); free(err); }
      else dbPath.clear();
      emit(std::string("{\"e\":\"Attach\",\"ok\":") + (ok ? "true" : "false") + "}");
    } else if (cmd == "mutate") { ext[toks[1]] = std::stoi(toks[2]); emit("{\"e\":\"Mutate\",\"k\":" + q(toks[1]) + ",\"v\":" + toks[2] + "}"); }
    else if (cmd == "build") {
      auto m = kv(toks, 2);
      mode = m["mode"] == "det" ? DET : SYNC;
      schedRng.seed(m.count("seed") ? std::stoul(m["seed"]) : 1);
      tape.clear(); tapePos = 0; for (auto& t : split(m["tape"], ',')) tape.push_back(std::stoi(t));
      deferPct = m.count("defer") ? std::stoi(m["defer"]) : 100; enumMode = m.count("tape") != 0;
      sawCycle = false; sawError = false; pending.clear();
      emit("{\"e\":\"Build\",\"k\":" + q(toks[1]) + "}");
      std::string kb = bytesOf(toks[1]); llb_data_t kd = D(kb); llb_data_t result;
      llb_buildengine_build(engine, &kd, &result);
      int iv = Idata(&result);
      emit(std::string("{\"e\":\"Return\",\"v\":") + std::to_string(iv) + ",\"cancelled\":false,\"cycle\":" + (sawCycle ? "true" : "false") + ",\"error\":" + (sawError ? "true" : "false") + ",\"pending\":" + std::to_string(pending.size()) + "}");
      pending.clear();
      if (!dbPath.empty() && m["snap"] != "0") snapshot(dbPath, dbVer);
    } else if (cmd == "end") { destroy(); alarm(0); emit("{\"e\":\"End\"}"); }
    // reset / dbfail / cancel have no C API counterpart
  }
  { std::lock_guard<std::mutex> g(logMutex); flushOut(); }
  return 0;
}
