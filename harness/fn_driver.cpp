// fn_driver: replays TLC-enumerated cases through the real functions of llbuild.
// stdin: one case per line, TAB separated: <function> <hex arg>...   stdout: one result line per case.
// Byte-string arguments are handed to the function in exact-size heap buffers (no terminator),
// so that the ASan variant of this driver sees every out-of-bounds read.
#include "llbuild/BuildSystem/BuildSystem.h"
#include <cstdio>
#include <cstdlib>
#include <cstring>
#include <iostream>
#include <string>
#include <vector>

static std::string unhex(const std::string& h) {
  std::string r; for (size_t i = 0; i + 1 < h.size(); i += 2) r += (char)std::stoi(h.substr(i, 2), nullptr, 16); return r;
}
static std::string hexOf(const std::string& s) {
  static const char* d = "0123456789abcdef"; std::string r; for (unsigned char c : s) { r += d[c >> 4]; r += d[c & 15]; } return r;
}
static std::vector<std::string> splitTab(const std::string& s) {
  std::vector<std::string> r; size_t p = 0; while (true) { size_t q = s.find('\t', p); r.push_back(s.substr(p, q == std::string::npos ? q : q - p)); if (q == std::string::npos) break; p = q + 1; } return r;
}

static std::vector<std::string> splitTabLike(const std::string& s, char c) {
  std::vector<std::string> r; size_t p = 0; while (true) { size_t q = s.find(c, p); r.push_back(s.substr(p, q == std::string::npos ? q : q - p)); if (q == std::string::npos) break; p = q + 1; } return r;
}
#include <memory>
#include "fn_cases.inc"

int main() {
  std::string line;
  while (std::getline(std::cin, line)) {
    auto t = splitTab(line);
    std::vector<std::string> a; for (size_t i = 1; i < t.size(); ++i) a.push_back(t[i] == "-" ? std::string() : unhex(t[i]));
    std::string out = runCase(t[0], a);
    std::cout << out << "\n";
  }
  return 0;
}
