// LD_PRELOAD shim for C04: counts the system calls that touch the build database (or its journal)
// and kills the process (SIGKILL, no cleanup) immediately BEFORE the N-th such call.
//   VERIF_KILL_MATCH  substring identifying database paths          (required)
//   VERIF_KILL_AT     N (absent or 0: count only)
//   VERIF_SHIM_LOG    file to append "<n> <syscall>" lines to
#define _GNU_SOURCE
#include <dlfcn.h>
#include <fcntl.h>
#include <stdarg.h>
#include <stdio.h>
#include <stdlib.h>
#include <string.h>
#include <signal.h>
#include <unistd.h>
#include <sys/types.h>
static int tracked[4096]; static long count = 0; static long killat = -1; static int inited = 0; static const char* match = 0; static int logfd = -1;
static ssize_t (*real_write)(int, const void*, size_t);
static void init(void) {
  if (inited) return; inited = 1;
  const char* k = getenv("VERIF_KILL_AT"); if (k) killat = atol(k);
  match = getenv("VERIF_KILL_MATCH");
  const char* l = getenv("VERIF_SHIM_LOG");
  if (l) { int (*ropen)(const char*, int, ...) = dlsym(RTLD_NEXT, "open"); logfd = ropen(l, O_WRONLY | O_CREAT | O_APPEND, 0644); }
  real_write = dlsym(RTLD_NEXT, "write");
}
long verif_shim_count(void) { return count; }
static void tick(const char* what) {
  init(); count++;
  if (logfd >= 0) { char buf[64]; int n = snprintf(buf, sizeof buf, "%ld %s\n", count, what); real_write(logfd, buf, n); }
  if (killat > 0 && count == killat) kill(getpid(), SIGKILL);
}
static int is_db(const char* p) { init(); return p && match && strstr(p, match) != NULL; }
#define TRK(fd) ((fd) >= 0 && (fd) < 4096 && tracked[fd])
int open64(const char* path, int flags, ...) { static int (*real)(const char*, int, ...); if (!real) real = dlsym(RTLD_NEXT, "open64"); mode_t m = 0; if (flags & O_CREAT) { va_list ap; va_start(ap, flags); m = va_arg(ap, mode_t); va_end(ap); } int d = is_db(path); if (d) tick("open"); int fd = real(path, flags, m); if (fd >= 0 && fd < 4096) tracked[fd] = d; return fd; }
int open(const char* path, int flags, ...) { static int (*real)(const char*, int, ...); if (!real) real = dlsym(RTLD_NEXT, "open"); mode_t m = 0; if (flags & O_CREAT) { va_list ap; va_start(ap, flags); m = va_arg(ap, mode_t); va_end(ap); } int d = is_db(path); if (d) tick("open"); int fd = real(path, flags, m); if (fd >= 0 && fd < 4096) tracked[fd] = d; return fd; }
int openat(int dfd, const char* path, int flags, ...) { static int (*real)(int, const char*, int, ...); if (!real) real = dlsym(RTLD_NEXT, "openat"); mode_t m = 0; if (flags & O_CREAT) { va_list ap; va_start(ap, flags); m = va_arg(ap, mode_t); va_end(ap); } int d = is_db(path); if (d) tick("openat"); int fd = real(dfd, path, flags, m); if (fd >= 0 && fd < 4096) tracked[fd] = d; return fd; }
ssize_t pwrite64(int fd, const void* b, size_t n, off64_t o) { static ssize_t (*real)(int, const void*, size_t, off64_t); if (!real) real = dlsym(RTLD_NEXT, "pwrite64"); if (TRK(fd)) tick("pwrite"); return real(fd, b, n, o); }
ssize_t pwrite(int fd, const void* b, size_t n, off_t o) { static ssize_t (*real)(int, const void*, size_t, off_t); if (!real) real = dlsym(RTLD_NEXT, "pwrite"); if (TRK(fd)) tick("pwrite"); return real(fd, b, n, o); }
ssize_t write(int fd, const void* b, size_t n) { init(); if (TRK(fd)) tick("write"); return real_write(fd, b, n); }
int fdatasync(int fd) { static int (*real)(int); if (!real) real = dlsym(RTLD_NEXT, "fdatasync"); if (TRK(fd)) tick("fdatasync"); return real(fd); }
int fsync(int fd) { static int (*real)(int); if (!real) real = dlsym(RTLD_NEXT, "fsync"); if (TRK(fd)) tick("fsync"); return real(fd); }
int ftruncate64(int fd, off64_t l) { static int (*real)(int, off64_t); if (!real) real = dlsym(RTLD_NEXT, "ftruncate64"); if (TRK(fd)) tick("ftruncate"); return real(fd, l); }
int ftruncate(int fd, off_t l) { static int (*real)(int, off_t); if (!real) real = dlsym(RTLD_NEXT, "ftruncate"); if (TRK(fd)) tick("ftruncate"); return real(fd, l); }
int unlink(const char* p) { static int (*real)(const char*); if (!real) real = dlsym(RTLD_NEXT, "unlink"); if (is_db(p)) tick("unlink"); return real(p); }
int rename(const char* a, const char* b) { static int (*real)(const char*, const char*); if (!real) real = dlsym(RTLD_NEXT, "rename"); if (is_db(a) || is_db(b)) tick("rename"); return real(a, b); }
int close(int fd) { static int (*real)(int); if (!real) real = dlsym(RTLD_NEXT, "close"); if (fd >= 0 && fd < 4096) tracked[fd] = 0; return real(fd); }
