// C17: in-process loader of Ninja manifests for the fields `llbuild ninja load-manifest` does not print
// (rspfile, rspfile_content).  stdin: one hex-encoded directory per line; the file build.ninja in it is
// loaded with that directory as working directory.  stdout, per directory:
//     M <number of diagnostics>
//     C <hex first output> <hex rspfile | -> <hex rspfile_content | ->        (one per loaded build statement)
//     E
#include "llbuild/Basic/LLVM.h"
#include "llbuild/Ninja/Manifest.h"
#include "llbuild/Ninja/ManifestLoader.h"
#include "llvm/Support/MemoryBuffer.h"

#include <cstdio>
#include <iostream>
#include <string>

using namespace llbuild;

namespace {
struct Actions : public ninja::ManifestLoaderActions {
  unsigned numErrors = 0;
  void initialize(ninja::ManifestLoader*) override {}
  void error(StringRef, StringRef, const ninja::Token&) override { ++numErrors; }
  std::unique_ptr<llvm::MemoryBuffer> readFile(StringRef path, StringRef, const ninja::Token*) override {
    auto buf = llvm::MemoryBuffer::getFile(path);
    if (!buf) { ++numErrors; return nullptr; }
    return std::move(*buf);
  }
};

std::string unhex(const std::string& s) {
  std::string r;
  for (size_t i = 0; i + 1 < s.size(); i += 2) r.push_back((char)std::stoi(s.substr(i, 2), nullptr, 16));
  return r;
}
std::string hex(const std::string& s) {
  if (s.empty()) return "-";
  static const char* d = "0123456789abcdef";
  std::string r;
  for (unsigned char c : s) { r.push_back(d[c >> 4]); r.push_back(d[c & 15]); }
  return r;
}
}

int main() {
  std::string line;
  while (std::getline(std::cin, line)) {
    if (line.empty()) continue;
    std::string dir = unhex(line);
    Actions actions;
    ninja::ManifestLoader loader(dir, "build.ninja", actions);
    std::unique_ptr<ninja::Manifest> manifest = loader.load();
    printf("M %u\n", actions.numErrors);
    if (manifest) {
      for (const auto* c : manifest->getCommands()) {
        printf("C %s %s %s\n", hex(c->getOutputs()[0]->getScreenPath()).c_str(), hex(c->getRspFile()).c_str(),
               hex(c->getRspFileContent()).c_str());
      }
    }
    printf("E\n");
    fflush(stdout);
  }
  return 0;
}
