// parse_driver: replays enumerated / generated inputs through the hand-written parsers of llbuild (C19, parts of C17).
//
// stdin : one case per line, TAB separated: <function> <hex arg>...      ("-" = empty byte string)
// stdout: exactly one result line per case, in input order.
//
//   lex4      <buf>                 Ninja lexer over the whole buffer in the four lexing modes
//                                   -> N=[[kind,start,len],...];I=[...];P=[...];V=[...]      (kind = enum Token::Kind)
//                                      a list ends with the first EndOfFile token; "STUCK" is appended when
//                                      len+2 calls of lex() did not reach it
//   manifest  <main> [<inc>]        ManifestLoader::load of an in-memory "build.ninja" (and optional "inc.ninja")
//                                   -> ok errs=<n> cmds=<n> rules=<n> pools=<n> binds=<n> defaults=<n> d=<digest>
//   makedeps  <0|1> <buf>           MakefileDepsParser::parse (flag = ignoreSubsequentOutputs)
//                                   -> callback sequence: S:<hex unescaped> D:<hex unescaped> !:<pos> .   (+ OOB marker)
//   depinfo   <buf>                 DependencyInfoParser::parse -> V:<hex> I:<hex> M:<hex> O:<hex> !:<pos>  (+ OOB marker)
//   shq       <string>              basic::shellEscaped -> hex of the result
//   buildfile <yaml>                BuildSystem::loadDescription of an in-memory file -> loaded|failed errs=<n> first=<hex of the first message>
//
// Every input byte string is handed to the parser in an EXACT-SIZE heap buffer (malloc(n), no terminator; n = 0 gives a
// valid 1-byte allocation used with length 0), so that the ASan+UBSan variant of this driver reports every read
// outside the buffer.  Cases run in a forked worker; the worker publishes the index of the running case in shared
// memory, so a crash / sanitizer report / time-out is attributed to exactly that input:
//   @crash sig=<n> ...   @asan <summary>   @timeout   @exit code=<n>
// and a fresh worker carries on with the next case.  A per-case CPU-time alarm (PARSE_DRIVER_CPU_MS, default 3000)
// and a wall-clock backstop (x10) turn a hang into a result.  After PARSE_DRIVER_MAX_ABNORMAL (default 25) abnormal results in one
// run the remaining cases are answered "@skipped" without being run (a defect that fails on thousands of enumerated
// inputs must not cost thousands of sanitizer reports).
#include "llbuild/Basic/FileSystem.h"
#include "llbuild/Basic/ShellUtility.h"
#include "llbuild/BuildSystem/BuildDescription.h"
#include "llbuild/BuildSystem/BuildFile.h"
#include "llbuild/BuildSystem/BuildSystem.h"
#include "llbuild/BuildSystem/Tool.h"
#include "llbuild/Core/DependencyInfoParser.h"
#include "llbuild/Core/MakefileDepsParser.h"
#include "llbuild/Ninja/Lexer.h"
#include "llbuild/Ninja/Manifest.h"
#include "llbuild/Ninja/ManifestLoader.h"
#include "llbuild/Ninja/Parser.h"
#include "llvm/Support/MemoryBuffer.h"

#include <cstdio>
#include <cstdlib>
#include <cstring>
#include <iostream>
#include <string>
#include <vector>
#include <signal.h>
#include <sys/mman.h>
#include <sys/resource.h>
#include <sys/time.h>
#include <sys/wait.h>
#include <unistd.h>

using namespace llbuild;

#if defined(__has_feature)
#if __has_feature(address_sanitizer)
#define PD_ASAN 1
#endif
#endif

extern "C" const char* __asan_default_options() {
  return "exitcode=97:detect_leaks=0:allocator_may_return_null=1:hard_rss_limit_mb=2500:abort_on_error=0:handle_abort=0";
}
extern "C" const char* __ubsan_default_options() { return "exitcode=97:print_stacktrace=1:halt_on_error=1"; }

// ---------------------------------------------------------------- helpers
static std::string unhex(const std::string& h) {
  std::string r;
  if (h == "-") return r;
  auto v = [](char c) { return c <= '9' ? c - '0' : (c | 32) - 'a' + 10; };
  for (size_t i = 0; i + 1 < h.size(); i += 2) r += (char)(v(h[i]) * 16 + v(h[i + 1]));
  return r;
}
static std::string hexOf(StringRef s) {
  static const char* d = "0123456789abcdef"; std::string r;
  if (s.empty()) return "-";
  for (unsigned char c : s) { r += d[c >> 4]; r += d[c & 15]; }
  return r;
}
static std::vector<std::string> splitTab(const std::string& s) {
  std::vector<std::string> r; size_t p = 0;
  while (true) { size_t q = s.find('\t', p); r.push_back(s.substr(p, q == std::string::npos ? q : q - p)); if (q == std::string::npos) break; p = q + 1; }
  return r;
}

/// exact-size heap copy of a byte string: no terminator, nothing readable behind the last byte
struct Exact {
  char* p; size_t n;
  explicit Exact(const std::string& s) : n(s.size()) { p = (char*)malloc(n ? n : 1); if (n) memcpy(p, s.data(), n); }
  ~Exact() { free(p); }
  StringRef ref() const { return StringRef(p, n); }
  bool contains(StringRef r) const { return r.data() >= p && r.data() + r.size() <= p + n; }
  Exact(const Exact&) = delete; void operator=(const Exact&) = delete;
};

/// a MemoryBuffer over an exact-size heap block (RequiresNullTerminator = false: nothing behind the end is touched)
class ExactMemoryBuffer : public llvm::MemoryBuffer {
  Exact data; std::string name;
public:
  ExactMemoryBuffer(const std::string& contents, const std::string& name) : data(contents), name(name) {
    init(data.p, data.p + data.n, /*RequiresNullTerminator=*/false);
  }
  StringRef getBufferIdentifier() const override { return name; }
  BufferKind getBufferKind() const override { return MemoryBuffer_Malloc; }
};

// ---------------------------------------------------------------- lexer
static std::string lexAll(StringRef buf, ninja::Lexer::LexingMode mode) {
  ninja::Lexer lexer(buf);
  lexer.setMode(mode);
  std::string r = "[";
  size_t limit = buf.size() + 2;
  bool eof = false;
  for (size_t i = 0; i < limit; ++i) {
    ninja::Token tok;
    lexer.lex(tok);
    if (i) r += ",";
    r += "[" + std::to_string((int)tok.tokenKind) + "," + std::to_string((long)(tok.start - buf.data())) + "," + std::to_string(tok.length) + "]";
    if (tok.tokenKind == ninja::Token::Kind::EndOfFile) { eof = true; break; }
  }
  if (!eof) r += ",\"STUCK\"";
  return r + "]";
}
static std::string runLex4(const std::string& in) {
  Exact b(in);
  return "N=" + lexAll(b.ref(), ninja::Lexer::LexingMode::None) +
         ";I=" + lexAll(b.ref(), ninja::Lexer::LexingMode::IdentifierSpecific) +
         ";P=" + lexAll(b.ref(), ninja::Lexer::LexingMode::PathString) +
         ";V=" + lexAll(b.ref(), ninja::Lexer::LexingMode::VariableString);
}

// ---------------------------------------------------------------- manifest
namespace {
class MemManifestActions : public ninja::ManifestLoaderActions {
public:
  std::string mainData, incData; bool haveInc = false;
  unsigned numErrors = 0; unsigned numReads = 0;
  std::string firstError;
  void initialize(ninja::ManifestLoader*) override {}
  void error(StringRef filename, StringRef message, const ninja::Token& at) override {
    if (numErrors++ == 0) firstError = message.str();
  }
  std::unique_ptr<llvm::MemoryBuffer> readFile(StringRef path, StringRef forFilename, const ninja::Token* forToken) override {
    // a bounded number of in-memory files; everything else "does not exist" (reported as an error, as the contract says)
    if (++numReads > 64) { ++numErrors; return nullptr; }
    if (path == "/wd/build.ninja" && numReads == 1) return std::unique_ptr<llvm::MemoryBuffer>(new ExactMemoryBuffer(mainData, "build.ninja"));
    if (path == "/wd/inc.ninja" && haveInc) return std::unique_ptr<llvm::MemoryBuffer>(new ExactMemoryBuffer(incData, "inc.ninja"));
    ++numErrors;
    if (firstError.empty()) firstError = "no such file";
    return nullptr;
  }
};
}
static unsigned long fnv(unsigned long h, StringRef s) { for (unsigned char c : s) { h ^= c; h *= 1099511628211UL; } h ^= 0xff; h *= 1099511628211UL; return h; }
static std::string runManifest(const std::vector<std::string>& a) {
  MemManifestActions actions;
  actions.mainData = a.size() > 0 ? a[0] : "";
  if (a.size() > 1) { actions.haveInc = true; actions.incData = a[1]; }
  std::string wd = "/wd", name = "build.ninja";
  ninja::ManifestLoader loader(wd, name, actions);
  std::unique_ptr<ninja::Manifest> m = loader.load();
  if (!m) return "ok null errs=" + std::to_string(actions.numErrors);
  // touch everything that was loaded (strings that point into freed or foreign memory show up under ASan)
  unsigned long h = 1469598103934665603UL;
  for (auto* c : m->getCommands()) {
    h = fnv(h, c->getCommandString()); h = fnv(h, c->getDescription());
    for (auto* n : c->getOutputs()) h = fnv(h, n->getScreenPath());
    for (auto* n : c->getInputs()) h = fnv(h, n->getScreenPath());
    h = fnv(h, c->getRule()->getName());
  }
  unsigned binds = 0; for (auto& e : m->getRootScope().getBindings()) { ++binds; h ^= fnv(7, e.getKey()) + fnv(11, e.getValue()); }
  unsigned rules = 0; for (auto& e : m->getRootScope().getRules()) { ++rules; h ^= fnv(13, e.getKey()); }
  unsigned pools = 0; for (auto& e : m->getPools()) { ++pools; h ^= fnv(17, e.getKey()); }
  char d[32]; snprintf(d, sizeof d, "%016lx", h);
  return "ok errs=" + std::to_string(actions.numErrors) + " cmds=" + std::to_string(m->getCommands().size()) +
         " rules=" + std::to_string(rules) + " pools=" + std::to_string(pools) + " binds=" + std::to_string(binds) +
         " defaults=" + std::to_string(m->getDefaultTargets().size()) + " d=" + d;
}

// ---------------------------------------------------------------- makefile deps
namespace {
struct DepsActions : public core::MakefileDepsParser::ParseActions {
  const Exact& buf; std::string out; bool oob = false; int depth = 0; bool protocol = true;
  explicit DepsActions(const Exact& b) : buf(b) {}
  void add(const std::string& s) { if (!out.empty()) out += " "; out += s; }
  void error(StringRef message, uint64_t position) override { add("!:" + std::to_string(position)); if (position > buf.n) oob = true; }
  void actOnRuleStart(StringRef name, StringRef unescapedWord) override {
    if (!buf.contains(name)) oob = true;
    if (depth != 0) protocol = false;
    depth = 1; add("S:" + hexOf(unescapedWord));
  }
  void actOnRuleDependency(StringRef dependency, StringRef unescapedWord) override {
    if (!buf.contains(dependency)) oob = true;
    if (depth != 1) protocol = false;
    add("D:" + hexOf(unescapedWord));
  }
  void actOnRuleEnd() override { if (depth != 1) protocol = false; depth = 0; add("."); }
};
}
static std::string runMakeDeps(const std::string& flag, const std::string& in) {
  Exact b(in);
  DepsActions actions(b);
  core::MakefileDepsParser(b.ref(), actions, flag == "1").parse();
  if (actions.depth != 0) actions.protocol = false;
  if (actions.oob) actions.add("OOB");
  if (!actions.protocol) actions.add("PROTOCOL");
  return actions.out.empty() ? "-" : actions.out;
}

// ---------------------------------------------------------------- dependency info
namespace {
struct InfoActions : public core::DependencyInfoParser::ParseActions {
  const Exact& buf; std::string out; bool oob = false;
  explicit InfoActions(const Exact& b) : buf(b) {}
  void add(const std::string& s) { if (!out.empty()) out += " "; out += s; }
  void op(const char* k, StringRef s) { if (!buf.contains(s)) oob = true; add(std::string(k) + hexOf(s)); }
  void error(const char* message, uint64_t position) override { add("!:" + std::to_string(position)); if (position > buf.n) oob = true; }
  void actOnVersion(StringRef s) override { op("V:", s); }
  void actOnInput(StringRef s) override { op("I:", s); }
  void actOnOutput(StringRef s) override { op("O:", s); }
  void actOnMissing(StringRef s) override { op("M:", s); }
};
}
static std::string runDepInfo(const std::string& in) {
  Exact b(in);
  InfoActions actions(b);
  core::DependencyInfoParser(b.ref(), actions).parse();
  if (actions.oob) actions.add("OOB");
  return actions.out.empty() ? "-" : actions.out;
}

// ---------------------------------------------------------------- shell escape
static std::string runShq(const std::string& in) {
  Exact b(in);
  return hexOf(basic::shellEscaped(b.ref()));
}

// ---------------------------------------------------------------- build file
namespace {
class MemFileSystem : public basic::FileSystem {
  std::unique_ptr<basic::FileSystem> local = basic::createLocalFileSystem();
public:
  std::string contents;
  bool createDirectory(const std::string&) override { return false; }
  std::unique_ptr<llvm::MemoryBuffer> getFileContents(const std::string& path) override {
    if (path == "/wd/build.llbuild") return llvm::MemoryBuffer::getMemBufferCopy(contents, path);
    return nullptr;
  }
  bool remove(const std::string&) override { return false; }
  basic::FileChecksum getFileChecksum(const std::string& p) override { return local->getFileChecksum("/nonexistent/" + p); }
  basic::FileInfo getFileInfo(const std::string& p) override { return local->getFileInfo("/nonexistent/" + p); }
  basic::FileInfo getLinkInfo(const std::string& p) override { return local->getLinkInfo("/nonexistent/" + p); }
  bool createSymlink(const std::string&, const std::string&) override { return false; }
};
class LoadDelegate : public buildsystem::BuildSystemDelegate {
public:
  unsigned numErrors = 0; std::string firstError;
  LoadDelegate() : BuildSystemDelegate("basic", 0) {}
  void setFileContentsBeingParsed(StringRef) override {}
  void error(StringRef, const Token&, const Twine& message) override { std::string m = message.str(); if (numErrors++ == 0) firstError = m; }
  std::unique_ptr<buildsystem::Tool> lookupTool(StringRef) override { return nullptr; }
  std::unique_ptr<basic::ExecutionQueue> createExecutionQueue() override { return nullptr; }
  void hadCommandFailure() override {}
  void commandStatusChanged(buildsystem::Command*, CommandStatusKind) override {}
  void commandPreparing(buildsystem::Command*) override {}
  bool shouldCommandStart(buildsystem::Command*) override { return false; }
  void commandStarted(buildsystem::Command*) override {}
  void commandHadError(buildsystem::Command*, StringRef) override {}
  void commandHadNote(buildsystem::Command*, StringRef) override {}
  void commandHadWarning(buildsystem::Command*, StringRef) override {}
  void commandFinished(buildsystem::Command*, basic::ProcessStatus) override {}
  void commandFoundDiscoveredDependency(buildsystem::Command*, StringRef, buildsystem::DiscoveredDependencyKind) override {}
  void commandCannotBuildOutputDueToMissingInputs(buildsystem::Command*, buildsystem::Node*, ArrayRef<buildsystem::BuildKey>) override {}
  buildsystem::Command* chooseCommandFromMultipleProducers(buildsystem::Node*, std::vector<buildsystem::Command*>) override { return nullptr; }
  void cannotBuildNodeDueToMultipleProducers(buildsystem::Node*, std::vector<buildsystem::Command*>) override {}
  void determinedRuleNeedsToRun(core::Rule*, core::Rule::RunReason, core::Rule*) override {}
};
}
static std::string runBuildFile(const std::string& yaml) {
  LoadDelegate delegate;
  auto fs = std::unique_ptr<MemFileSystem>(new MemFileSystem);
  fs->contents = yaml;
  buildsystem::BuildSystem system(delegate, std::move(fs));
  bool ok = system.loadDescription("/wd/build.llbuild");
  return std::string(ok ? "loaded" : "failed") + " errs=" + std::to_string(delegate.numErrors) + " first=" + hexOf(delegate.firstError);
}

// ---------------------------------------------------------------- dispatch
static std::string runCase(const std::string& line) {
  auto t = splitTab(line);
  std::vector<std::string> a;
  for (size_t i = 1; i < t.size(); ++i) a.push_back(unhex(t[i]));
  const std::string& fn = t[0];
  if (fn == "lex4" && a.size() == 1) return runLex4(a[0]);
  if (fn == "manifest" && a.size() >= 1) return runManifest(a);
  if (fn == "makedeps" && a.size() == 2) return runMakeDeps(a[0], a[1]);
  if (fn == "depinfo" && a.size() == 1) return runDepInfo(a[0]);
  if (fn == "shq" && a.size() == 1) return runShq(a[0]);
  if (fn == "buildfile" && a.size() == 1) return runBuildFile(a[0]);
  return "?unknown-function";
}

// ---------------------------------------------------------------- worker management
struct Shared {
  volatile long cur;          // index of the case being run by the worker (-1: none)
  volatile long done;         // number of cases whose result is in buf or already written
  volatile size_t len;        // bytes used in buf
  char buf[1 << 20];
};
static Shared* sh;
static long cpuMs = 3000;
static long maxAbnormal = 25;

static void flushShared() {
  size_t off = 0;
  while (off < sh->len) { ssize_t n = ::write(1, sh->buf + off, sh->len - off); if (n <= 0) break; off += n; }
  sh->len = 0;
}
static void appendResult(const std::string& r) {
  if (sh->len + r.size() + 1 > sizeof sh->buf) flushShared();
  if (r.size() + 1 > sizeof sh->buf) { std::string t = r.substr(0, 4000) + "...TRUNCATED"; memcpy(sh->buf + sh->len, t.data(), t.size()); sh->len += t.size(); }
  else { memcpy(sh->buf + sh->len, r.data(), r.size()); sh->len += r.size(); }
  sh->buf[sh->len++] = '\n';
}
static void onTimer(int) { _exit(98); }
static void arm(long ms) {
  struct itimerval it; memset(&it, 0, sizeof it);
  it.it_value.tv_sec = ms / 1000; it.it_value.tv_usec = (ms % 1000) * 1000;
  setitimer(ITIMER_PROF, &it, nullptr);
  struct itimerval rt; memset(&rt, 0, sizeof rt);
  long w = ms * 10; rt.it_value.tv_sec = w / 1000; rt.it_value.tv_usec = (w % 1000) * 1000;
  setitimer(ITIMER_REAL, &rt, nullptr);
}
static void disarm() { arm(0); }

static std::string sanitizerSummary(FILE* errf) {
  // first sanitizer headline + the SUMMARY line of the worker's stderr
  std::string head, summary, frames; char line[4096];
  rewind(errf);
  int nframes = 0;
  while (fgets(line, sizeof line, errf)) {
    std::string l(line); while (!l.empty() && (l.back() == '\n' || l.back() == '\r')) l.pop_back();
    if (head.empty() && (l.find("ERROR: AddressSanitizer") != std::string::npos || l.find("runtime error:") != std::string::npos || l.find("LLVM ERROR") != std::string::npos || l.find("Assertion") != std::string::npos)) head = l;
    if (l.find("SUMMARY:") != std::string::npos && summary.empty()) summary = l;
    size_t p = l.find(" in ");
    if (!head.empty() && nframes < 4 && l.find("    #") == 0 && p != std::string::npos) {
      std::string f = l.substr(p + 4); size_t sp = f.find(' '); if (sp != std::string::npos) f = f.substr(0, sp);
      if (f.find("__interceptor") == std::string::npos && f.find("__asan") == std::string::npos) { frames += (nframes ? "<" : "") + f; ++nframes; }
    }
  }
  std::string r = head;
  if (!summary.empty()) r += " | " + summary;
  if (!frames.empty()) r += " | frames: " + frames;
  for (auto& c : r) if (c == '\t' || c == '\n') c = ' ';
  return r;
}

int main(int argc, char** argv) {
  if (const char* e = getenv("PARSE_DRIVER_CPU_MS")) cpuMs = atol(e);
  if (const char* e = getenv("PARSE_DRIVER_MAX_ABNORMAL")) maxAbnormal = atol(e);
  long abnormal = 0;
  std::vector<std::string> lines;
  { std::string line; while (std::getline(std::cin, line)) lines.push_back(line); }
  sh = (Shared*)mmap(nullptr, sizeof(Shared), PROT_READ | PROT_WRITE, MAP_SHARED | MAP_ANONYMOUS, -1, 0);
  if (sh == MAP_FAILED) { perror("mmap"); return 2; }
  sh->cur = -1; sh->done = 0; sh->len = 0;
  long n = (long)lines.size();
  while (sh->done < n) {
    if (abnormal >= maxAbnormal) {
      for (long i = sh->done; i < n; ++i) appendResult("@skipped");
      flushShared();
      break;
    }
    FILE* errf = tmpfile();
    if (!errf) { perror("tmpfile"); return 2; }
    fflush(stdout);
    pid_t pid = fork();
    if (pid < 0) { perror("fork"); return 2; }
    if (pid == 0) {
      dup2(fileno(errf), 2);
#ifndef PD_ASAN
      struct rlimit rl; rl.rlim_cur = rl.rlim_max = 2UL << 30; setrlimit(RLIMIT_AS, &rl);
#endif
      struct rlimit core; core.rlim_cur = core.rlim_max = 0; setrlimit(RLIMIT_CORE, &core);
      signal(SIGPROF, onTimer); signal(SIGALRM, onTimer);
      for (long i = sh->done; i < n; ++i) {
        sh->cur = i;
        arm(cpuMs);
        std::string r = runCase(lines[i]);
        disarm();
        sh->cur = -1;
        appendResult(r);
        sh->done = i + 1;
      }
      flushShared();
      _exit(0);
    }
    int status = 0;
    while (waitpid(pid, &status, 0) < 0 && errno == EINTR) {}
    flushShared();                     // results completed before the worker died
    if (sh->done < n) {
      long bad = sh->cur >= 0 ? sh->cur : sh->done;
      std::string r;
      if (WIFEXITED(status) && WEXITSTATUS(status) == 98) r = "@timeout";
      else if (WIFEXITED(status) && WEXITSTATUS(status) == 97) r = "@asan " + sanitizerSummary(errf);
      else if (WIFSIGNALED(status)) r = "@crash sig=" + std::to_string(WTERMSIG(status)) + " " + sanitizerSummary(errf);
      else r = "@exit code=" + std::to_string(WIFEXITED(status) ? WEXITSTATUS(status) : -1) + " " + sanitizerSummary(errf);
      sh->cur = -1;
      appendResult(r);
      flushShared();
      sh->done = bad + 1;
      abnormal += (r == "@timeout") ? 5 : 1;      // hangs are expensive (a full CPU alarm each): at most 5 per run
    }
    fclose(errf);
  }
  return 0;
}
