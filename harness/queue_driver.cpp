// queue_driver: scenario client of llbuild's execution queues (lane based and serial) and of the
// subprocess layer (property C16).
//
//   queue_driver <scenario-file> [out.ndjson]      run the scenarios, write one ndjson event per observation
//   queue_driver --child <action;action;...>       the scripted child process the scenarios launch
//
// Every event is written under ONE log mutex with a global sequence number.  Client calls (addJob,
// cancelAllJobs, executeProcess, queue destruction) are logged as call-start / call-end intervals; the queue's
// own critical sections (enqueue, take, cancel flag, shutdown) are not observable and are internal steps of
// spec/ExecQueue.tla which spec/ExecQueueTrace.tla places inside those intervals.
//
// Scenario file (written by tools/checks_c16.py):
//   scenario <id> lanes=<n> alg=<fifo|name> bgmax=<n> serial=<0|1> bigenv=<n> watchdog=<secs>
//   reset <json>                      the Reset event, passed through verbatim (scenario description for the spec)
//   job <id> prio=<N|H> name=<ordinal name> steps=<step,step,...>
//        steps: sleep:<microseconds> add:<job> spawn:<proc> cancel wait:<gate> open:<gate>
//   proc <id> script=<child actions> canint=<0|1> ctl=<0|1> inherit=<0|1> missing=<0|1> via=<own|queue|shell|wrap>
//        env=<K=V;K=V> cmd=<hex shell command> slowfin=<microseconds the processFinished callback takes>
//   client <main|aux> steps=<step,...>     additional steps: joinaux destroy
//   end
#include "llbuild/Basic/ExecutionQueue.h"
#include "llvm/ADT/ArrayRef.h"
#include "llvm/ADT/SmallString.h"
#include "llvm/ADT/StringRef.h"
#include "llvm/ADT/Twine.h"

#include <algorithm>
#include <atomic>
#include <chrono>
#include <condition_variable>
#include <csignal>
#include <cstdio>
#include <cstdlib>
#include <cstring>
#include <fstream>
#include <map>
#include <memory>
#include <mutex>
#include <set>
#include <string>
#include <thread>
#include <vector>
#include <fcntl.h>
#include <sys/stat.h>
#include <sys/wait.h>
#include <unistd.h>

using namespace llbuild;
using namespace llbuild::basic;

extern "C" { extern char** environ; }

// ---------------------------------------------------------------- helpers
static std::vector<std::string> split(const std::string& s, char c) {
  std::vector<std::string> r; std::string cur;
  for (char x : s) { if (x == c) { if (!cur.empty()) r.push_back(cur); cur.clear(); } else cur += x; }
  if (!cur.empty()) r.push_back(cur);
  return r;
}
static std::map<std::string, std::string> kv(const std::vector<std::string>& toks, size_t from) {
  std::map<std::string, std::string> m;
  for (size_t i = from; i < toks.size(); ++i) { auto p = toks[i].find('='); if (p != std::string::npos) m[toks[i].substr(0, p)] = toks[i].substr(p + 1); }
  return m;
}
static std::string unhex(const std::string& h) {
  std::string r;
  for (size_t i = 0; i + 1 < h.size(); i += 2) r += (char)std::stoi(h.substr(i, 2), nullptr, 16);
  return r;
}
static std::string q(const std::string& s) { return "\"" + s + "\""; }
static char patternByte(size_t i) { return (i % 64 == 63) ? '\n' : (char)('a' + (i * 7 + i / 64) % 26); }

// ================================================================= child mode
// The keys whose values the parent cannot predict are printed as set/unset only.
static const char* kOpaqueKeys[] = {"LLBUILD_BUILD_ID", "LLBUILD_TASK_ID", "LLBUILD_CONTROL_FD"};
static bool isOpaqueKey(const std::string& k) { for (auto o : kOpaqueKeys) if (k == o) return true; return false; }

static void writeAll(int fd, const std::string& s) {
  size_t off = 0;
  while (off < s.size()) {
    ssize_t n = ::write(fd, s.data() + off, s.size() - off);
    if (n < 0) { if (errno == EINTR) continue; return; }
    off += n;
  }
}
static int childMain(const char* script) {
  size_t pos = 0;      // position in the pattern stream (stdout and stderr share the pipe)
  for (auto& a : split(script, ';')) {
    auto c = a.find(':'); std::string op = a.substr(0, c), arg = c == std::string::npos ? "" : a.substr(c + 1);
    if (op == "out" || op == "err") {
      size_t n = std::stoul(arg); std::string s; s.reserve(n);
      for (size_t i = 0; i < n; ++i) s += patternByte(pos + i);
      pos += n; writeAll(op == "out" ? 1 : 2, s);
    } else if (op == "sleep") { usleep(std::stoul(arg) * 1000); }
    else if (op == "closeout") { ::close(1); ::close(2); }
    else if (op == "closectl") { const char* f = getenv("LLBUILD_CONTROL_FD"); if (f) ::close(atoi(f)); }
    else if (op == "release" || op == "badid") {
      const char* f = getenv("LLBUILD_CONTROL_FD"); const char* id = getenv("LLBUILD_TASK_ID");
      if (f && id) writeAll(atoi(f), std::string("llbuild.1\n") + (op == "release" ? id : "nosuchtask") + "\n");
    } else if (op == "badctl") { const char* f = getenv("LLBUILD_CONTROL_FD"); if (f) writeAll(atoi(f), "bogus.9\n"); }
    else if (op == "env") {          // env:K1+K2+...   prints K=V (or K=<set>/K=<unset>) per key
      std::string s;
      for (auto& k : split(arg, '+')) {
        const char* v = getenv(k.c_str());
        if (isOpaqueKey(k)) s += k + "=" + (v ? "<set>" : "<unset>") + "\n";
        else s += k + "=" + (v ? v : "<unset>") + "\n";
      }
      writeAll(1, s);
    } else if (op == "nenv") {       // number of environment entries
      size_t n = 0; for (char** p = environ; *p; ++p) ++n;
      writeAll(1, "n=" + std::to_string(n) + "\n");
    } else if (op == "ignint") { signal(SIGINT, SIG_IGN); }
    else if (op == "hang") { for (int i = 0; i < 1200; ++i) usleep(100000); }
    else if (op == "waitfile") {     // wait (at most 30 s) until the parent has created the file
      for (int i = 0; i < 30000; ++i) { struct stat st; if (::stat(arg.c_str(), &st) == 0) break; usleep(1000); }
    } else if (op == "grandchild") { // grandchild:<ms>:<n>  a descendant that keeps the pipe open and writes later
      auto p = split(arg, ':'); size_t n = std::stoul(p[1]);
      pid_t g = fork();
      if (g == 0) { usleep(std::stoul(p[0]) * 1000); std::string s; for (size_t i = 0; i < n; ++i) s += patternByte(pos + i); writeAll(1, s); _exit(0); }
      pos += n;
    } else if (op == "exit") { _exit(std::stoi(arg)); }
    else if (op == "sig") { signal(std::stoi(arg), SIG_DFL); kill(getpid(), std::stoi(arg)); usleep(200000); _exit(99); }
  }
  _exit(0);
}

// ================================================================= logging
static int outFd = 1;
static std::mutex logMutex;
static long seqNo = 0;
static std::string outBuf;
static void flushLocked() {
  size_t off = 0;
  while (off < outBuf.size()) { ssize_t n = ::write(outFd, outBuf.data() + off, outBuf.size() - off); if (n <= 0) break; off += n; }
  outBuf.clear();
}
static bool dying = false;                // set (under logMutex) once the watchdog has written the Hang line: nothing follows it
static thread_local int tlsLane = 0;      // lane-thread index (1..), assigned at the thread's first job start; 0 = not a lane
static int nextLaneIdx = 0;               // under logMutex
// one event: {"e":<kind>,"s":<seq>,"t":<lane thread index>, <body>}
static void emit(const char* kind, const std::string& body, bool assignLane = false) {
  std::lock_guard<std::mutex> g(logMutex);
  if (dying) return;
  if (assignLane && tlsLane == 0) tlsLane = ++nextLaneIdx;
  ++seqNo;
  outBuf += std::string("{\"e\":\"") + kind + "\",\"s\":" + std::to_string(seqNo) + ",\"t\":" + std::to_string(tlsLane);
  if (!body.empty()) { outBuf += ","; outBuf += body; }
  outBuf += "}\n";
  flushLocked();
}
static void emitRaw(const std::string& line) {
  std::lock_guard<std::mutex> g(logMutex);
  if (dying) return;
  ++seqNo; outBuf += line; outBuf += "\n"; flushLocked();
}

// ================================================================= scenario model
struct Step { std::string op, arg; };
static std::vector<Step> parseSteps(const std::string& s) {
  std::vector<Step> r;
  for (auto& t : split(s, ',')) { auto c = t.find(':'); r.push_back({t.substr(0, c), c == std::string::npos ? "" : t.substr(c + 1)}); }
  return r;
}
struct Scenario;
struct JobDef;
class Desc : public JobDescriptor {
public:
  std::string name; JobDef* job = nullptr;
  StringRef getOrdinalName() const override { return name; }
  void getShortDescription(SmallVectorImpl<char>& r) const override { r.append(name.begin(), name.end()); }
  void getVerboseDescription(SmallVectorImpl<char>& r) const override { r.append(name.begin(), name.end()); }
};
struct ProcDef;
struct JobDef {
  std::string id; bool high = false; std::vector<Step> steps; Desc desc;
  std::atomic<ProcDef*> current{nullptr};    // the process this job is executing through the queue-wide delegate
};
struct Gate { std::mutex m; std::condition_variable cv; bool open = false; };

static const char* statusName(ProcessStatus s) {
  switch (s) {
    case ProcessStatus::Succeeded: return "succeeded"; case ProcessStatus::Failed: return "failed";
    case ProcessStatus::Cancelled: return "cancelled"; case ProcessStatus::Skipped: return "skipped";
    default: return "unknown";
  }
}
// the child's real fate, decoded from the raw wait status independently of llbuild's classification
static std::string fateOf(int raw) {
  if (WIFEXITED(raw)) return "exit" + std::to_string(WEXITSTATUS(raw));
  if (WIFSIGNALED(raw)) return "sig" + std::to_string(WTERMSIG(raw));
  return "other";
}

struct ProcDef : public ProcessDelegate {
  std::string id, script, via = "own", shellCmd;
  bool canInt = true, ctl = true, inherit = true, missing = false; int slowFin = 0;   // slowFin: microseconds spent inside processFinished
  std::vector<std::pair<std::string, std::string>> env;
  Scenario* scn = nullptr;
  // runtime
  std::string expected;            // the bytes the child will write if it runs its script to the end
  std::mutex m; size_t delivered = 0; bool contentOk = true; int nStarted = 0, nFinished = 0, nDone = 0;
  std::string lastStatus = "none";
  pid_t pid = -1;

  void started(llbuild_pid_t p) {
    { std::lock_guard<std::mutex> g(m); ++nStarted; pid = p; }
    emit("PStarted", "\"h\":" + q(id) + ",\"ok\":" + (p > 0 ? "true" : "false"));
  }
  void hadError(const Twine& msg) {
    std::string s = msg.str(); std::string cls = "other";
    if (s.find("unable to spawn") != std::string::npos) cls = "spawn";
    else if (s.find("control protocol") != std::string::npos) cls = "control";
    else if (s.find("no arguments") != std::string::npos) cls = "noargs";
    emit("PErr", "\"h\":" + q(id) + ",\"cls\":" + q(cls));
  }
  void hadOutput(StringRef data) {
    size_t off; bool ok;
    { std::lock_guard<std::mutex> g(m);
      off = delivered;
      ok = off + data.size() <= expected.size() && memcmp(expected.data() + off, data.data(), data.size()) == 0;
      delivered += data.size(); if (!ok) contentOk = false; }
    emit("POut", "\"h\":" + q(id) + ",\"n\":" + std::to_string(data.size()) + ",\"off\":" + std::to_string(off) + ",\"ok\":" + (ok ? "true" : "false"));
  }
  void finished(const ProcessResult& r) {
    { std::lock_guard<std::mutex> g(m); ++nFinished; lastStatus = statusName(r.status); }
    emit("PFinished", "\"h\":" + q(id) + ",\"status\":" + q(statusName(r.status)) + ",\"fate\":" + q(r.pid == (llbuild_pid_t)-1 ? "spawnerror" : fateOf(r.exitCode)) +
         ",\"raw\":" + std::to_string(r.exitCode) + ",\"full\":" + (delivered == expected.size() ? "true" : "false"));
    if (slowFin) std::this_thread::sleep_for(std::chrono::microseconds(slowFin));
  }
  void done(const std::string& status);
  // own delegate
  void processStarted(ProcessContext*, ProcessHandle, llbuild_pid_t p) override { started(p); }
  void processHadError(ProcessContext*, ProcessHandle, const Twine& m) override { hadError(m); }
  void processHadOutput(ProcessContext*, ProcessHandle, StringRef d) override { hadOutput(d); }
  void processFinished(ProcessContext*, ProcessHandle, const ProcessResult& r) override { finished(r); }
};

struct Scenario {
  std::string id; int lanes = 1; std::string alg = "fifo"; int bgmax = 0; bool serial = false; int bigenv = 0; int watchdog = 40;
  std::string resetLine;
  std::map<std::string, std::unique_ptr<JobDef>> jobs;
  std::map<std::string, std::unique_ptr<ProcDef>> procs;
  std::map<std::string, std::unique_ptr<Gate>> gates;
  std::vector<Step> mainSteps, auxSteps;
  ExecutionQueue* queue = nullptr;
  std::atomic<int> launched{0}, completed{0};
  std::mutex m; std::condition_variable cv;
  std::string tmpdir;
  std::vector<std::string> baseEnvStore; std::vector<const char*> baseEnv;
  Gate* gate(const std::string& n) { std::lock_guard<std::mutex> g(m); auto& p = gates[n]; if (!p) p.reset(new Gate); return p.get(); }
};

void ProcDef::done(const std::string& status) {
  { std::lock_guard<std::mutex> g(m); ++nDone; }
  emit("PDone", "\"h\":" + q(id) + ",\"status\":" + q(status));
  { std::lock_guard<std::mutex> g(scn->m); scn->completed++; }
  scn->cv.notify_all();
}

// queue-wide delegate
class QDelegate : public ExecutionQueueDelegate {
public:
  static ProcDef* of(ProcessContext* ctx) {
    Desc* d = reinterpret_cast<Desc*>(ctx);
    return d && d->job ? d->job->current.load() : nullptr;
  }
  void queueJobStarted(JobDescriptor* d) override { emit("JStart", "\"j\":" + q(static_cast<Desc*>(d)->job->id), true); }
  void queueJobFinished(JobDescriptor* d) override { emit("JFin", "\"j\":" + q(static_cast<Desc*>(d)->job->id)); }
  void processStarted(ProcessContext* c, ProcessHandle, llbuild_pid_t p) override { if (auto* x = of(c)) x->started(p); else emit("Stray", "\"what\":\"processStarted\""); }
  void processHadError(ProcessContext* c, ProcessHandle, const Twine& m) override { if (auto* x = of(c)) x->hadError(m); else emit("Stray", "\"what\":\"processHadError\""); }
  void processHadOutput(ProcessContext* c, ProcessHandle, StringRef d) override { if (auto* x = of(c)) x->hadOutput(d); else emit("Stray", "\"what\":\"processHadOutput\""); }
  void processFinished(ProcessContext* c, ProcessHandle, const ProcessResult& r) override { if (auto* x = of(c)) x->finished(r); else emit("Stray", "\"what\":\"processFinished\""); }
};

static std::string selfExe;

// what the child will print for "env:K1+K2": the documented precedence, written down independently of the queue:
//   queue-provided LLBUILD_BUILD_ID / LLBUILD_LANE_ID  >  request environment (first occurrence wins)  >
//   base environment of the queue (only when inheritEnvironment)  >  LLBUILD_TASK_ID / LLBUILD_CONTROL_FD (set if missing)
static std::string expectedEnvLine(const Scenario& s, const ProcDef& p, const std::string& k, unsigned lane) {
  if (k == "LLBUILD_BUILD_ID") return k + "=<set>\n";
  if (k == "LLBUILD_LANE_ID") return k + "=" + std::to_string(lane) + "\n";
  for (auto& e : p.env) if (e.first == k) return k + "=" + (isOpaqueKey(k) ? std::string("<set>") : e.second) + "\n";
  if (p.inherit) for (auto& e : s.baseEnvStore) { auto c = e.find('='); if (e.substr(0, c) == k) return k + "=" + (isOpaqueKey(k) ? std::string("<set>") : e.substr(c + 1)) + "\n"; }
  if (k == "LLBUILD_TASK_ID") return k + "=<set>\n";
  if (k == "LLBUILD_CONTROL_FD") return k + "=" + (p.ctl ? "<set>" : "<unset>") + "\n";
  return k + "=<unset>\n";
}
static size_t expectedEnvCount(const Scenario& s, const ProcDef& p) {
  std::set<std::string> keys = {"LLBUILD_BUILD_ID", "LLBUILD_LANE_ID", "LLBUILD_TASK_ID"};
  if (p.ctl) keys.insert("LLBUILD_CONTROL_FD");
  for (auto& e : p.env) keys.insert(e.first);
  if (p.inherit) for (auto& e : s.baseEnvStore) keys.insert(e.substr(0, e.find('=')));
  return keys.size();
}
static std::string expectedOutput(const Scenario& s, const ProcDef& p, unsigned lane) {
  std::string out; size_t pos = 0; bool closed = false;
  if (p.via == "shell") return "";       // shell commands used here print nothing
  for (auto& a : split(p.script, ';')) {
    auto c = a.find(':'); std::string op = a.substr(0, c), arg = c == std::string::npos ? "" : a.substr(c + 1);
    if (op == "out" || op == "err") { size_t n = std::stoul(arg); if (!closed) for (size_t i = 0; i < n; ++i) out += patternByte(pos + i); pos += n; }
    else if (op == "closeout") closed = true;
    else if (op == "env") { if (!closed) for (auto& k : split(arg, '+')) out += expectedEnvLine(s, p, k, lane); }
    else if (op == "nenv") { if (!closed) out += "n=" + std::to_string(expectedEnvCount(s, p)) + "\n"; }
    else if (op == "grandchild") { auto q2 = split(arg, ':'); size_t n = std::stoul(q2[1]); if (!closed) for (size_t i = 0; i < n; ++i) out += patternByte(pos + i); pos += n; }
    else if (op == "exit" || op == "sig") break;
  }
  return out;
}

static void runSteps(Scenario& s, const std::vector<Step>& steps, JobDef* self, QueueJobContext* ctx, std::thread* aux, std::thread* destroyer, const char* who = "client");

static void addJob(Scenario& s, const std::string& jid, const std::string& by) {
  JobDef* j = s.jobs.at(jid).get();
  emit("AddStart", "\"j\":" + q(jid) + ",\"by\":" + q(by));
  Scenario* sp = &s;
  auto body = [sp, j](QueueJobContext* ctx) {
    if (sp->serial) emit("JStart", "\"j\":" + q(j->id) + ",\"synth\":true", true);
    emit("Body", "\"j\":" + q(j->id) + ",\"lane\":" + std::to_string(ctx->laneID()));
    runSteps(*sp, j->steps, j, ctx, nullptr, nullptr);
    emit("BodyEnd", "\"j\":" + q(j->id));
    if (sp->serial) emit("JFin", "\"j\":" + q(j->id) + ",\"synth\":true");
  };
  s.queue->addJob(QueueJob(&j->desc, body), j->high ? QueueJobPriority::High : QueueJobPriority::Normal);
  emit("AddEnd", "\"j\":" + q(jid) + ",\"by\":" + q(by));
}

static void spawn(Scenario& s, ProcDef& p, JobDef* self, QueueJobContext* ctx) {
  p.expected = expectedOutput(s, p, ctx->laneID());
  s.launched++;
  emit("ExecProc", "\"h\":" + q(p.id) + ",\"j\":" + q(self->id));
  std::vector<std::string> argv;
  if (p.via == "shell") { /* below */ }
  else if (p.missing) argv = {s.tmpdir + "/no-such-binary-" + p.id, "x"};
  else argv = {selfExe, "--child", p.script};
  std::vector<StringRef> cmd(argv.begin(), argv.end());
  std::vector<std::pair<StringRef, StringRef>> env;
  for (auto& e : p.env) env.push_back({StringRef(e.first), StringRef(e.second)});
  ProcDef* pp = &p;
  if (p.via == "own" || p.via == "queue") {
    ProcessAttributes attr = {p.canInt};
    attr.inheritEnvironment = p.inherit; attr.controlEnabled = p.ctl;
    if (p.via == "queue") self->current = pp;
    s.queue->executeProcess(ctx, cmd, env, attr,
                            {[pp](ProcessResult r) { pp->done(statusName(r.status)); }},
                            p.via == "own" ? static_cast<ProcessDelegate*>(pp) : nullptr);
  } else if (p.via == "wrap") {         // ExecutionQueue::executeProcess(context, commandLine) -> ProcessStatus
    self->current = pp;
    ProcessStatus st = s.queue->executeProcess(ctx, cmd);
    pp->done(statusName(st));
  } else {                              // executeShellCommand -> bool
    self->current = pp;
    bool ok = s.queue->executeShellCommand(ctx, p.shellCmd);
    std::string st;
    { std::lock_guard<std::mutex> g(p.m); st = ok ? "succeeded" : (p.nFinished ? (p.lastStatus == "succeeded" ? "failed" : p.lastStatus) : "cancelled"); }
    pp->done(st);
  }
  emit("ExecRet", "\"h\":" + q(p.id) + ",\"j\":" + q(self->id));
  // a child that waits for its lane release to be noticed is let go now
  if (p.script.find("waitfile:") != std::string::npos) {
    std::string f = s.tmpdir + "/" + p.id + ".rel"; int fd = ::open(f.c_str(), O_CREAT | O_WRONLY, 0644); if (fd >= 0) ::close(fd);
  }
}

static void runSteps(Scenario& s, const std::vector<Step>& steps, JobDef* self, QueueJobContext* ctx, std::thread* aux, std::thread* destroyer, const char* who) {
  std::string by = self ? self->id : who;
  for (auto& st : steps) {
    if (st.op == "sleep") std::this_thread::sleep_for(std::chrono::microseconds(std::stol(st.arg)));
    else if (st.op == "add") addJob(s, st.arg, by);
    else if (st.op == "cancel") {
      emit("CancelStart", "\"by\":" + q(by));
      s.queue->cancelAllJobs();
      emit("CancelEnd", "\"by\":" + q(by));
      // children whose script ends "waitfile:%T/cancelled" reach their own end only from here on
      { std::string f = s.tmpdir + "/cancelled"; int fd = ::open(f.c_str(), O_CREAT | O_WRONLY, 0644); if (fd >= 0) ::close(fd); }
    } else if (st.op == "spawn") spawn(s, *s.procs.at(st.arg), self, ctx);
    else if (st.op == "wait") { Gate* g = s.gate(st.arg); std::unique_lock<std::mutex> l(g->m); g->cv.wait(l, [g] { return g->open; }); }
    else if (st.op == "open") { Gate* g = s.gate(st.arg); { std::lock_guard<std::mutex> l(g->m); g->open = true; } g->cv.notify_all(); }
    else if (st.op == "joinaux") { if (aux && aux->joinable()) aux->join(); }
    else if (st.op == "destroy") {
      if (aux && aux->joinable()) aux->join();
      Scenario* sp = &s;
      *destroyer = std::thread([sp] {
        emit("DtorStart", "");
        delete sp->queue; sp->queue = nullptr;
        emit("DtorEnd", "");
      });
    }
  }
}

// ---------------------------------------------------------------- watchdog
static std::atomic<long> deadline{0};      // steady-clock seconds; 0 = disarmed
static std::mutex pidsMutex; static std::set<pid_t> livePids;
static long nowSecs() { return std::chrono::duration_cast<std::chrono::seconds>(std::chrono::steady_clock::now().time_since_epoch()).count(); }
static void watchdogMain() {
  while (true) {
    std::this_thread::sleep_for(std::chrono::milliseconds(200));
    long d = deadline.load();
    if (d && nowSecs() > d) {
      { std::lock_guard<std::mutex> g(logMutex); ++seqNo; outBuf += "{\"e\":\"Hang\",\"s\":" + std::to_string(seqNo) + "}\n"; flushLocked(); dying = true; }
      // leave no scripted children behind (they are in their own process groups); children of this process only
      if (system("pkill -KILL -P $PPID >/dev/null 2>&1") != 0) {}
      _exit(3);
    }
  }
}
static void onFatal(int sig) {
  const char* s = "{\"e\":\"Abort\"}\n"; ssize_t r = ::write(outFd, s, strlen(s)); (void)r; _exit(4);
}

static void runScenario(Scenario& s) {
  nextLaneIdx = 0;
  // base environment of the queue
  s.baseEnvStore = {"BASE1=b1", "SHARED=base", "LLBUILD_TEST=1", "ONLYBASE=ob"};
  for (int i = 0; i < s.bigenv; ++i) s.baseEnvStore.push_back("FILLER_" + std::to_string(i) + "=" + std::string(40, 'x'));
  s.baseEnv.clear(); for (auto& e : s.baseEnvStore) s.baseEnv.push_back(e.c_str()); s.baseEnv.push_back(nullptr);
  setenv("LLBUILD_BACKGROUND_TASK_MAX", std::to_string(s.bgmax).c_str(), 1);
  emitRaw(s.resetLine);
  deadline = nowSecs() + s.watchdog;
  QDelegate del;
  if (s.serial) s.queue = createSerialQueue(del, s.baseEnv.data()).release();
  else s.queue = createLaneBasedExecutionQueue(del, s.lanes, s.alg == "name" ? SchedulerAlgorithm::NamePriority : SchedulerAlgorithm::FIFO,
                                               getDefaultQualityOfService(), s.baseEnv.data());
  std::thread aux, destroyer;
  if (!s.auxSteps.empty()) aux = std::thread([&s] { runSteps(s, s.auxSteps, nullptr, nullptr, nullptr, nullptr, "aux"); });
  runSteps(s, s.mainSteps, nullptr, nullptr, &aux, &destroyer);
  if (aux.joinable()) aux.join();
  if (destroyer.joinable()) destroyer.join();
  else { emit("DtorStart", ""); delete s.queue; s.queue = nullptr; emit("DtorEnd", ""); }
  // completions of lane-released children may still be on their way
  bool all;
  { std::unique_lock<std::mutex> l(s.m);
    all = s.cv.wait_for(l, std::chrono::seconds(10), [&s] { return s.completed.load() >= s.launched.load(); }); }
  // give late (erroneous) duplicate callbacks a moment to show up before the execution is closed
  std::this_thread::sleep_for(std::chrono::milliseconds(all ? 2 : 50));
  emit("End", "\"launched\":" + std::to_string(s.launched.load()) + ",\"completed\":" + std::to_string(s.completed.load()));
  deadline = 0;
}

int main(int argc, char** argv) {
  if (argc >= 3 && std::string(argv[1]) == "--child") return childMain(argv[2]);
  if (argc < 2) { fprintf(stderr, "usage: queue_driver <scenario-file> [out.ndjson]\n"); return 2; }
  if (argc > 2) { outFd = ::open(argv[2], O_WRONLY | O_CREAT | O_TRUNC | O_CLOEXEC, 0644); if (outFd < 0) { perror("open"); return 2; } }
  { char buf[4096]; ssize_t n = readlink("/proc/self/exe", buf, sizeof(buf) - 1); if (n <= 0) { perror("readlink"); return 2; } buf[n] = 0; selfExe = buf; }
  signal(SIGSEGV, onFatal); signal(SIGABRT, onFatal); signal(SIGPIPE, SIG_IGN);
  setenv("LLBUILD_TEST", "1", 1);          // kill escalation after 1 s instead of 10 s (LaneBasedExecutionQueue.cpp:267)
  std::thread(watchdogMain).detach();
  const char* td = getenv("VERIF_QTMP"); std::string tmpRoot = td ? td : "/tmp";
  std::ifstream in(argv[1]); std::string line; std::unique_ptr<Scenario> s; int n = 0;
  while (std::getline(in, line)) {
    if (line.empty() || line[0] == '#') continue;
    auto toks = split(line, ' ');
    if (toks[0] == "scenario") {
      s.reset(new Scenario); auto m = kv(toks, 2); s->id = toks[1];
      s->lanes = std::stoi(m["lanes"]); s->alg = m["alg"]; s->bgmax = std::stoi(m["bgmax"]); s->serial = m["serial"] == "1";
      s->bigenv = m.count("bigenv") ? std::stoi(m["bigenv"]) : 0; if (m.count("watchdog")) s->watchdog = std::stoi(m["watchdog"]);
      s->tmpdir = tmpRoot + "/qd_" + std::to_string(getpid()) + "_" + std::to_string(n++); ::mkdir(s->tmpdir.c_str(), 0755);
    } else if (toks[0] == "reset") { s->resetLine = line.substr(6); }
    else if (toks[0] == "job") {
      auto m = kv(toks, 2); std::unique_ptr<JobDef> j(new JobDef); j->id = toks[1]; j->high = m["prio"] == "H";
      j->desc.name = m["name"]; j->desc.job = j.get(); j->steps = parseSteps(m["steps"]); s->jobs[j->id] = std::move(j);
    } else if (toks[0] == "proc") {
      auto m = kv(toks, 2); std::unique_ptr<ProcDef> p(new ProcDef); p->id = toks[1]; p->scn = s.get();
      p->script = m["script"]; p->canInt = m["canint"] != "0"; p->ctl = m["ctl"] != "0"; p->inherit = m["inherit"] != "0";
      p->missing = m["missing"] == "1"; if (m.count("slowfin")) p->slowFin = std::stoi(m["slowfin"]); p->via = m.count("via") ? m["via"] : "own"; p->shellCmd = unhex(m["cmd"]);
      // "%T" in a script stands for the scenario's temporary directory
      for (size_t k; (k = p->script.find("%T")) != std::string::npos;) p->script.replace(k, 2, s->tmpdir);
      for (auto& e : split(m["env"], ';')) { auto c = e.find('='); if (c != std::string::npos) p->env.push_back({e.substr(0, c), e.substr(c + 1)}); }
      s->procs[p->id] = std::move(p);
    } else if (toks[0] == "client") {
      auto m = kv(toks, 2); (toks[1] == "main" ? s->mainSteps : s->auxSteps) = parseSteps(m["steps"]);
    } else if (toks[0] == "end") {
      runScenario(*s);
      if (system(("rm -rf " + s->tmpdir).c_str()) != 0) {}
      s.reset();
    }
  }
  return 0;
}
