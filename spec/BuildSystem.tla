---------------------------- MODULE BuildSystem ----------------------------
(***************************************************************************)
(* Specification of llbuild's native build system (lib/BuildSystem) at     *)
(* RULE granularity, on top of the engine's incremental semantics that     *)
(* Engine.tla specifies small-step:                                        *)
(*   - every rule (target T, node N, command C) has a stored result        *)
(*     [val, sig, built, computed, deps];                                  *)
(*   - a demanded rule is re-executed when it was never built, its         *)
(*     signature changed, its stored value is no longer valid against the  *)
(*     file system, or - scanning its recorded dependencies IN ORDER - a   *)
(*     non-order-only dependency was recomputed after the rule was built;  *)
(*   - a re-executed rule requests its inputs, computes a value (commands  *)
(*     have side effects on the file system), records requests followed by *)
(*     discovered dependencies, and its value counts as changed            *)
(*     (computed := epoch) iff it differs from the stored one or is forced.*)
(* One build = one evaluation of Ensure(key) under the canonical           *)
(* (depth-first, request order) schedule; schedule independence is the     *)
(* engine-level property C06.  The client rules are transcribed from       *)
(* BuildSystem.cpp / ExternalCommand.cpp / ShellCommand.cpp (DESIGN.md     *)
(* Appendix E).                                                            *)
(*                                                                         *)
(* The file system is  path |-> [t, c, s, par, hid]:  type ("none","file", *)
(* "dir","link"), content, stamp (an abstraction of the FileInfo identity: *)
(* per-path version counter, bumped by every observable change), parent    *)
(* path and the set of exclusion patterns the entry's name matches.        *)
(***************************************************************************)
EXTENDS Integers, Sequences, FiniteSets, TLC

VARIABLES
  desc,     \* the build description a frontend loaded:  [cmds, nodes, targets]
  fs,       \* the file system
  mem,      \* key |-> result : the engine's in-memory results
  db,       \* key |-> result : the rows of the database file (written only when a rule finishes running;
            \*                  a rule found up to date gets its new built epoch in memory only)
  epoch,    \* build iteration
  hasdb,    \* the frontend has a database (results survive a new frontend)
  last      \* ghost: outcome record of the last build (for the properties)

vars == <<desc, fs, mem, db, epoch, hasdb, last>>

-----------------------------------------------------------------------------
(* Keys, values, results *)

NK(n) == [t |-> "N", n |-> n]
CK(c) == [t |-> "C", n |-> c]
TK(x) == [t |-> "T", n |-> x]
NoKey == [t |-> "-", n |-> ""]

(* values: [k: kind, i: sequence of infos (0 = missing, -1 = virtual placeholder, >0 stamp), x: extra]  *)
Val(k, i, x) == [k |-> k, i |-> i, x |-> x]
VInvalid   == Val("Invalid", <<>>, <<>>)
VVirtual   == Val("VirtualInput", <<>>, <<>>)
VMissingIn == Val("MissingInput", <<>>, <<>>)
VMissingOut == Val("MissingOutput", <<>>, <<>>)
VFailedIn  == Val("FailedInput", <<>>, <<>>)
VFailedCmd == Val("FailedCommand", <<>>, <<>>)
VPropagated == Val("PropagatedFailureCommand", <<>>, <<>>)
VSkipped   == Val("SkippedCommand", <<>>, <<>>)
VTarget    == Val("Target", <<>>, <<>>)
VExisting(s) == Val("ExistingInput", <<s>>, <<>>)
VSuccess(infos) == Val("SuccessfulCommand", infos, <<>>)
VStale(list) == Val("StaleFileRemoval", <<>>, list)
VTreeSig(obs) == Val("DirectoryTreeSignature", <<>>, obs)
VStructSig(obs) == Val("DirectoryTreeStructureSignature", <<>>, obs)

NoResult == [val |-> VInvalid, sig |-> <<"none">>, built |-> 0, computed |-> 0, deps |-> <<>>]
Get(m, k) == IF k \in DOMAIN m THEN m[k] ELSE NoResult
Dep(k, oo) == [k |-> k, oo |-> oo]

SeqToSet(s) == {s[i] : i \in 1..Len(s)}

-----------------------------------------------------------------------------
(* Description accessors.                                                   *)
(*  desc.cmds  : command name |-> record                                    *)
(*     tool  "shell" | "phony" | "mkdir" | "symlink" | "stale"              *)
(*           (symlink: outs[1] is the link, tag its contents, ins are only  *)
(*            followed, never read)                                         *)
(*     ins, outs : sequences of node names                                  *)
(*     sigx  : everything else that is signature relevant (arguments,       *)
(*             environment, deps settings, explicit signature ...), opaque  *)
(*     aood, ami, amo : always-out-of-date, allow-missing-inputs,           *)
(*             allow-modified-outputs                                       *)
(*     tag   : what the (deterministic) body writes in front of its inputs  *)
(*     keep  : the body leaves an output untouched when it already has the  *)
(*             content it would write (a "write if changed" generator)      *)
(*     reads : sequence of node names the body reads beyond its declared    *)
(*             inputs and reports through its dependency file               *)
(*     depsok: the dependency file the body writes is well formed           *)
(*     failif: node name; the body exits 1 while that path exists ("" never)*)
(*     failpt: "before" | "after" writing the outputs                       *)
(*     expected, roots : stale-file-removal lists (paths = fs keys)         *)
(*  desc.nodes : node name |-> [kind, path, filt]                           *)
(*     kind "file" | "virtual" | "dir" | "dirstruct";  path = fs key        *)
(*     (a "dir" node that a command produces also has  inner : fs key of    *)
(*      the file the body writes inside the directory)                      *)
(*  desc.targets : target name |-> sequence of node names                   *)

Cmds == DOMAIN desc.cmds
Cmd(c) == desc.cmds[c]
NodeRec(n) == desc.nodes[n]
PathOf(n) == desc.nodes[n].path
IsVirtual(n) == desc.nodes[n].kind = "virtual"
(* a virtual node carrying the time its producer last ran (is-command-timestamp): consumers re-run whenever the     *)
(* producer ran; a file node modified in place by other commands (is-mutated): only its existence counts for the      *)
(* validity of its producer's result                                                                                 *)
IsTimestamp(n) == "ts" \in DOMAIN desc.nodes[n] /\ desc.nodes[n].ts
IsMutated(n) == "mut" \in DOMAIN desc.nodes[n] /\ desc.nodes[n].mut
(* must-scan-after-paths of a directory input: nodes brought up to date before the directory is looked at (the way a *)
(* command that writes INTO a directory is ordered before a consumer of the whole directory)                         *)
Msa(n) == IF "msa" \in DOMAIN desc.nodes[n] THEN desc.nodes[n].msa ELSE <<>>
Mutates(c) == IF "mutates" \in DOMAIN desc.cmds[c] THEN desc.cmds[c].mutates ELSE ""
Producers(n) == {c \in Cmds : \E i \in 1..Len(Cmd(c).outs) : Cmd(c).outs[i] = n}
ProducerOf(n) == CHOOSE c \in Producers(n) : TRUE

(* signatures: the tuple of signature-relevant fields (the implementation hashes it) *)
CmdSig(c) == IF Cmd(c).tool = "symlink" THEN <<"symlink", Cmd(c).outs[1], Cmd(c).tag, Cmd(c).ins>>     \* (no command name in it)
             ELSE <<"cmd", c, Cmd(c).tool, Cmd(c).ins, Cmd(c).outs, Cmd(c).ami, Cmd(c).amo, Cmd(c).aood, Cmd(c).sigx>>
NodeSig(n) == <<"node", NodeRec(n).kind, Producers(n)>>       \* BuildNode::getSignature: type and producer names
SigOf(k) ==
  CASE k.t = "C" -> IF k.n \in Cmds THEN CmdSig(k.n) ELSE <<"missing-command">>
    [] k.t = "N" -> NodeSig(k.n)
    [] OTHER -> <<"target">>

-----------------------------------------------------------------------------
(* File system helpers *)

Exists(F, p) == F[p].t # "none"
Info(F, p) == IF Exists(F, p) THEN F[p].s ELSE 0
Bump(F, p) == [F EXCEPT ![p].s = @ + 1]
RECURSIVE Ancestors(_,_)
Ancestors(F, p) == IF F[p].par = "" THEN {} ELSE {F[p].par} \cup Ancestors(F, F[p].par)

(* create the directories leading to p (FileSystem::createDirectories on the parent) *)
RECURSIVE MkDirs(_,_)
MkDirs(F, d) ==
  IF d = "" \/ F[d].t = "dir" THEN F
  ELSE LET F1 == MkDirs(F, F[d].par)
           F2 == [F1 EXCEPT ![d].t = "dir", ![d].c = "", ![d].s = @ + 1]
       IN IF F[d].par = "" THEN F2 ELSE Bump(F2, F[d].par)

(* write content x to file p (in place if it is a file, else it is created) *)
WriteFile(F, p, x) ==
  LET F0 == MkDirs(F, F[p].par) IN
  LET F1 == [F0 EXCEPT ![p].t = "file", ![p].c = x, ![p].s = @ + 1]
  IN IF F0[p].par = "" THEN F1 ELSE Bump(F1, F0[p].par)      \* (bodies also re-stamp the containing directory)

(* remove p and everything beneath it *)
Beneath(F, p) == {q \in DOMAIN F : p \in Ancestors(F, q)}
RemoveTree(F, p) ==
  IF ~Exists(F, p) THEN F
  ELSE LET gone == {p} \cup {q \in Beneath(F, p) : Exists(F, q)}
           F1 == [q \in DOMAIN F |-> IF q \in gone THEN [F[q] EXCEPT !.t = "none", !.c = "", !.s = @ + 1] ELSE F[q]]
       IN IF F[p].par = "" THEN F1 ELSE Bump(F1, F[p].par)

(* what a directory-tree signature observes (DirectoryTreeSignatureTask and the rules beneath it):   *)
(* the directory's own info (only without filters), the visible names, each child's info, and the    *)
(* same recursively for child directories.                                                           *)
Visible(F, q, filt) == Exists(F, q) /\ SeqToSet(F[q].hid) \cap SeqToSet(filt) = {}
RECURSIVE TreeObsO(_,_,_,_)
TreeObsO(F, p, filt, own) ==          \* own: the directory's own info is part of the observation (if there are no filters)
  IF ~Exists(F, p) THEN <<"missing">>
  ELSE IF F[p].t # "dir" THEN <<"file", F[p].s>>
  ELSE LET kids == {q \in DOMAIN F : F[q].par = p /\ Visible(F, q, filt)}
       IN <<"dir", IF filt = <<>> /\ own THEN F[p].s ELSE 0,
            [q \in kids |-> <<F[q].s, IF F[q].t = "dir" THEN TreeObsO(F, q, filt, TRUE) ELSE <<>> >>] >>
TreeObs(F, p, filt) == TreeObsO(F, p, filt, TRUE)
(* ... and a directory-structure signature: names and types only *)
RECURSIVE StructObs(_,_,_)
StructObs(F, p, filt) ==
  IF ~Exists(F, p) THEN <<"missing">>
  ELSE IF F[p].t # "dir" THEN <<"file", F[p].t>>
  ELSE LET kids == {q \in DOMAIN F : F[q].par = p /\ Visible(F, q, filt)}
       IN <<"dir", [q \in kids |-> <<F[q].t, IF F[q].t = "dir" THEN StructObs(F, q, filt) ELSE <<>> >>] >>

-----------------------------------------------------------------------------
(* What command bodies compute.  The content a body writes to output j:      *)
(*   tag # j [ contents of the declared plain-file inputs ] { contents of    *)
(*   the extra paths it reads }    ("?" for a path that is not a file)       *)
FileText(F, p) == IF F[p].t = "file" THEN F[p].c ELSE "?"
RECURSIVE CatNodes(_,_)
CatNodes(F, ns) ==
  IF ns = <<>> THEN ""
  ELSE (IF NodeRec(Head(ns)).kind = "file" THEN FileText(F, PathOf(Head(ns))) \o ";" ELSE "") \o CatNodes(F, Tail(ns))
BodyText(F, c, j) ==
  Cmd(c).tag \o "#" \o ToString(j) \o "[" \o CatNodes(F, Cmd(c).ins) \o "]{" \o CatNodes(F, Cmd(c).reads) \o "}"

(* the effect of running the body of shell command c on F, and its exit status *)
RECURSIVE WriteOuts(_,_,_,_)
WriteOuts(F, F0, c, j) ==       \* F0: the file system the body read its inputs from
  IF j > Len(Cmd(c).outs) THEN F
  ELSE LET o == Cmd(c).outs[j] IN
       WriteOuts(IF NodeRec(o).kind = "dir" THEN      \* a directory output: the body creates it and (re)writes one file inside it
                      WriteFile(MkDirs(F, PathOf(o)), NodeRec(o).inner, BodyText(F0, c, j))
                 ELSE IF NodeRec(o).kind # "file" THEN F
                 ELSE IF Cmd(c).keep /\ F[PathOf(o)].t = "file" /\ F[PathOf(o)].c = BodyText(F0, c, j) THEN F   \* write-if-changed body
                 ELSE WriteFile(F, PathOf(o), BodyText(F0, c, j)), F0, c, j + 1)
BodyFails(F, c) == Cmd(c).failif # "" /\ Exists(F, PathOf(Cmd(c).failif))
(* a body that modifies a file created by another command in place: appends "+tag"; fails if the file is not there *)
MutateOk(F, c) == Mutates(c) = "" \/ F[PathOf(Mutates(c))].t = "file"
MutateIn(F, c) == IF Mutates(c) # "" /\ MutateOk(F, c)
                  THEN WriteFile(F, PathOf(Mutates(c)), F[PathOf(Mutates(c))].c \o "+" \o Cmd(c).tag) ELSE F
RunBody(F, c) ==
  IF BodyFails(F, c) /\ Cmd(c).failpt = "before" THEN [fs |-> F, ok |-> FALSE]
  ELSE LET F1 == WriteOuts(F, F, c, 1) IN
       IF ~MutateOk(F1, c) THEN [fs |-> F1, ok |-> FALSE]
       ELSE [fs |-> MutateIn(F1, c), ok |-> ~BodyFails(F, c)]

-----------------------------------------------------------------------------
(* Per-rule client semantics *)

(* A child of a directory input that is the OUTPUT of a command (a command writing into the directory, ordered before *)
(* the consumers by must-scan-after-paths): the signature merges the child's NODE VALUE - the info its producer       *)
(* recorded, or "failed input" / "skipped" when the producer did not succeed - not a fresh stat.                      *)
ProducedAt(q) == {n \in DOMAIN desc.nodes : desc.nodes[n].path = q /\ desc.nodes[n].kind = "file" /\ Producers(n) # {}}
ChildObs(F, M, q) ==
  IF ProducedAt(q) = {} THEN F[q].s
  ELSE LET v == Get(M, NK(CHOOSE n \in ProducedAt(q) : TRUE)).val IN
       (* (integers throughout: TLC compares observations for equality) *)
       CASE v.k = "ExistingInput" -> v.i[1]
         [] v.k = "FailedInput" -> 0 - 1001
         [] v.k = "SkippedCommand" -> 0 - 1002
         [] v.k = "MissingOutput" -> 0 - 1003
         [] OTHER -> 0 - 1000
RECURSIVE TreeObsM(_,_,_,_,_)
TreeObsM(F, M, p, filt, own) ==
  IF ~Exists(F, p) THEN <<"missing">>
  ELSE IF F[p].t # "dir" THEN <<"file", F[p].s>>
  ELSE LET kids == {q \in DOMAIN F : F[q].par = p /\ Visible(F, q, filt)}
       IN <<"dir", IF filt = <<>> /\ own THEN F[p].s ELSE 0,
            [q \in kids |-> <<ChildObs(F, M, q), IF F[q].t = "dir" THEN TreeObsM(F, M, q, filt, TRUE) ELSE <<>> >>] >>

(* A directory input whose path is ALSO the output of a command (the documented idiom: `tool: mkdir, outputs: ["d"]`   *)
(* next to `inputs: ["d/"]`): the listing rule requests the node of the path itself, which is then a produced node -    *)
(* its value is the info the producer recorded, not a fresh stat.  desc.nodes[n].rootnode names that node ("" if the    *)
(* path is not produced).  What such an input observes is the pair <<value of the root node, tree without own info>>.  *)
RootNode(n) == IF "rootnode" \in DOMAIN NodeRec(n) THEN NodeRec(n).rootnode ELSE ""
DirObs(F, M, n) ==
  LET p == PathOf(n)  filt == NodeRec(n).filt  rn == RootNode(n) IN
  IF NodeRec(n).kind = "dir"
  THEN (IF rn = "" THEN <<VInvalid, TreeObsM(F, M, p, filt, TRUE)>>
        ELSE IF filt # <<>> THEN <<VInvalid, TreeObsM(F, M, p, filt, FALSE)>>   \* (a filtered listing stats the path itself)
        ELSE LET rv == Get(M, NK(rn)).val IN
             (* the unfiltered listing propagates a missing / failed / skipped root node without looking at the directory *)
             IF rv.k \in {"MissingInput", "MissingOutput"} THEN <<VMissingIn, <<"-">> >>
             ELSE IF rv.k \in {"FailedInput", "SkippedCommand"} THEN <<rv, <<"-">> >>
             ELSE <<rv, TreeObsM(F, M, p, filt, FALSE)>>)
  ELSE (* structure: the unfiltered listing propagates a missing / failed / skipped root node the same way; an existing *)
       (* root enters by its type only, a filtered listing stats the path itself                                     *)
       IF rn # "" /\ filt = <<>> /\ Get(M, NK(rn)).val.k \in {"MissingInput", "MissingOutput"} THEN <<VMissingIn, <<"-">> >>
       ELSE IF rn # "" /\ filt = <<>> /\ Get(M, NK(rn)).val.k \in {"FailedInput", "SkippedCommand"} THEN <<Get(M, NK(rn)).val, <<"-">> >>
       ELSE <<VInvalid, StructObs(F, p, filt)>>
DirVal(F, M, n) == IF NodeRec(n).kind = "dir" THEN VTreeSig(DirObs(F, M, n)) ELSE VStructSig(DirObs(F, M, n))

(* is the stored value v of key k still valid against the file system F ?  (Rule::isResultValid) *)
CmdValid(c, v, F) ==
  LET d == Cmd(c) IN
  CASE d.tool \in {"shell", "phony"} ->
         /\ ~d.aood
         /\ v.k = "SuccessfulCommand"
         /\ Len(v.i) = Len(d.outs)
         /\ \A j \in 1..Len(d.outs) :
              \/ IsVirtual(d.outs[j])
              \/ IF IsMutated(d.outs[j]) THEN (v.i[j] = 0) = ~Exists(F, PathOf(d.outs[j])) ELSE v.i[j] = Info(F, PathOf(d.outs[j]))
    [] d.tool = "mkdir" -> v.k = "SuccessfulCommand" /\ F[PathOf(d.outs[1])].t = "dir"
    [] d.tool = "symlink" -> /\ v.k = "SuccessfulCommand" /\ Len(v.i) = 1
                             /\ Exists(F, PathOf(d.outs[1])) /\ v.i[1] = Info(F, PathOf(d.outs[1]))
    [] OTHER -> FALSE                      \* stale-file-removal always runs
ValidNow(k, v, F, M) ==
  CASE k.t = "T" -> FALSE
    [] k.t = "C" -> IF k.n \in Cmds THEN CmdValid(k.n, v, F) ELSE FALSE
    [] OTHER ->  \* node
       LET n == k.n IN
       IF Producers(n) # {} THEN /\ v.k \notin {"FailedInput", "MissingInput"}
                                 (* a produced directory node carries the tree signature of what is there now (its *)
                                 (* signature sub-rule is one of its recorded dependencies); the signature is the one *)
                                 (* an input directory of the same path has, so dropping the producer changes nothing  *)
                                 /\ (v.k = "DirectoryTreeSignature" => v = VTreeSig(<<VInvalid, TreeObs(F, PathOf(n), <<>>)>>))
       ELSE CASE NodeRec(n).kind = "virtual" -> v.k = "VirtualInput"
              [] NodeRec(n).kind = "file" ->
                   IF Exists(F, PathOf(n)) THEN v = VExisting(Info(F, PathOf(n))) ELSE v.k = "MissingInput"
              [] OTHER -> (* directory nodes: re-derived from the tree on every demand (their sub-rules *)
                          (* validate themselves against the file system)                              *)
                          v = DirVal(F, M, n)

(* ExternalCommand::getResultForOutput *)
ResultForOutput(c, n, v) ==
  IF Cmd(c).tool = "phony" /\ IsVirtual(n) THEN VVirtual
  ELSE IF v.k \in {"FailedCommand", "PropagatedFailureCommand", "CancelledCommand"} THEN VFailedIn
  ELSE IF v.k = "SkippedCommand" THEN VSkipped
  ELSE IF Cmd(c).tool = "stale" THEN v
  ELSE IF IsVirtual(n) /\ ~IsTimestamp(n) THEN VVirtual
  ELSE LET j == CHOOSE j \in 1..Len(Cmd(c).outs) : Cmd(c).outs[j] = n IN
       IF v.i[j] = 0 THEN VMissingOut ELSE VExisting(v.i[j])

(* how an input value makes an external command skip (ExternalCommand::provideValue) *)
SkipFor(c, v) ==
  IF v.k = "MissingInput" /\ ~Cmd(c).ami THEN "missing"
  ELSE IF v.k = "FailedInput" THEN "failed"
  ELSE "no"

-----------------------------------------------------------------------------
(* The engine, big-step per rule, canonical schedule.                        *)
(* Build state S: [fs, mem, done, ran, status, reasons, failures, errors,    *)
(*                 removed, skip, dskipped]                                  *)

NewBuild(F, M, D) == [fs |-> F, mem |-> M, db |-> D, aborted |-> FALSE, done |-> {}, ran |-> <<>>, status |-> <<>>, reasons |-> <<>>,
                   failures |-> 0, errors |-> 0, removed |-> <<>>, skipped |-> {},
                   skip |-> {},          \* the commands the client's delegate refuses to start in this build (shouldCommandStart)
                   dskipped |-> {}]      \* ... and those it was actually asked about and refused

Put(m, k, r) == [x \in DOMAIN m \cup {k} |-> IF x = k THEN r ELSE m[x]]
SetMem(S, k, r) == [S EXCEPT !.mem = Put(@, k, r)]
(* completion: the value counts as changed iff forced, first ever, or different *)
Finish(S, k, v, force, deps) ==
  LET r == Get(S.mem, k)
      changed == force \/ r.built = 0 \/ v # r.val
      r2 == [val |-> IF changed THEN v ELSE r.val, sig |-> SigOf(k), built |-> epoch + 1,
             computed |-> IF changed THEN epoch + 1 ELSE r.computed, deps |-> deps]
  IN [SetMem(S, k, r2) EXCEPT !.done = @ \cup {k}, !.db = Put(@, k, r2)]

(* what computeCommandResult records for output n: nothing for a virtual node, the current iteration for a command *)
(* timestamp (any value that differs from run to run), the file info otherwise                                     *)
OutInfo(F, n) == IF IsVirtual(n) THEN (IF IsTimestamp(n) THEN 0 - (epoch + 2) ELSE -1) ELSE Info(F, PathOf(n))

RECURSIVE Ensure(_,_), ScanDeps(_,_,_), EnsureAll(_,_), RunRule(_,_,_,_)

EnsureAll(ks, S) == IF ks = <<>> THEN S ELSE EnsureAll(Tail(ks), Ensure(Head(ks), S))

Ensure(k, S0) ==
  IF k \in S0.done \/ S0.aborted THEN S0
  ELSE LET (* scanning a directory input whose path is itself produced first brings the node of that path up to date *)
           (* (it is a dependency of the listing sub-rule); only a changed OBSERVATION re-derives the input node     *)
           (* (DirectoryInputNodeTask::start: the must-scan-after nodes first, then the signature request)             *)
           S == IF k.t = "N" /\ NodeRec(k.n).kind \in {"dir", "dirstruct"} /\ Producers(k.n) = {}
                THEN LET Sa == IF NodeRec(k.n).kind = "dir" THEN EnsureAll([i \in 1..Len(Msa(k.n)) |-> NK(Msa(k.n)[i])], S0) ELSE S0
                     IN IF RootNode(k.n) # "" THEN Ensure(NK(RootNode(k.n)), Sa) ELSE Sa
                ELSE S0
           r == Get(S.mem, k) IN
       IF r.built = 0 THEN RunRule(k, S, "NeverBuilt", NoKey)
       ELSE IF r.sig # SigOf(k) THEN RunRule(k, S, "SignatureChanged", NoKey)
       ELSE IF ~ValidNow(k, r.val, S.fs, S.mem) THEN RunRule(k, S, "InvalidValue", NoKey)
       ELSE ScanDeps(k, S, 1)

ScanDeps(k, S, i) ==
  LET r == Get(S.mem, k) IN
  IF i > Len(r.deps)
  THEN [SetMem(S, k, [r EXCEPT !.built = epoch + 1]) EXCEPT !.done = @ \cup {k}]       \* up to date
  ELSE LET d == r.deps[i]
           S1 == Ensure(d.k, S)
       IN IF ~d.oo /\ Get(S1.mem, d.k).computed > r.built
          THEN RunRule(k, S1, "InputRebuilt", d.k)
          ELSE ScanDeps(k, S1, i + 1)

NodeKeys(ns) == [i \in 1..Len(ns) |-> NK(ns[i])]
DepsOf(ks) == [i \in 1..Len(ks) |-> Dep(ks[i], FALSE)]
ValsOf(S, ks) == [i \in 1..Len(ks) |-> Get(S.mem, ks[i]).val]

(* stale-file-removal: which of the previously expected paths to remove (C14).                          *)
(* desc.paths : path string |-> [abs: starts with a separator, comps: its components, key: fs key or ""] *)
(* "lies at or beneath a root by whole path components"                                                *)
IsPrefixSeq(a, b) == Len(a) <= Len(b) /\ SubSeq(b, 1, Len(a)) = a
Under(p, r) == IsPrefixSeq(desc.paths[r].comps, desc.paths[p].comps)
RemovePath(F, p) == IF desc.paths[p].key = "" THEN F ELSE RemoveTree(F, desc.paths[p].key)
RECURSIVE RemoveAll(_,_)
RemoveAll(F, ps) == IF ps = <<>> THEN F ELSE RemoveAll(RemovePath(F, Head(ps)), Tail(ps))
StaleToRemove(c, prior) ==      \* sequence (order of the prior list) of paths to remove
  LET d == Cmd(c) IN
  IF prior.k # "StaleFileRemoval" THEN <<>>
  ELSE SelectSeq(prior.x, LAMBDA p :
         /\ p \notin SeqToSet(d.expected)
         /\ (d.roots = <<>> \/ (desc.paths[p].abs /\ \E i \in 1..Len(d.roots) : Under(p, d.roots[i]))))

RunRule(k, S0, reason, inp) ==
  LET S == [S0 EXCEPT !.reasons = Append(@, [k |-> k, reason |-> reason, input |-> inp])]
      prior == Get(S.mem, k)
      priorDue == prior.built # 0 /\ prior.sig = SigOf(k)
  IN
  CASE k.t = "T" ->
         LET ks == NodeKeys(desc.targets[k.n])
             S1 == EnsureAll(ks, S)
             missing == \E i \in 1..Len(ks) : Get(S1.mem, ks[i]).val.k = "MissingInput"
         IN Finish(IF missing THEN [S1 EXCEPT !.errors = @ + 1, !.failures = @ + 1] ELSE S1, k, VTarget, FALSE, DepsOf(ks))
    [] k.t = "N" ->
         LET n == k.n IN
         IF Producers(n) # {} THEN
           IF Cardinality(Producers(n)) > 1 THEN Finish([S EXCEPT !.failures = @ + 1], k, VFailedIn, FALSE, <<>>)
           ELSE LET c == ProducerOf(n)
                    S1 == Ensure(CK(c), S)
                    rv == ResultForOutput(c, n, Get(S1.mem, CK(c)).val)
                IN Finish(S1, k, IF NodeRec(n).kind = "dir" /\ rv.k = "ExistingInput" THEN VTreeSig(<<VInvalid, TreeObs(S1.fs, PathOf(n), <<>>)>>) ELSE rv,
                          FALSE, <<Dep(CK(c), FALSE)>>)
         ELSE CASE NodeRec(n).kind = "virtual" -> Finish(S, k, VVirtual, FALSE, <<>>)
                [] NodeRec(n).kind = "file" ->
                     Finish(S, k, IF Exists(S.fs, PathOf(n)) THEN VExisting(Info(S.fs, PathOf(n))) ELSE VMissingIn, FALSE, <<>>)
                [] OTHER ->      \* directory / structure input: the node of the path itself is brought up to date first
                     Finish(S, k, DirVal(S.fs, S.mem, n), FALSE, <<>>)
    [] OTHER ->  \* command
         LET c == k.n IN
         IF c \notin Cmds THEN Finish(S, k, VInvalid, TRUE, <<>>)              \* MissingCommandTask
         ELSE
         LET d == Cmd(c)
             ks == NodeKeys(d.ins)
             S1 == EnsureAll(ks, S)
             vals == ValsOf(S1, ks)
             skips == {SkipFor(c, vals[i]) : i \in 1..Len(vals)}
             ideps == DepsOf(ks)
         IN
         (* CommandTask::inputsAvailable asks the delegate first, whatever the tool and whatever the inputs delivered:   *)
         (* a refused command finishes as Skipped, stores SkippedCommand (never valid) and is not a failure.  Its         *)
         (* consumers are NOT skipped (ExternalCommand::provideValue: "a skipped dependency doesn't cause this command  *)
         (* to skip") - they run on whatever is on disk - and run again once the skipped command has run.              *)
         IF c \in S1.skip THEN
           Finish([S1 EXCEPT !.status = Append(@, [c |-> c, s |-> "Skipped"]), !.dskipped = @ \cup {c}], k, VSkipped, FALSE,
                  IF d.tool = "symlink" THEN [i \in 1..Len(ks) |-> Dep(ks[i], TRUE)] ELSE ideps)
         ELSE IF d.tool = "symlink" THEN     \* inputs are must-follow; the link is (re)created whatever is in its place
           LET p == PathOf(d.outs[1])
               F1 == MkDirs(S1.fs, S1.fs[p].par)
               F2 == IF Exists(F1, p) THEN RemoveTree(F1, p) ELSE F1
               F3 == [F2 EXCEPT ![p].t = "link", ![p].c = d.tag, ![p].s = @ + 1]
               F4 == IF F3[p].par = "" THEN F3 ELSE Bump(F3, F3[p].par)
               S2 == [S1 EXCEPT !.fs = F4, !.ran = Append(@, c), !.status = Append(@, [c |-> c, s |-> "Succeeded"])]
           IN Finish(S2, k, VSuccess(<<Info(F4, p)>>), FALSE, [i \in 1..Len(ks) |-> Dep(ks[i], TRUE)])
         ELSE IF d.tool = "stale" THEN
           LET rm == IF priorDue THEN StaleToRemove(c, prior.val) ELSE <<>>
               S2 == [S1 EXCEPT !.fs = RemoveAll(@, rm), !.removed = @ \o rm,
                                !.ran = Append(@, c), !.status = Append(@, [c |-> c, s |-> "Succeeded"])]
           IN Finish(S2, k, VStale(d.expected), FALSE, <<>>)
         ELSE IF "missing" \in skips THEN
           Finish([S1 EXCEPT !.failures = @ + 1, !.skipped = @ \cup {c}], k, VPropagated, FALSE, ideps)
         ELSE IF "failed" \in skips THEN
           Finish([S1 EXCEPT !.skipped = @ \cup {c}], k, VPropagated, FALSE, ideps)
         ELSE IF /\ d.tool \in {"shell", "phony"} /\ d.amo /\ priorDue /\ prior.val.k = "SuccessfulCommand"
                 /\ \A i \in 1..Len(vals) : vals[i].k # "MissingOutput"
                 (* (the record of a plain virtual output is the all-zero "missing" record: with one, never) *)
                 /\ \A j \in 1..Len(d.outs) : IF IsVirtual(d.outs[j]) THEN IsTimestamp(d.outs[j]) ELSE Exists(S1.fs, PathOf(d.outs[j]))
         THEN  \* allow-modified-outputs: just refresh the recorded output infos, run nothing
           Finish(S1, k, VSuccess([j \in 1..Len(d.outs) |-> OutInfo(S1.fs, d.outs[j])]), FALSE, ideps)
         ELSE
           LET (* directories containing the file outputs are created first *)
               RECURSIVE Parents(_,_)
               Parents(F, j) == IF j > Len(d.outs) THEN F
                                ELSE Parents(IF IsVirtual(d.outs[j]) THEN F ELSE MkDirs(F, F[PathOf(d.outs[j])].par), j + 1)
               F1 == Parents(S1.fs, 1)
               run == CASE d.tool = "shell" -> RunBody(F1, c)
                        [] d.tool = "mkdir" -> IF F1[PathOf(d.outs[1])].t \in {"none", "dir"}
                                               THEN [fs |-> MkDirs(F1, PathOf(d.outs[1])), ok |-> TRUE]
                                               ELSE [fs |-> F1, ok |-> FALSE]
                        [] OTHER -> [fs |-> F1, ok |-> TRUE]                       \* phony
               depsfail == d.tool = "shell" /\ run.ok /\ d.reads # <<>> /\ ~d.depsok
               ok == run.ok /\ ~depsfail
               disc == IF d.tool = "shell" /\ run.ok /\ d.depsok THEN NodeKeys(d.reads) ELSE <<>>
               S2 == [S1 EXCEPT !.fs = run.fs, !.ran = Append(@, c),
                                !.status = Append(@, [c |-> c, s |-> IF ok THEN "Succeeded" ELSE "Failed"]),
                                !.failures = IF ok THEN @ ELSE @ + 1]
               v == IF ok THEN VSuccess([j \in 1..Len(d.outs) |-> OutInfo(run.fs, d.outs[j])])
                    ELSE VFailedCmd
               S3 == Finish(S2, k, v, FALSE, ideps \o DepsOf(disc))
           IN EnsureAll(disc, S3)     \* discovered dependencies are brought up to date after the command

-----------------------------------------------------------------------------
(* The clean-build oracle (C08): the content a from-scratch build of the    *)
(* current description gives output path p, computed from the files no      *)
(* command produces - independent of the engine semantics above.            *)
RECURSIVE CleanNodeText(_), CleanCat(_)
ShellProducer(n) == IF Producers(n) # {} /\ Cardinality(Producers(n)) = 1 /\ Cmd(ProducerOf(n)).tool = "shell" THEN ProducerOf(n) ELSE ""
CleanNodeText(n) ==
  LET c == ShellProducer(n) IN
  IF c = "" THEN FileText(fs, PathOf(n))
  ELSE LET j == CHOOSE j \in 1..Len(Cmd(c).outs) : Cmd(c).outs[j] = n IN
       Cmd(c).tag \o "#" \o ToString(j) \o "[" \o CleanCat(Cmd(c).ins) \o "]{" \o CleanCat(Cmd(c).reads) \o "}"
CleanCat(ns) ==
  IF ns = <<>> THEN ""
  ELSE (IF NodeRec(Head(ns)).kind = "file" THEN CleanNodeText(Head(ns)) \o ";" ELSE "") \o CleanCat(Tail(ns))
CleanText(n) == CleanNodeText(n)

(* nodes reachable from a key through the description *)
RECURSIVE ReachNodes(_,_)
ReachNodes(ns, n) ==     \* n: fuel
  IF n = 0 THEN ns
  ELSE ReachNodes(ns \cup UNION {SeqToSet(Cmd(c).ins) \cup SeqToSet(Cmd(c).reads) : c \in UNION {Producers(x) : x \in ns}}, n - 1)

-----------------------------------------------------------------------------
(* Actions *)

NoLast == [a |-> "none"]

(* one build of key k0 (a target or a node) by the current frontend *)
DoBuildSkip(k0, sk) == Ensure(k0, [NewBuild(fs, mem, db) EXCEPT !.skip = sk])
DoBuild(k0) == DoBuildSkip(k0, {})
BuildOk(k0, B) ==
  /\ B.failures = 0 /\ B.errors = 0
  /\ (k0.t = "N" => Get(B.mem, k0).val.k = "ExistingInput")
BuildSkip(k0, sk) ==
  LET B == DoBuildSkip(k0, sk) IN
  /\ fs' = B.fs
  /\ mem' = B.mem
  /\ db' = IF hasdb THEN B.db ELSE <<>>
  /\ epoch' = epoch + 1
  /\ last' = [a |-> "Build", k |-> k0, ok |-> BuildOk(k0, B), ran |-> B.ran,
              quiet |-> (last.a = "Build" /\ last.ok /\ last.k = k0 /\ last.dskipped = {}), status |-> B.status,
              reasons |-> B.reasons, removed |-> B.removed, skipped |-> B.skipped, dskipped |-> B.dskipped, fs0 |-> fs, mem0 |-> mem]
  /\ UNCHANGED <<desc, hasdb>>
Build(k0) == BuildSkip(k0, {})

(* an observable edit of the file system outside a build: F2 is the new file system; every path whose *)
(* entry differs got a new stamp                                                                      *)
Mutate(F2) ==
  /\ DOMAIN F2 = DOMAIN fs
  /\ \A p \in DOMAIN fs : F2[p] # fs[p] => F2[p].s > fs[p].s
  /\ fs' = F2
  /\ last' = [a |-> "Mutate"]
  /\ UNCHANGED <<desc, mem, db, epoch, hasdb>>

(* a new frontend (new process): loads description d2; results survive only through the database *)
NewFrontend(d2, usedb) ==
  /\ desc' = d2
  /\ hasdb' = usedb
  /\ db' = IF hasdb /\ usedb THEN db ELSE <<>>
  /\ mem' = db'
  /\ epoch' = IF hasdb /\ usedb THEN epoch ELSE 0
  /\ last' = IF d2 = desc /\ hasdb /\ usedb THEN last ELSE [a |-> "NewFrontend"]
  /\ UNCHANGED fs

-----------------------------------------------------------------------------
(* Properties, over the ghost record of the last build *)

IsBuild == last.a = "Build"
RanSet == SeqToSet(last.ran)
StatusOf(c) == LET i == CHOOSE i \in 1..Len(last.status) : last.status[i].c = c IN last.status[i].s

(* C08: after a successful build every file output reachable from the built key has the clean-build content *)
ReachableFileOutputs(k0) ==
  LET roots == IF k0.t = "T" THEN SeqToSet(desc.targets[k0.n]) ELSE {k0.n}
      ns == ReachNodes(roots, Cardinality(Cmds) + 1)
  IN {n \in ns : ShellProducer(n) # "" /\ NodeRec(n).kind = "file" /\ ~IsMutated(n)}     \* (no promise for files modified in place)
RECURSIVE Upstream(_,_)
Upstream(cs, n) == IF n = 0 THEN cs ELSE
  Upstream(cs \cup UNION {Producers(x) : x \in UNION {SeqToSet(Cmd(c).ins) : c \in cs}}, n - 1)
(* (outputs at or below an allow-modified-outputs command are held to OutputsCleanStrict on the pinned scenario only:  *)
(* finding S19 - such a command does not re-run when an input changes)                                                *)
AmoTainted(n) == \E c \in Upstream({ShellProducer(n)}, Cardinality(Cmds)) : Cmd(c).amo
OutputsCleanStrict ==
  (IsBuild /\ last.ok /\ last.dskipped = {}) => \A n \in ReachableFileOutputs(last.k) : FileText(fs, PathOf(n)) = CleanText(n)
OutputsClean ==       \* (a build in which the delegate refused a command promises nothing; the NEXT build must repair it)
  (IsBuild /\ last.ok /\ last.dskipped = {}) => \A n \in ReachableFileOutputs(last.k) : AmoTainted(n) \/ FileText(fs, PathOf(n)) = CleanText(n)

(* C09: a build right after a successful build of the same key, nothing changed in between, runs nothing *)
(* (always-out-of-date commands and stale-file removal excepted)                                          *)
ExemptFromNull(c) == Cmd(c).aood \/ Cmd(c).tool = "stale"
NullBuildRunsNothing ==
  (IsBuild /\ last.quiet) => \A c \in RanSet : ExemptFromNull(c)

(* C10: a command runs only if none of the commands it consumes (transitively) failed or was skipped in this build *)
FailedNow == {c \in RanSet : StatusOf(c) = "Failed"} \cup last.skipped
StrictUpstream(c) == Upstream(UNION {Producers(x) : x \in SeqToSet(Cmd(c).ins)}, Cardinality(Cmds))
NonPhony(cs) == {c \in cs : Cmd(c).tool # "phony"}
OrderingOnly(c) == Cmd(c).tool \in {"phony", "symlink"}     \* these tools never read their inputs (symlink inputs are must-follow)
(* ... where "consumes" does not look through a command the client's delegate refused to start in this build: the    *)
(* refusal is decided BEFORE the failed input is looked at (CommandTask::inputsAvailable), the refused command stores *)
(* SkippedCommand, and "a skipped dependency doesn't cause this command to skip" - see RefusalHidesNoFailure (S33).  *)
RECURSIVE UpstreamOpen(_,_,_)
UpstreamOpen(cs, stop, n) == IF n = 0 THEN cs ELSE
  UpstreamOpen(cs \cup UNION {Producers(x) : x \in UNION {SeqToSet(Cmd(c).ins) : c \in cs \ stop}}, stop, n - 1)
OpenUpstream(c) == UpstreamOpen(UNION {Producers(x) : x \in SeqToSet(Cmd(c).ins)}, last.dskipped, Cardinality(Cmds))
FailureStops ==
  IsBuild => /\ (FailedNow # {} => ~last.ok)
             /\ \A c \in RanSet : OrderingOnly(c) \/ NonPhony(OpenUpstream(c)) \cap FailedNow = {}
(* The letter of C10 - no command downstream of a failed one runs, whatever lies between.  The code does NOT have    *)
(* this property when the delegate refuses a command between the failed command and a consumer (finding S33); the   *)
(* formula is checked on the pinned scenario only, everything else is held to FailureStops.                         *)
RefusalHidesNoFailure ==
  IsBuild => \A c \in RanSet : OrderingOnly(c) \/ NonPhony(StrictUpstream(c)) \cap FailedNow = {}
(* ... and the recorded result of a failed or skipped command is never valid *)
FailureRetried ==
  \A c \in Cmds : Get(mem, CK(c)).val.k \in {"FailedCommand", "PropagatedFailureCommand", "CancelledCommand", "SkippedCommand"}
                    => ~ValidNow(CK(c), Get(mem, CK(c)).val, fs, mem)

(* C14: stale-file removal removes only previously expected, no longer expected paths under the roots *)
StaleOnlyObsolete ==
  IsBuild => \A i \in 1..Len(last.removed) :
     \E c \in Cmds : /\ Cmd(c).tool = "stale"
                     /\ LET pv == Get(last.mem0, CK(c)).val IN
                        /\ pv.k = "StaleFileRemoval" /\ last.removed[i] \in SeqToSet(pv.x)
                        /\ last.removed[i] \notin SeqToSet(Cmd(c).expected)
                        /\ (Cmd(c).roots # <<>> => desc.paths[last.removed[i]].abs /\
                              \E r \in SeqToSet(Cmd(c).roots) : Under(last.removed[i], r))

(* ... and every such path is gone after the command ran *)
StaleAllObsolete ==
  IsBuild => \A c \in RanSet : Cmd(c).tool = "stale" =>
     LET pv == Get(last.mem0, CK(c)) IN
     (pv.built # 0 /\ pv.sig = CmdSig(c) /\ pv.val.k = "StaleFileRemoval") =>
        \A p \in SeqToSet(pv.val.x) :
           ( /\ p \notin SeqToSet(Cmd(c).expected)
             /\ (Cmd(c).roots # <<>> => desc.paths[p].abs /\ \E r \in SeqToSet(Cmd(c).roots) : Under(p, r))
             /\ desc.paths[p].key # "" ) => ~Exists(fs, desc.paths[p].key)

EpochSane == \A k \in DOMAIN mem : mem[k].built <= epoch /\ mem[k].computed <= mem[k].built
=============================================================================
