--------------------------- MODULE BuildSystemMC ---------------------------
(* Model-checking harness for BuildSystem.tla: bounded histories of            *)
(*   {edit / touch / delete / create a file, tamper or delete an output, tree   *)
(*    edits, switch to another description (new frontend, with or without the   *)
(*    database), build a target, build a node}                                  *)
(* over a family of descriptions given by the instantiating module.             *)
EXTENDS BuildSystem

CONSTANTS Descs,        \* set of descriptions (all over the same node table)
          InitDescs,    \* descriptions a history may start with
          InitFS,       \* initial file system
          Editable,     \* paths that histories may edit (content toggles between Contents)
          Deletable,    \* paths that histories may delete / re-create
          Targets,      \* keys that may be built
          MaxSteps, MaxBuilds, MaxEdits, MaxSwitch,
          WithDB        \* subset of BOOLEAN

VARIABLES budget, snap, snap0
mcvars == <<vars, budget, snap, snap0>>

Other(x) == IF x = "0" THEN "1" ELSE "0"

(* POSIX-like edits: content rewrite bumps the file; create/delete bumps the file and its directory *)
EditFile(p) == [fs EXCEPT ![p].c = Other(@), ![p].s = @ + 1]
TouchFile(p) == Bump(fs, p)
DeleteFile(p) == RemoveTree(fs, p)
CreateFile(p) == WriteFile(fs, p, "0")

(* ghost for NoSpuriousRerun: the state of a command's input cone when it last ran successfully *)
RECURSIVE ConeCmds(_,_)
ConeCmds(cs, n) == IF n = 0 THEN cs ELSE
  ConeCmds(cs \cup UNION {Producers(x) : x \in UNION {SeqToSet(Cmd(c).ins) \cup SeqToSet(Cmd(c).reads) : c \in cs}}, n - 1)
Cone(c) == ConeCmds({c}, Cardinality(Cmds))
ConeNodes(c) == UNION {SeqToSet(Cmd(x).ins) \cup SeqToSet(Cmd(x).reads) \cup SeqToSet(Cmd(x).outs) : x \in Cone(c)}
(* what an observer of a directory input sees, stated independently of the recursive TreeObs/StructObs of the   *)
(* specification: the flat set of visible paths beneath it with their stamps (types only for a structure input) *)
HiddenBy(F, q, filt) == SeqToSet(F[q].hid) \cap SeqToSet(filt) # {}
VisibleBeneath(F, p, filt) ==
  {q \in DOMAIN F : /\ p \in Ancestors(F, q) /\ Exists(F, q) /\ ~HiddenBy(F, q, filt)
                    /\ \A a \in Ancestors(F, q) : (p \in Ancestors(F, a)) => (Exists(F, a) /\ F[a].t = "dir" /\ ~HiddenBy(F, a, filt))
                    /\ F[p].t = "dir"}
FlatTree(F, p, filt) == <<IF Exists(F, p) THEN (IF filt = <<>> \/ F[p].t # "dir" THEN F[p].s ELSE -1) ELSE 0,
                         {<<q, F[q].s>> : q \in VisibleBeneath(F, p, filt)}>>
FlatStruct(F, p, filt) == <<IF Exists(F, p) THEN F[p].t ELSE "none", {<<q, F[q].t>> : q \in VisibleBeneath(F, p, filt)}>>
NodeObs(F, n) ==
  CASE NodeRec(n).kind = "virtual" -> <<>>
    [] NodeRec(n).kind = "dir" -> FlatTree(F, PathOf(n), NodeRec(n).filt)
    [] NodeRec(n).kind = "dirstruct" -> FlatStruct(F, PathOf(n), NodeRec(n).filt)
    [] IsMutated(n) -> <<Exists(F, PathOf(n))>>            \* a file modified in place: only its existence is anybody's business
    [] OTHER -> <<Info(F, PathOf(n))>>
ConeState(c, F) == <<[x \in Cone(c) |-> CmdSig(x)], [n \in ConeNodes(c) |-> NodeObs(F, n)]>>

DirectIn(c, F) == [n \in SeqToSet(Cmd(c).ins) \cup SeqToSet(Cmd(c).reads) |-> NodeObs(F, n)]
DirectOut(c, F) == [n \in SeqToSet(Cmd(c).outs) |-> NodeObs(F, n)]
Snap(c, F) == [sig |-> CmdSig(c), ins |-> DirectIn(c, F), outs |-> DirectOut(c, F)]

MCInit ==
  /\ desc \in InitDescs
  /\ fs = InitFS
  /\ mem = <<>> /\ db = <<>>
  /\ epoch = 0
  /\ hasdb \in WithDB
  /\ last = NoLast
  /\ budget = [steps |-> MaxSteps, builds |-> MaxBuilds, edits |-> MaxEdits, switches |-> MaxSwitch]
  /\ snap = <<>> /\ snap0 = <<>>

Spend(f) == budget' = [budget EXCEPT !.steps = @ - 1, ![f] = @ - 1]

(* the sets of commands a client's delegate may refuse to start in a build (shouldCommandStart); a configuration *)
(* that explores skipping replaces this definition                                                              *)
SkipSets == {{}}
FeedersOf(c) == UNION {Producers(x) : x \in SeqToSet(Cmd(c).ins) \cup SeqToSet(Cmd(c).reads)}
MCBuild(k0, sk) ==
  /\ budget.builds > 0 /\ Spend("builds")
  /\ BuildSkip(k0, sk)
  /\ snap0' = snap
  /\ LET B == DoBuildSkip(k0, sk)
         okran == {c \in SeqToSet(B.ran) : \E i \in 1..Len(B.status) : B.status[i].c = c /\ B.status[i].s = "Succeeded"}
         badran == SeqToSet(B.ran) \ okran
         (* a refused command, and the commands fed by it (they ran on - or were left with - what it should have *)
         (* replaced, and will run again when its node value flips back), are no basis for "nothing changed"    *)
         tainted == B.dskipped \cup {c \in Cmds : FeedersOf(c) \cap B.dskipped # {}}
     IN snap' = [c \in ((DOMAIN snap \cup okran) \ badran) \ tainted |-> IF c \in okran THEN Snap(c, B.fs) ELSE snap[c]]

Creatable == Deletable       \* paths a history may (re-)create; a configuration may narrow it
MCMutate ==
  /\ budget.edits > 0 /\ Spend("edits")
  /\ \/ \E p \in Editable : fs[p].t = "file" /\ Mutate(EditFile(p))
     \/ \E p \in Editable : fs[p].t = "file" /\ Mutate(TouchFile(p))
     \/ \E p \in Deletable : Exists(fs, p) /\ Mutate(DeleteFile(p))
     \/ \E p \in Creatable : ~Exists(fs, p) /\ (IF fs[p].par = "" THEN TRUE ELSE fs[fs[p].par].t = "dir") /\ Mutate(CreateFile(p))
  /\ UNCHANGED <<snap, snap0>>

MCSwitch ==
  /\ budget.switches > 0 /\ Spend("switches")
  /\ \E d2 \in Descs, u \in WithDB : NewFrontend(d2, u) /\ snap' = IF hasdb /\ u THEN snap ELSE <<>>     \* results lost with the database
  /\ UNCHANGED snap0

MCNext == budget.steps > 0 /\ (MCMutate \/ MCSwitch \/ \E k0 \in Targets, sk \in SkipSets : MCBuild(k0, sk))
MCSpec == MCInit /\ [][MCNext]_mcvars

-----------------------------------------------------------------------------
(* C09 (no unnecessary work): a command that ran had its definition, something it reads, or one of its outputs changed   *)
(* since it last ran successfully - or is exempt (always-out-of-date, stale-file removal, allow-modified-outputs)          *)
NoSpuriousRerun ==
  IsBuild => \A c \in RanSet :
     \/ ExemptFromNull(c) \/ Cmd(c).amo
     \/ \E n \in SeqToSet(Cmd(c).ins) : IsTimestamp(n) /\ Producers(n) \cap RanSet # {}     \* consumes the run time of a command that ran
     \/ FeedersOf(c) \cap last.dskipped # {}         \* the value of one of its inputs flipped to "skipped" (consumers of a refused command run)
     \/ c \notin DOMAIN snap0                         \* never ran successfully (or its results were lost with the database)
     \/ snap0[c].sig # CmdSig(c)                      \* its definition changed
     \/ snap0[c].ins # DirectIn(c, fs)                \* what it reads is not what it read last time (inputs are final once it ran)
     \/ snap0[c].outs # DirectOut(c, last.fs0)        \* its outputs were touched since it wrote them
(* C08 / C11 / C12 under-building, stamp level: after a successful build every command in the cone of the built key     *)
(* last ran with the current definition, on exactly the current state of its inputs and reads, and its outputs are as   *)
(* it left them                                                                                                          *)
SeenCurrent ==
  (IsBuild /\ last.ok /\ last.dskipped = {}) =>
     \A n \in ReachableFileOutputs(last.k) :
        LET c == ShellProducer(n) IN c \in DOMAIN snap /\ snap[c] = Snap(c, fs)
=============================================================================
