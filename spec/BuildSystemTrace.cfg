SPECIFICATION TraceSpec
INVARIANT TOutputsClean
INVARIANT TFailureStops
INVARIANT TStaleOnlyObsolete
CONSTRAINT Track
POSTCONDITION Post
CHECK_DEADLOCK FALSE
