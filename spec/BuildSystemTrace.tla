------------------------- MODULE BuildSystemTrace -------------------------
(***************************************************************************)
(* Trace specification: checks that histories recorded from the real       *)
(* llbuild build system (harness/bs_driver.cpp driving BuildSystemFrontend *)
(* in a sandbox) are behaviours of BuildSystem.tla.                        *)
(*                                                                         *)
(* A build is logged as several lines, each compared with the outcome the  *)
(* specification computes for that build (variable plan):                  *)
(*   Build   the key being built                                           *)
(*   Needs   every determinedRuleNeedsToRun(rule, reason, input) callback  *)
(*   Ran     commandStarted / commandFinished(status) callbacks, in order  *)
(*   Result  the boolean returned by build()/buildNode()                   *)
(*   FS      every tracked path whose type, content or file info changed   *)
(*   DB      every result stored in the database file, read back by an     *)
(*           independent connection: value kind, whether each stored file  *)
(*           info still equals the path's current info, both epochs, the   *)
(*           dependency list, the rule signature                           *)
(* so that a rejection names the aspect that deviates.                     *)
(***************************************************************************)
EXTENDS BuildSystem, Json, IOUtils, SequencesExt

Log == ndJsonDeserialize(IOEnv.TRACE)

VARIABLES l,        \* next line
          plan,     \* outcome the specification computes for the build in progress (or NoPlan)
          nodes, paths,   \* the execution's node table and path table (from the Reset line)
          sigmap,   \* pairs <<specification signature, implementation signature>> seen so far
          aborting  \* the build in progress is one that the client cancels at the first failure (see "Aborted builds")
tvars == <<vars, l, plan, nodes, paths, sigmap, aborting>>

ev == Log[l]
Is(e) == l <= Len(Log) /\ ev.e = e /\ l' = l + 1
NoPlan == [none |-> TRUE]
HavePlan == "fs" \in DOMAIN plan
Keep == UNCHANGED <<nodes, paths, sigmap, aborting>>

EmptyDesc == [cmds |-> <<>>, nodes |-> <<>>, targets |-> <<>>, paths |-> <<>>]

KeyOf(s) == [t |-> s.t, n |-> s.n]               \* logged keys are [t, n] records already
IsDirNode(k) == k.t = "N" /\ k.n \in DOMAIN nodes /\ nodes[k.n].kind \in {"dir", "dirstruct"}
Modelled(k) == k.t \in {"C", "T"} \/ (k.t = "N" /\ k.n \in DOMAIN nodes)     \* (nodes beneath a directory input are sub-rules of its signature)

TReset ==
  /\ Is("Reset")
  /\ nodes' = ev.nodes /\ paths' = ev.paths
  /\ fs' = ev.fs
  /\ desc' = [EmptyDesc EXCEPT !.nodes = ev.nodes, !.paths = ev.paths]
  /\ mem' = <<>> /\ db' = <<>> /\ epoch' = 0 /\ hasdb' = FALSE /\ last' = NoLast
  /\ plan' = NoPlan /\ sigmap' = {} /\ aborting' = FALSE

TFrontend ==
  /\ Is("Frontend") /\ ~HavePlan
  /\ NewFrontend([cmds |-> ev.desc.cmds, nodes |-> nodes, targets |-> ev.desc.targets, paths |-> paths], ev.db)
  /\ UNCHANGED plan /\ Keep

(* an edit between builds: the listed paths changed (type/content as logged; a new stamp iff the file info changed) *)
Changed(chs) == {chs[i].p : i \in 1..Len(chs)}
ChOf(chs, p) == chs[CHOOSE i \in 1..Len(chs) : chs[i].p = p]
Apply(F, chs) ==
  [p \in DOMAIN F |-> IF p \in Changed(chs)
                      THEN [F[p] EXCEPT !.t = ChOf(chs, p).t, !.c = ChOf(chs, p).c, !.s = IF ChOf(chs, p).info THEN @ + 1 ELSE @]
                      ELSE F[p]]
TMutate ==
  /\ Is("Mutate") /\ ~HavePlan
  /\ Changed(ev.changes) \subseteq DOMAIN fs
  /\ fs' = Apply(fs, ev.changes)
  /\ last' = [a |-> "Mutate"]
  /\ UNCHANGED <<desc, mem, db, epoch, hasdb, plan>> /\ Keep

(* every modelled rule the engine decided to run, with its reason - and nothing else *)
NeedSet(rs) == {[k |-> rs[i].k, reason |-> rs[i].reason] : i \in {j \in 1..Len(rs) : Modelled(rs[j].k) /\ ~IsDirNode(rs[j].k)}}
TNeeds ==
  /\ Is("Needs") /\ HavePlan /\ ~aborting
  /\ NeedSet(ev.list) = NeedSet(plan.reasons)
  /\ \A i \in 1..Len(ev.list) :        \* a reported triggering input is a recorded, non-order-only dependency of the rule
       (Modelled(ev.list[i].k) /\ ~IsDirNode(ev.list[i].k) /\ ev.list[i].reason = "InputRebuilt" /\ Modelled(ev.list[i].input)) =>
          \E j \in 1..Len(Get(mem, ev.list[i].k).deps) :
             Get(mem, ev.list[i].k).deps[j].k = ev.list[i].input /\ ~Get(mem, ev.list[i].k).deps[j].oo
  /\ UNCHANGED vars /\ UNCHANGED plan /\ Keep

(* the commands that ran, their statuses, and: a command starts only after the commands producing its inputs finished *)
StartedAt(seq, c) == CHOOSE i \in 1..Len(seq) : seq[i].c = c /\ seq[i].ev = "S"
TRan ==
  /\ Is("Ran") /\ HavePlan /\ ~aborting
  /\ LET started == SelectSeq(ev.seq, LAMBDA x : x.ev = "S")
         finished == SelectSeq(ev.seq, LAMBDA x : x.ev = "F")
     IN /\ Len(started) = Len(plan.ran)
        /\ {started[i].c : i \in 1..Len(started)} = SeqToSet(plan.ran)
        /\ Len(finished) = Len(plan.status)
        /\ {[c |-> finished[i].c, s |-> finished[i].s] : i \in 1..Len(finished)} = SeqToSet(plan.status)
        /\ \A c \in SeqToSet(plan.ran) :
             \A u \in (UNION {Producers(x) : x \in SeqToSet(Cmd(c).ins) \cup UNION {SeqToSet(Msa(y)) : y \in SeqToSet(Cmd(c).ins)}}) \cap SeqToSet(plan.ran) :
                \E j \in 1..Len(ev.seq) : ev.seq[j].c = u /\ ev.seq[j].ev = "F" /\ j < StartedAt(ev.seq, c)
  /\ SeqToSet(ev.removed) \subseteq SeqToSet(plan.removed)
  /\ UNCHANGED vars /\ UNCHANGED plan /\ Keep

TResult ==
  /\ Is("Result") /\ HavePlan /\ ~aborting
  /\ ev.ok = BuildOk(last.k, plan)
  /\ UNCHANGED vars /\ UNCHANGED plan /\ Keep

(* the file system after the build.  Regular files: exactly the predicted ones changed, with the predicted content. *)
(* Directories: the observed change is adopted (their times come from the kernel clock, see DESIGN.md).             *)
IsDirIn(F, p) == F[p].t = "dir"
TFS ==
  /\ Is("FS") /\ HavePlan /\ ~aborting
  /\ LET obs == Changed(ev.changes)
         pred == {p \in DOMAIN fs : plan.fs[p] # fs[p]}
         dirish(p) == IsDirIn(plan.fs, p) \/ IsDirIn(fs, p) \/ (p \in obs /\ ChOf(ev.changes, p).t = "dir")
     IN /\ obs \subseteq DOMAIN fs
        /\ \A p \in DOMAIN fs : ~dirish(p) =>
              /\ (p \in obs) = (p \in pred)
              /\ p \in obs => /\ ChOf(ev.changes, p).t = plan.fs[p].t
                              /\ ChOf(ev.changes, p).c = plan.fs[p].c
                              /\ ChOf(ev.changes, p).info
        /\ \A p \in obs : dirish(p) => ChOf(ev.changes, p).t = plan.fs[p].t
        /\ \A p \in DOMAIN fs : (dirish(p) /\ plan.fs[p].t # fs[p].t) => p \in obs
        /\ fs' = [p \in DOMAIN fs |-> IF dirish(p) /\ p \in obs /\ p \notin pred THEN [plan.fs[p] EXCEPT !.s = @ + 1] ELSE plan.fs[p]]
  /\ UNCHANGED <<desc, mem, db, epoch, hasdb, last, plan>> /\ Keep

(* the database after the build *)
RowKeys(rows) == {rows[i].k : i \in 1..Len(rows)}
RowOf(rows, k) == rows[CHOOSE i \in 1..Len(rows) : rows[i].k = k]
DepSet(ds) == {[k |-> ds[i].k, oo |-> ds[i].oo] : i \in 1..Len(ds)}
PathsOfKey(k) ==      \* fs keys of the file infos a stored value holds
  IF k.t = "N" THEN <<PathOf(k.n)>>
  ELSE IF k.t = "C" /\ k.n \in Cmds THEN [j \in 1..Len(Cmd(k.n).outs) |-> PathOf(Cmd(k.n).outs[j])]
  ELSE <<>>
InfoCodeOk(code, stored, p) ==
  IF code = -1 \/ p = "" THEN TRUE
  ELSE IF p \notin DOMAIN fs THEN TRUE
  ELSE IF fs[p].t \notin {"file", "none"} THEN TRUE
  ELSE \/ code = 0 /\ stored = 0
       \/ code = 1 /\ stored # 0 /\ stored = Info(fs, p)
       \/ code = 2 /\ stored # 0 /\ stored # Info(fs, p)
ValMatches(k, r, row) ==
  /\ row.val.k = r.val.k
  /\ (r.val.k \in {"ExistingInput", "SuccessfulCommand"} /\ ~IsDirNode(k) /\ r.sig = SigOf(k)) =>       \* (a row of an older definition names other paths)
        /\ Len(row.val.i) = Len(r.val.i)
        /\ LET ps == PathsOfKey(k) IN
           \A j \in 1..Len(r.val.i) : IF r.val.i[j] = -1 \/ j > Len(ps) THEN TRUE ELSE InfoCodeOk(row.val.i[j], r.val.i[j], ps[j])
  /\ r.val.k = "StaleFileRemoval" => row.val.x = r.val.x
RowMatches(k, r, row) ==
  /\ row.built = r.built /\ row.computed = r.computed
  /\ ValMatches(k, r, row)
  /\ IsDirNode(k) \/ (DepSet(row.deps) = DepSet(r.deps) /\ Len(row.deps) = Len(r.deps))
TDB ==
  /\ Is("DB") /\ HavePlan /\ ~aborting /\ ev.ok
  /\ ev.present = hasdb
  /\ LET rows == SelectSeq(ev.rows, LAMBDA row : Modelled(row.k))
         M == plan.db
         newpairs == {<<M[k].sig, RowOf(rows, k).sig>> : k \in {x \in DOMAIN M : x.t = "C" /\ x \in RowKeys(rows)}}
     IN /\ hasdb => /\ ev.epoch = epoch + 1
                    /\ RowKeys(rows) = DOMAIN M
                    /\ \A k \in DOMAIN M : RowMatches(k, M[k], RowOf(rows, k))
        (* C09: equal definitions have equal signatures, different definitions different ones - in every process *)
        /\ \A a, b \in sigmap \cup newpairs : (a[1] = b[1]) <=> (a[2] = b[2])
        /\ sigmap' = sigmap \cup newpairs
        /\ mem' = plan.mem
        /\ db' = IF hasdb THEN M ELSE <<>>
  /\ epoch' = epoch + 1
  /\ last' = [a |-> "Build", k |-> last.k, ok |-> BuildOk(last.k, plan), ran |-> plan.ran, quiet |-> FALSE,
              status |-> plan.status, reasons |-> plan.reasons, removed |-> plan.removed, skipped |-> plan.skipped, dskipped |-> plan.dskipped,
              fs0 |-> fs, mem0 |-> mem]
  /\ plan' = NoPlan
  /\ UNCHANGED <<desc, fs, hasdb, nodes, paths, aborting>>

(* ----------------------------------------------------------------------------------------------------------- *)
(* Aborted builds.  A client that cancels the build at the first command failure (what `llbuild buildsystem     *)
(* build` does) stops the engine somewhere inside the build the specification computes (plan): which rules had   *)
(* finished by then depends on the order in which ready commands were executed.  Every rule result is a function *)
(* of its inputs, so whatever finished must be exactly what the complete build would have produced: the observed *)
(* callbacks, file changes and database rows must be a PART of plan, everything else must be untouched, the      *)
(* build must report failure and the iteration must still be recorded.  The state afterwards is the observed     *)
(* part of plan (the generator starts a new frontend after such a build: memory = database).                    *)
TNeedsA ==
  /\ Is("Needs") /\ HavePlan /\ aborting
  /\ NeedSet(ev.list) \subseteq NeedSet(plan.reasons)
  /\ UNCHANGED vars /\ UNCHANGED plan /\ Keep
TRanA ==
  /\ Is("Ran") /\ HavePlan /\ aborting
  /\ LET started == SelectSeq(ev.seq, LAMBDA x : x.ev = "S")
         finished == SelectSeq(ev.seq, LAMBDA x : x.ev = "F")
         startedSet == {started[i].c : i \in 1..Len(started)}
     IN /\ Len(started) = Cardinality(startedSet)
        /\ startedSet \subseteq SeqToSet(plan.ran)
        /\ {[c |-> finished[i].c, s |-> finished[i].s] : i \in 1..Len(finished)} \subseteq SeqToSet(plan.status)
        /\ \A c \in startedSet :
             \A u \in (UNION {Producers(x) : x \in SeqToSet(Cmd(c).ins) \cup UNION {SeqToSet(Msa(y)) : y \in SeqToSet(Cmd(c).ins)}}) \cap SeqToSet(plan.ran) :
                \E j \in 1..Len(ev.seq) : ev.seq[j].c = u /\ ev.seq[j].ev = "F" /\ j < StartedAt(ev.seq, c)
  /\ SeqToSet(ev.removed) \subseteq SeqToSet(plan.removed)
  /\ UNCHANGED vars /\ UNCHANGED plan /\ Keep
TResultA ==
  /\ Is("Result") /\ HavePlan /\ aborting
  /\ ~ev.ok
  /\ UNCHANGED vars /\ UNCHANGED plan /\ Keep
TFSA ==
  /\ Is("FS") /\ HavePlan /\ aborting
  /\ LET obs == Changed(ev.changes)
         dirish(p) == IsDirIn(plan.fs, p) \/ IsDirIn(fs, p) \/ (p \in obs /\ ChOf(ev.changes, p).t = "dir")
     IN /\ obs \subseteq DOMAIN fs
        /\ \A p \in obs : ~dirish(p) =>
              /\ plan.fs[p] # fs[p]
              /\ ChOf(ev.changes, p).t = plan.fs[p].t /\ ChOf(ev.changes, p).c = plan.fs[p].c /\ ChOf(ev.changes, p).info
        /\ \A p \in obs : dirish(p) => ChOf(ev.changes, p).t \in {plan.fs[p].t, fs[p].t}
        /\ fs' = [p \in DOMAIN fs |-> IF p \notin obs THEN fs[p]
                                     ELSE IF dirish(p) /\ plan.fs[p] = fs[p] THEN [fs[p] EXCEPT !.t = ChOf(ev.changes, p).t, !.s = @ + 1]
                                     ELSE plan.fs[p]]          \* (the stamp the planned build gives it: stored infos refer to it)
  /\ UNCHANGED <<desc, mem, db, epoch, hasdb, last, plan>> /\ Keep
TDBA ==
  /\ Is("DB") /\ HavePlan /\ aborting /\ ev.ok
  /\ ev.present = hasdb
  /\ LET rows == SelectSeq(ev.rows, LAMBDA row : Modelled(row.k))
         New(k) == k \in DOMAIN plan.db /\ RowMatches(k, plan.db[k], RowOf(rows, k))
         Old(k) == k \in DOMAIN db /\ RowMatches(k, db[k], RowOf(rows, k))
         (* a command whose task found the build cancelled completes as cancelled (or skipped), a node produced by   *)
         (* it as a failed input; such results may be stored - they are never valid, so the next build retries them *)
         Art(k) == LET row == RowOf(rows, k) IN
                   /\ row.built = epoch + 1 /\ row.computed <= epoch + 1
                   /\ \/ k.t = "C" /\ row.val.k \in {"CancelledCommand", "SkippedCommand"}
                      \/ k.t = "N" /\ row.val.k \in {"FailedInput", "SkippedCommand"}
         ArtRow(k) == LET row == RowOf(rows, k) IN
                      [val |-> Val(row.val.k, <<>>, <<>>), sig |-> SigOf(k), built |-> row.built, computed |-> row.computed,
                       deps |-> [i \in 1..Len(row.deps) |-> [k |-> row.deps[i].k, oo |-> row.deps[i].oo]]]
     IN /\ hasdb => /\ ev.epoch = epoch + 1                       \* the iteration of a failed build is recorded too
                    /\ DOMAIN db \subseteq RowKeys(rows) /\ RowKeys(rows) \subseteq DOMAIN plan.db
                    /\ \A k \in RowKeys(rows) : New(k) \/ Old(k) \/ Art(k)
        /\ db' = IF hasdb THEN [k \in RowKeys(rows) |-> IF New(k) THEN plan.db[k] ELSE IF Old(k) THEN db[k] ELSE ArtRow(k)] ELSE <<>>
        /\ mem' = db'
  /\ epoch' = epoch + 1
  /\ last' = [a |-> "Aborted", k |-> last.k]
  /\ plan' = NoPlan /\ aborting' = FALSE
  /\ UNCHANGED <<desc, fs, hasdb, nodes, paths, sigmap>>

TEnd == Is("End") /\ ~HavePlan /\ UNCHANGED vars /\ UNCHANGED plan /\ Keep

(* the Build line also records which key is being built (for Result) *)
TBuild2 ==
  /\ Is("Build") /\ ~HavePlan
  /\ plan' = DoBuildSkip(KeyOf(ev.k), SeqToSet(ev.skip))
  /\ aborting' = (ev.cof /\ plan'.failures > 0)
  /\ last' = [a |-> "Building", k |-> KeyOf(ev.k)]
  /\ UNCHANGED <<desc, fs, mem, db, epoch, hasdb, nodes, paths, sigmap>>

TraceInit ==
  /\ l = 1
  /\ desc = EmptyDesc /\ fs = <<>> /\ mem = <<>> /\ db = <<>> /\ epoch = 0 /\ hasdb = FALSE /\ last = NoLast
  /\ plan = NoPlan /\ nodes = <<>> /\ paths = <<>> /\ sigmap = {} /\ aborting = FALSE
  /\ TLCSet(1, 0)

TraceNext == TReset \/ TFrontend \/ TMutate \/ TBuild2 \/ TNeeds \/ TRan \/ TResult \/ TFS \/ TDB \/ TEnd
             \/ TNeedsA \/ TRanA \/ TResultA \/ TFSA \/ TDBA
TraceSpec == TraceInit /\ [][TraceNext]_tvars

NotAccepted == l <= Len(Log)
Track == IF l > TLCGet(1) THEN TLCSet(1, l) ELSE TRUE
Post == PrintT(<<"MAXL", TLCGet(1), Len(Log)>>) /\ TLCGet(1) > Len(Log)

(* properties evaluated on every validated build *)
TOutputsClean == (last.a = "Build") => OutputsClean
TOutputsCleanStrict == (last.a = "Build") => OutputsCleanStrict
TFailureStops == (last.a = "Build") => FailureStops
TRefusalHidesNoFailure == (last.a = "Build") => RefusalHidesNoFailure
TStaleOnlyObsolete == (last.a = "Build") => StaleOnlyObsolete
=============================================================================
