SPECIFICATION TraceSpec
INVARIANT TOutputsClean
INVARIANT TOutputsCleanStrict
INVARIANT TFailureStops
INVARIANT TRefusalHidesNoFailure
INVARIANT TStaleOnlyObsolete
CONSTRAINT Track
POSTCONDITION Post
CHECK_DEADLOCK FALSE
