------------------------------- MODULE Engine -------------------------------
(***************************************************************************)
(* Small-step specification of llbuild's core::BuildEngine together with   *)
(* its BuildDB, cancellation and cycle detection.                          *)
(*                                                                         *)
(* One action per event that a client can observe at the engine's API:     *)
(* engine->client callbacks (Rule::updateStatus, isResultValid, delegate   *)
(* determinedRuleNeedsToRun, createTask, Task::start, providePriorValue,   *)
(* provideValue, inputsAvailable, cycleDetected), client->engine calls     *)
(* (build, request*, discoveredDependency, complete, cancelBuild,          *)
(* resetForBuild) and engine->database calls (setRuleResult,               *)
(* setCurrentIteration, buildStarted/buildComplete).  Guards say when the  *)
(* event is LEGAL under the documented contract; they are not a copy of    *)
(* the engine's queues.                                                    *)
(*                                                                         *)
(* The client program is data (variable prog), interpreted by the          *)
(* operators of section "client semantics"; the same records are           *)
(* interpreted by harness/engine_driver.cpp.                               *)
(***************************************************************************)
EXTENDS Integers, Sequences, FiniteSets, TLC

CONSTANTS Keys,        \* all rule keys (strings)
          Leaves       \* subset: keys whose value is external state

Derived == Keys \ Leaves
None    == "none"
Pending == 99          \* "input not delivered yet" marker inside task.got
NVals   == 3           \* values are 0..NVals-1 ; 0 is the empty byte string

VARIABLES
  prog,       \* [Keys -> rule description record]  (fixed per engine instance)
  ext,        \* [Keys -> value]  external state: the value of a leaf key, and for a derived rule with an
              \*                  output cell (prog[k].out) the "file" its task last wrote
  mem,        \* [Keys -> Result]   the engine's in-memory results
  st,         \* [Keys -> state in the current build]
  chk,        \* [Keys -> "no" | "valid" | "invalid"]  outcome of isResultValid in this scan
  task,       \* [Keys -> task record] for rules being executed
  epoch,      \* current build iteration
  target,     \* key being built, or None
  cancelled,  \* "no" | "maybe" | "yes"  (maybe: an asynchronous cancelBuild() call is in flight)
  draining,   \* the engine noticed the cancellation and only drains computing tasks
  focus,      \* record: an engine-thread callback sequence that must not be interleaved
  ran,        \* set of keys whose task was created in the current build
  cyc,        \* a cycle was reported in the current build
  intr,       \* keys whose execution was interrupted by an abandoned build (this engine instance)
  hasdb,      \* a database is attached to the current engine instance
  db,         \* committed database image  [ver, epoch, rows]
  txn,        \* open transaction image (same shape) or NoTxn
  alive,      \* an engine instance exists (FALSE after Crash until Restart)
  runs,       \* ghost: [Keys -> number of task creations in the current build]
  quiet,      \* ghost: nothing observable changed since the last successful build, and that build's target
  last        \* ghost: record describing the last action (for the invariants)

vars == <<prog, ext, mem, st, chk, task, epoch, target, cancelled, draining, focus,
          ran, cyc, intr, hasdb, db, txn, alive, runs, quiet, last>>

-----------------------------------------------------------------------------
(* Records *)

NoResult == [value |-> 0, sig |-> 0, built |-> 0, computed |-> 0, deps |-> <<>>]
NoTask   == [reqs |-> <<>>, got |-> <<>>, cause |-> <<>>, phase |-> "none",
             primed |-> FALSE, ndisc |-> 0]
NoFocus  == [k |-> None, what |-> "none"]
NoTxn    == [ver |-> 0, epoch |-> 0, rows |-> <<>>, open |-> FALSE]
NoLast   == [a |-> "none"]
EmptyRows == [k \in Keys |-> NoResult]
EmptyDB(v) == [ver |-> v, epoch |-> 0, rows |-> EmptyRows]
NotQuiet == [on |-> FALSE, k |-> None]

IsLeaf(k) == k \in Leaves
ToSetOf(s) == {s[i] : i \in 1..Len(s)}

-----------------------------------------------------------------------------
(* Client semantics: what the scripted rules do.  prog[k] has fields         *)
(*   start : Seq([k, kind])   requests issued from Task::start               *)
(*           kind \in {"in","single","follow"}                               *)
(*   dynOn, dynThen, dynElse : on receiving the value of dynOn request       *)
(*           dynThen if the value is odd, else dynElse                       *)
(*   disc  : Seq(key)         discovered dependencies (leaves are read         *)
(*           directly from ext; derived keys are only reported)               *)
(*   proj  : Seq(key)         inputs that influence the value                *)
(*   base, force, valid, sig                                                 *)
(*   out   : the task writes its value to the external cell ext[k] while it  *)
(*           computes, and the stored result is valid only if the cell still *)
(*           holds that value (a command and its output file)                *)

StartReqs(r) == IF IsLeaf(r) THEN <<>> ELSE prog[r].start
DynReqs(r, k, v) ==
  IF IsLeaf(r) THEN <<>>
  ELSE IF prog[r].dynOn = k THEN (IF v % 2 = 1 THEN prog[r].dynThen ELSE prog[r].dynElse)
  ELSE <<>>
DiscOf(r) == IF IsLeaf(r) THEN <<>> ELSE prog[r].disc
ForceOf(r) == IF IsLeaf(r) THEN FALSE ELSE prog[r].force
SigOf(r) == prog[r].sig

RECURSIVE SumGot(_,_,_)
SumGot(reqs, got, proj) ==
  IF reqs = <<>> THEN 0
  ELSE (IF Head(reqs).k \in proj /\ Head(reqs).kind # "follow" THEN Head(got) ELSE 0)
       + SumGot(Tail(reqs), Tail(got), proj)
RECURSIVE SumExt(_)
SumExt(ds) == IF ds = <<>> THEN 0 ELSE (IF IsLeaf(Head(ds)) THEN ext[Head(ds)] ELSE 0) + SumExt(Tail(ds))
   \* (a discovered DERIVED key is reported as a dependency but not read: it only has to be brought up to date)

ComputeVal(r, reqs, got) ==
  IF IsLeaf(r) THEN ext[r]
  ELSE (prog[r].base + SumGot(reqs, got, ToSetOf(prog[r].proj)) + SumExt(prog[r].disc)) % NVals

HasOut(r) == ~IsLeaf(r) /\ prog[r].out
ValidNow(r, v) == IF IsLeaf(r) THEN v = ext[r] ELSE prog[r].valid /\ (prog[r].out => ext[r] = v)

(* The clean-build oracle: the value a brand-new engine computes. *)
RECURSIVE Clean(_), CleanRun(_,_,_,_)
CleanRun(r, todo, reqs, got) ==
  IF todo = <<>> THEN ComputeVal(r, reqs, got)
  ELSE LET q == Head(todo)
           v == IF q.kind = "follow" THEN 0 ELSE Clean(q.k)
       IN CleanRun(r, Tail(todo) \o (IF q.kind = "follow" THEN <<>> ELSE DynReqs(r, q.k, v)),
                   Append(reqs, q), Append(got, v))
Clean(k) == IF IsLeaf(k) THEN ext[k] ELSE CleanRun(k, StartReqs(k), <<>>, <<>>)

-----------------------------------------------------------------------------
(* Engine-side derived notions *)

Running == target # None
Done(k) == st[k] = "done"
InFlight(k) == st[k] \in {"waiting", "computing", "reported"}
EngineFree == focus = NoFocus /\ ~draining     \* the engine thread may start a new step

(* In-order dependency scan of rule r: first dep not yet complete blocks,     *)
(* first complete non-order-only dep computed after r was built triggers.     *)
RECURSIVE ScanFrom(_,_)
ScanFrom(r, i) ==
  LET deps == mem[r].deps IN
  IF i > Len(deps) THEN <<"ok", None>>
  ELSE LET d == deps[i] IN
       IF ~Done(d.k) THEN <<"blocked", d.k>>
       ELSE IF ~d.oo /\ mem[r].built < mem[d.k].computed THEN <<"rerun", d.k>>
       ELSE ScanFrom(r, i+1)

OutstandingIdx(r) == {j \in 1..Len(task[r].reqs) : task[r].got[j] = Pending}
Satisfied(r, j) == task[r].reqs[j].kind = "follow" /\ Done(task[r].reqs[j].k)
Outstanding(r) == {task[r].reqs[j].k : j \in {i \in OutstandingIdx(r) : ~Satisfied(r, i)}}

ScanBlockedOn(r, k) == st[r] = "scanning" /\ chk[r] = "valid" /\ ScanFrom(r, 1) = <<"blocked", k>>

(* Keys the engine is entitled to work on. *)
Wanted(k) ==
  \/ k = target
  \/ \E r \in Keys : ScanBlockedOn(r, k)
  \/ \E r \in Keys : st[r] = "waiting" /\ k \in Outstanding(r)
  \/ \E r \in Keys : Done(r) /\ r \in ran /\
        \E i \in 1..Len(mem[r].deps) : mem[r].deps[i].k = k /\ mem[r].deps[i].disc

PriorDue(r) == mem[r].built # 0 /\ mem[r].sig = SigOf(r)

MkGot(n) == [i \in 1..n |-> Pending]

(* causal permutations: a request issued while receiving request c is recorded after c *)
Perms(n) == { f \in [1..n -> 1..n] : \A a, b \in 1..n : a # b => f[a] # f[b] }
PosIn(f, x) == CHOOSE a \in DOMAIN f : f[a] = x
Causal(t, pi) == \A i \in 1..Len(t.reqs) : t.cause[i] # 0 => PosIn(pi, t.cause[i]) < PosIn(pi, i)

RecordedDeps(r, pi) ==
  LET t == task[r]
      n == Len(t.reqs)
      dd == DiscOf(r)
  IN [a \in 1..n |-> [k |-> t.reqs[pi[a]].k, oo |-> t.reqs[pi[a]].kind = "follow",
                      su |-> t.reqs[pi[a]].kind = "single", disc |-> FALSE]]
     \o [a \in 1..Len(dd) |-> [k |-> dd[a], oo |-> FALSE, su |-> FALSE, disc |-> TRUE]]

(* wait-for relation and the "engine cannot make progress" predicate (cycle detection) *)
WaitsFor(a, b) ==
  \/ ScanBlockedOn(a, b)
  \/ st[a] = "waiting" /\ b \in Outstanding(a)

(* the relation a cycle report follows: real wait-for edges; a rule that already completed in this build waits for    *)
(* nothing, but the build cannot finish before its recorded (discovered) dependencies are brought up to date, so a     *)
(* report may lead from the requested key through complete rules, along their recorded dependencies, into the cycle    *)
CycleEdge(a, b) ==
  \/ WaitsFor(a, b)
  \/ Done(a) /\ \E i \in 1..Len(mem[a].deps) : mem[a].deps[i].k = b

CanStep ==
  \/ \E k \in Keys : Wanted(k) /\ st[k] \in {"idle", "needsrun", "uptodate"}
  \/ \E k \in Keys : st[k] = "scanning" /\
        (mem[k].built = 0 \/ chk[k] # "valid" \/ ScanFrom(k, 1)[1] # "blocked")
  \/ \E k \in Keys : st[k] \in {"computing", "reported"}
  \/ \E r \in Keys : st[r] = "waiting" /\
        ( \/ task[r].phase # "started"
          \/ \E i \in OutstandingIdx(r) : task[r].reqs[i].kind # "follow" /\ Done(task[r].reqs[i].k)
          \/ (Outstanding(r) = {} /\ \A j \in OutstandingIdx(r) : Satisfied(r, j)) )
Stuck == ~CanStep

-----------------------------------------------------------------------------
(* Frames *)
ClientVars == <<prog, ext>>
DbVars     == <<hasdb, db, txn, alive>>
GhostKeep  == <<runs, quiet>>

-----------------------------------------------------------------------------
(* Actions between builds *)

Mutate(x, v) ==
  /\ alive /\ ~Running /\ (x \in Leaves \/ HasOut(x))
  /\ ext' = [ext EXCEPT ![x] = v]
  /\ quiet' = NotQuiet
  /\ last' = NoLast
  /\ UNCHANGED <<prog, mem, st, chk, task, epoch, target, cancelled, draining, focus, ran, cyc, intr,
                 hasdb, db, txn, alive, runs>>

ResetForBuild ==
  /\ alive /\ ~Running
  /\ cancelled' = "no"
  /\ last' = NoLast
  /\ UNCHANGED <<prog, ext, mem, st, chk, task, epoch, target, draining, focus, ran, cyc, intr,
                 hasdb, db, txn, alive, runs, quiet>>

(* A new engine instance (new process or new BuildEngine object).           *)
(*   usedb: attach the database file;  ver: (schema,client) version pair of *)
(*   the attaching engine, abstracted to one number;  newprog: the rule set *)
(*   of the new instance (signatures / wiring may differ).                  *)
Restart(newprog, usedb, ver) ==
  /\ ~Running
  /\ prog' = newprog
  /\ hasdb' = usedb
  /\ alive' = TRUE
  /\ db' = IF usedb /\ db.ver # ver THEN EmptyDB(ver) ELSE db     \* version gate: recreate, never interpret
  /\ mem' = IF usedb THEN db'.rows ELSE EmptyRows
  /\ epoch' = IF usedb THEN db'.epoch ELSE 0
  /\ txn' = NoTxn
  /\ st' = [k \in Keys |-> "idle"] /\ chk' = [k \in Keys |-> "no"] /\ task' = [k \in Keys |-> NoTask]
  /\ target' = None /\ cancelled' = "no" /\ draining' = FALSE /\ focus' = NoFocus
  /\ ran' = {} /\ cyc' = FALSE /\ intr' = {}
  /\ runs' = [k \in Keys |-> 0]
  /\ quiet' = IF usedb /\ hasdb /\ newprog = prog /\ db' = db THEN quiet ELSE NotQuiet
  /\ last' = NoLast
  /\ UNCHANGED ext

(* The process dies: memory and the open transaction are lost, the committed image stays. *)
Crash ==
  /\ alive
  /\ alive' = FALSE
  /\ txn' = NoTxn
  /\ target' = None /\ draining' = FALSE /\ focus' = NoFocus /\ cancelled' = "no"
  /\ st' = [k \in Keys |-> "idle"] /\ chk' = [k \in Keys |-> "no"] /\ task' = [k \in Keys |-> NoTask]
  /\ ran' = {} /\ cyc' = FALSE /\ intr' = {}
  /\ quiet' = NotQuiet
  /\ last' = [a |-> "Crash"]
  /\ UNCHANGED <<prog, ext, mem, epoch, hasdb, db, runs>>

(* The process dies inside buildComplete(): the commit may or may not have reached the disk. *)
CrashAfterCommit ==
  /\ alive /\ Running /\ hasdb /\ txn.open /\ focus.what = "return"
  /\ alive' = FALSE
  /\ db' = [ver |-> txn.ver, epoch |-> txn.epoch, rows |-> txn.rows]
  /\ txn' = NoTxn
  /\ target' = None /\ draining' = FALSE /\ focus' = NoFocus /\ cancelled' = "no"
  /\ st' = [k \in Keys |-> "idle"] /\ chk' = [k \in Keys |-> "no"] /\ task' = [k \in Keys |-> NoTask]
  /\ ran' = {} /\ cyc' = FALSE /\ intr' = {}
  /\ quiet' = NotQuiet
  /\ last' = [a |-> "Crash"]
  /\ UNCHANGED <<prog, ext, mem, epoch, hasdb, runs>>

-----------------------------------------------------------------------------
(* A build *)

BuildStart(k) ==
  /\ alive /\ ~Running /\ k \in Keys
  /\ target' = k
  /\ focus = NoFocus
  /\ IF cancelled = "yes"
     THEN /\ draining' = TRUE           \* build() returns at once, no epoch is consumed
          /\ focus' = [k |-> None, what |-> "refused"]
          /\ UNCHANGED epoch
     ELSE /\ draining' = FALSE
          /\ focus' = NoFocus
          /\ epoch' = epoch + 1
  /\ st' = [x \in Keys |-> "idle"] /\ chk' = [x \in Keys |-> "no"]
  /\ ran' = {} /\ cyc' = FALSE /\ runs' = [x \in Keys |-> 0]
  /\ txn' = IF hasdb THEN [ver |-> db.ver, epoch |-> db.epoch, rows |-> db.rows, open |-> TRUE] ELSE NoTxn
  /\ quiet' = IF quiet.on /\ quiet.k = k THEN quiet ELSE NotQuiet
  /\ last' = NoLast
  /\ UNCHANGED <<prog, ext, mem, task, cancelled, intr, hasdb, db, alive>>

(* top of the engine's work loop: the only place where cancellation is noticed *)
LoopTop ==
  /\ Running /\ focus = NoFocus /\ ~draining
  /\ \/ cancelled = "yes" /\ draining' = TRUE
     \/ cancelled = "no" /\ draining' = FALSE
     \/ cancelled = "maybe" /\ draining' \in BOOLEAN
  /\ last' = NoLast
  /\ UNCHANGED <<prog, ext, mem, st, chk, task, epoch, target, cancelled, focus, ran, cyc, intr,
                 hasdb, db, txn, alive, runs, quiet>>

(* Rule::updateStatus(IsScanning) *)
ScanStart(r) ==
  /\ Running /\ EngineFree /\ Wanted(r) /\ st[r] = "idle"
  /\ mem' = [mem EXCEPT ![r].deps = SelectSeq(@, LAMBDA d : ~d.su)]
  /\ st' = [st EXCEPT ![r] = "scanning"]
  /\ focus' = [k |-> r, what |-> "scan"]
  /\ last' = NoLast
  /\ UNCHANGED <<prog, ext, chk, task, epoch, target, cancelled, draining, ran, cyc, intr,
                 hasdb, db, txn, alive, runs, quiet>>

(* Rule::isResultValid returned b *)
CheckValid(r, b) ==
  /\ Running /\ focus = [k |-> r, what |-> "scan"] /\ st[r] = "scanning" /\ chk[r] = "no"
  /\ mem[r].built # 0 /\ mem[r].sig = SigOf(r)
  /\ b = ValidNow(r, mem[r].value)
  /\ chk' = [chk EXCEPT ![r] = IF b THEN "valid" ELSE "invalid"]
  /\ focus' = IF b THEN NoFocus ELSE focus
  /\ last' = NoLast
  /\ UNCHANGED <<prog, ext, mem, st, task, epoch, target, cancelled, draining, ran, cyc, intr,
                 hasdb, db, txn, alive, runs, quiet>>

ReasonTrue(r, reason, d) ==
  \/ /\ reason = "NeverBuilt" /\ d = None
     /\ focus = [k |-> r, what |-> "scan"] /\ mem[r].built = 0
  \/ /\ reason = "SignatureChanged" /\ d = None
     /\ focus = [k |-> r, what |-> "scan"] /\ mem[r].built # 0 /\ mem[r].sig # SigOf(r)
  \/ /\ reason = "InvalidValue" /\ d = None
     /\ focus = [k |-> r, what |-> "scan"] /\ (chk[r] = "invalid" \/ (chk[r] = "no" /\ r \in intr))
  \/ /\ reason = "InputRebuilt"
     /\ focus.k = None /\ chk[r] = "valid" /\ ScanFrom(r, 1) = <<"rerun", d>>
  \/ /\ reason = "Interrupted" /\ d = None       \* only reachable if the engine reports it so
     /\ focus = [k |-> r, what |-> "scan"] /\ r \in intr

(* delegate determinedRuleNeedsToRun(rule, reason, input) *)
NeedsRun(r, reason, d) ==
  /\ Running /\ ~draining /\ st[r] = "scanning"
  /\ ReasonTrue(r, reason, d)
  /\ st' = [st EXCEPT ![r] = "needsrun"]
  /\ focus' = NoFocus
  /\ last' = [a |-> "NeedsRun", k |-> r, reason |-> reason, d |-> d]
  /\ UNCHANGED <<prog, ext, mem, chk, task, epoch, target, cancelled, draining, ran, cyc, intr,
                 hasdb, db, txn, alive, runs, quiet>>

(* Rule::updateStatus(IsUpToDate) *)
UpToDate(r) ==
  /\ Running /\ EngineFree /\ st[r] = "scanning" /\ chk[r] = "valid"
  /\ ScanFrom(r, 1)[1] = "ok" /\ Wanted(r)
  /\ r \notin intr
  /\ st' = [st EXCEPT ![r] = "done"]
  /\ mem' = [mem EXCEPT ![r].built = epoch]
  /\ last' = [a |-> "UpToDate", k |-> r]
  /\ UNCHANGED <<prog, ext, chk, task, epoch, target, cancelled, draining, focus, ran, cyc, intr,
                 hasdb, db, txn, alive, runs, quiet>>

(* Rule::createTask *)
CreateTask(r) ==
  /\ Running /\ EngineFree /\ st[r] = "needsrun" /\ Wanted(r)
  /\ task' = [task EXCEPT ![r] = [NoTask EXCEPT !.phase = "created"]]
  /\ st' = [st EXCEPT ![r] = "waiting"]
  /\ mem' = [mem EXCEPT ![r].deps = <<>>]
  /\ ran' = ran \cup {r}
  /\ runs' = [runs EXCEPT ![r] = @ + 1]
  /\ focus' = [k |-> r, what |-> "create"]
  /\ last' = [a |-> "Create", k |-> r]
  /\ UNCHANGED <<prog, ext, chk, epoch, target, cancelled, draining, cyc, intr,
                 hasdb, db, txn, alive, quiet>>

(* Task::start; the requests the task makes inside start() are part of the event *)
StartTask(r) ==
  /\ Running /\ focus = [k |-> r, what |-> "create"] /\ task[r].phase = "created"
  /\ LET rq == StartReqs(r) IN
     task' = [task EXCEPT ![r] = [@ EXCEPT !.phase = "started", !.reqs = rq, !.got = MkGot(Len(rq)),
                                           !.cause = [i \in 1..Len(rq) |-> 0]]]
  /\ focus' = IF PriorDue(r) THEN [k |-> r, what |-> "prior"] ELSE NoFocus
  /\ last' = NoLast
  /\ UNCHANGED <<prog, ext, mem, st, chk, epoch, target, cancelled, draining, ran, cyc, intr,
                 hasdb, db, txn, alive, runs, quiet>>

(* Task::providePriorValue(v) *)
PriorValue(r, v) ==
  /\ Running /\ focus = [k |-> r, what |-> "prior"]
  /\ PriorDue(r) /\ v = mem[r].value
  /\ task' = [task EXCEPT ![r].primed = TRUE]
  /\ focus' = NoFocus
  /\ last' = NoLast
  /\ UNCHANGED <<prog, ext, mem, st, chk, epoch, target, cancelled, draining, ran, cyc, intr,
                 hasdb, db, txn, alive, runs, quiet>>

(* Task::provideValue(inputID = i, key, v) *)
Provide(r, i, v) ==
  /\ Running /\ EngineFree /\ st[r] = "waiting" /\ task[r].phase = "started"
  /\ i \in OutstandingIdx(r)
  /\ LET t == task[r]
         k == t.reqs[i].k
         extra == DynReqs(r, k, v)
     IN /\ t.reqs[i].kind # "follow"
        /\ Done(k)
        /\ v = mem[k].value
        /\ task' = [task EXCEPT ![r] = [t EXCEPT !.reqs = t.reqs \o extra,
                                                 !.got = [t.got EXCEPT ![i] = v] \o MkGot(Len(extra)),
                                                 !.cause = t.cause \o [j \in 1..Len(extra) |-> i]]]
        /\ last' = [a |-> "Provide", k |-> r, from |-> k, v |-> v]
  /\ UNCHANGED <<prog, ext, mem, st, chk, epoch, target, cancelled, draining, focus, ran, cyc, intr,
                 hasdb, db, txn, alive, runs, quiet>>

(* Task::inputsAvailable *)
InputsAvailable(r) ==
  /\ Running /\ EngineFree /\ st[r] = "waiting" /\ task[r].phase = "started"
  /\ Outstanding(r) = {}
  /\ \A j \in OutstandingIdx(r) : Satisfied(r, j)
  /\ st' = [st EXCEPT ![r] = "computing"]
  /\ last' = NoLast
  /\ UNCHANGED <<prog, ext, mem, chk, task, epoch, target, cancelled, draining, focus, ran, cyc, intr,
                 hasdb, db, txn, alive, runs, quiet>>

(* TaskInterface::discoveredDependency(d): client call while computing *)
Discover(r, d) ==
  /\ Running /\ st[r] = "computing"
  /\ task[r].ndisc < Len(DiscOf(r)) /\ d = DiscOf(r)[task[r].ndisc + 1]
  /\ task' = [task EXCEPT ![r].ndisc = @ + 1]
  /\ last' = NoLast
  /\ UNCHANGED <<prog, ext, mem, st, chk, epoch, target, cancelled, draining, focus, ran, cyc, intr,
                 hasdb, db, txn, alive, runs, quiet>>

(* TaskInterface::complete(v, force): client call, any thread *)
Complete(r, v, f) ==
  /\ Running /\ st[r] = "computing"
  /\ task[r].ndisc = Len(DiscOf(r))
  /\ v = ComputeVal(r, task[r].reqs, task[r].got)
  /\ f = ForceOf(r)
  /\ mem' = [mem EXCEPT ![r] = IF ~f /\ mem[r].built # 0 /\ v = mem[r].value   \* a first value always counts as changed
                               THEN [@ EXCEPT !.sig = SigOf(r)]
                               ELSE [@ EXCEPT !.sig = SigOf(r), !.value = v, !.computed = epoch]]
  /\ st' = [st EXCEPT ![r] = "reported"]
  /\ last' = NoLast
  /\ ext' = IF HasOut(r) THEN [ext EXCEPT ![r] = v] ELSE ext          \* the task's side effect
  /\ UNCHANGED <<prog, chk, task, epoch, target, cancelled, draining, focus, ran, cyc, intr,
                 hasdb, db, txn, alive, runs, quiet>>

(* Rule::updateStatus(IsComplete) *)
StatusComplete(r) ==
  /\ Running /\ EngineFree /\ st[r] = "reported"
  /\ focus' = [k |-> r, what |-> "finish"]
  /\ last' = NoLast
  /\ UNCHANGED <<prog, ext, mem, st, chk, task, epoch, target, cancelled, draining, ran, cyc, intr,
                 hasdb, db, txn, alive, runs, quiet>>

(* BuildDB::setRuleResult(r, rec): the engine publishes the finished result.  *)
(* deps is the recorded dependency list (a causal permutation of the task's   *)
(* requests followed by the discovered dependencies).                         *)
Finished(r, deps) ==
  /\ Running /\ focus = [k |-> r, what |-> "finish"] /\ st[r] = "reported"
  /\ \E pi \in Perms(Len(task[r].reqs)) :
        /\ Causal(task[r], pi)
        /\ deps = RecordedDeps(r, pi)
  /\ mem' = [mem EXCEPT ![r].built = epoch, ![r].deps = deps]
  /\ st' = [st EXCEPT ![r] = "done"]
  /\ task' = [task EXCEPT ![r] = NoTask]
  /\ intr' = intr \ {r}
  /\ txn' = IF hasdb THEN [txn EXCEPT !.rows[r] = mem'[r]] ELSE txn
  /\ focus' = NoFocus
  /\ last' = [a |-> "Finished", k |-> r]
  /\ UNCHANGED <<prog, ext, chk, epoch, target, cancelled, draining, ran, cyc,
                 hasdb, db, alive, runs, quiet>>

(* cancelRemainingTasks(), last part (since the repair of S37): a rule that completed in this build but has a recorded *)
(* - in practice: discovered - dependency that was not brought up to date before the build stopped was computed from    *)
(* state the engine has no record of; its result is forgotten (and the empty record written to the database).           *)
Stranded(r) == Done(r) /\ \E i \in 1..Len(mem[r].deps) : ~Done(mem[r].deps[i].k)
Forget(r) ==
  /\ Running /\ focus = NoFocus /\ draining
  /\ Stranded(r)
  /\ mem' = [mem EXCEPT ![r] = NoResult]
  /\ txn' = IF hasdb THEN [txn EXCEPT !.rows[r] = NoResult] ELSE txn
  /\ last' = [a |-> "Forget", k |-> r]
  (* (st[r] stays "done": which rules are stranded is decided before anything is forgotten, so forgetting r does not *)
  (* strand the rules that depend on r - they re-run anyway once r has been recomputed)                              *)
  /\ UNCHANGED <<prog, ext, st, chk, task, epoch, target, cancelled, draining, focus, ran, cyc, intr,
                 hasdb, db, alive, runs, quiet>>
(* ... what is left of it when the build returns (an engine without a database forgets silently) *)
Forgotten(m) == [r \in Keys |-> IF Stranded(r) THEN NoResult ELSE m[r]]

(* BuildEngine::cancelBuild().  sync: delivered from the engine thread itself   *)
(* or known to have returned; otherwise the call is merely in flight.           *)
Cancel(sync) ==
  /\ alive
  /\ cancelled' = IF sync THEN "yes" ELSE (IF cancelled = "yes" THEN "yes" ELSE "maybe")
  /\ last' = NoLast
  /\ UNCHANGED <<prog, ext, mem, st, chk, task, epoch, target, draining, focus, ran, cyc, intr,
                 hasdb, db, txn, alive, runs, quiet>>

(* delegate cycleDetected(list) *)
CycleDetected(list) ==
  /\ Running /\ EngineFree /\ ~cyc
  /\ Stuck
  /\ Len(list) >= 2 /\ list[1] = target
  /\ \A i \in 1..(Len(list) - 1) : CycleEdge(list[i], list[i+1])
  /\ \E i \in 1..(Len(list) - 1) : list[i] = list[Len(list)]
  /\ ~Done(list[Len(list)])                \* the cycle proper is among rules that are really waiting
  /\ cyc' = TRUE
  /\ draining' = TRUE
  /\ last' = NoLast
  /\ UNCHANGED <<prog, ext, mem, st, chk, task, epoch, target, cancelled, focus, ran, intr,
                 hasdb, db, txn, alive, runs, quiet>>

(* BuildDB::setCurrentIteration(n): last database call of every build *)
SetIteration(n) ==
  /\ Running /\ focus = NoFocus
  /\ n = epoch
  /\ \A k \in Keys : st[k] # "computing"
  /\ txn' = IF hasdb /\ txn.open THEN [txn EXCEPT !.epoch = n] ELSE txn
  /\ focus' = [k |-> None, what |-> "return"]
  /\ last' = NoLast
  /\ UNCHANGED <<prog, ext, mem, st, chk, task, epoch, target, cancelled, draining, ran, cyc, intr,
                 hasdb, db, alive, runs, quiet>>

(* what a successfully finished build looks like *)
BuildComplete ==
  /\ Done(target)
  /\ \A k \in Keys : st[k] \in {"idle", "done"}
  /\ \A k \in Keys : ~(Wanted(k) /\ st[k] # "done")

(* build() returns.  failed: the client learnt of a failure (cancellation,   *)
(* cycle); v: the returned value.                                            *)
BuildReturn(v) ==
  /\ Running
  /\ focus.k = None
  /\ \/ focus.what \in {"refused", "return"}
     \/ focus.what = "none" /\ ~hasdb          \* an engine without database makes no setCurrentIteration call
  /\ \A k \in Keys : st[k] # "computing"
  /\ \/ /\ ~cyc /\ ~draining /\ BuildComplete             \* success
        /\ v = mem[target].value
        /\ UNCHANGED <<intr, task, st, mem>>
        /\ quiet' = [on |-> TRUE, k |-> target]
        /\ last' = [a |-> "Return", ok |-> TRUE, v |-> v, k |-> target, ran |-> ran, wasquiet |-> quiet.on]
     \/ /\ draining \/ cancelled # "no"                     \* failure
        /\ (cancelled = "no" => cyc)
        /\ v = 0
        /\ intr' = intr \cup {k \in Keys : InFlight(k)}
        /\ task' = [k \in Keys |-> NoTask]
        /\ st' = [k \in Keys |-> IF st[k] = "done" THEN "done" ELSE "idle"]
        /\ mem' = Forgotten(mem)
        /\ quiet' = NotQuiet
        /\ last' = [a |-> "Return", ok |-> FALSE, v |-> v, k |-> target, ran |-> ran, wasquiet |-> FALSE]
  /\ target' = None /\ draining' = FALSE /\ focus' = NoFocus
  /\ IF hasdb /\ txn.open
     THEN /\ db' = [ver |-> txn.ver, epoch |-> txn.epoch,
                     rows |-> IF ~cyc /\ ~draining /\ BuildComplete THEN txn.rows ELSE Forgotten(txn.rows)]     \* commit
          /\ txn' = NoTxn
     ELSE UNCHANGED <<db, txn>>
  /\ UNCHANGED <<prog, ext, chk, epoch, cancelled, ran, cyc, hasdb, alive, runs>>

-----------------------------------------------------------------------------
(* Properties, as state predicates over the ghost record of the last action *)

(* C01 *)
CleanResult == (last.a = "Return" /\ last.ok) => last.v = Clean(last.k)
FreshInputs == last.a = "Provide" => last.v = Clean(last.from)

(* C02 *)
AtMostOnce == \A k \in Keys : runs[k] <= 1
AlwaysValidProg == \A k \in Derived : prog[k].valid
NullBuild == (last.a = "Return" /\ last.ok /\ last.wasquiet /\ AlwaysValidProg) => last.ran = {}
IsRecordedTrigger(r, d) == \E i \in 1..Len(mem[r].deps) : mem[r].deps[i].k = d /\ ~mem[r].deps[i].oo
Justified ==
  last.a = "NeedsRun" =>
     CASE last.reason = "NeverBuilt" -> mem[last.k].built = 0
       [] last.reason = "SignatureChanged" -> mem[last.k].sig # SigOf(last.k)
       [] last.reason = "InvalidValue" -> ~ValidNow(last.k, mem[last.k].value) \/ last.k \in intr
       [] last.reason = "InputRebuilt" -> /\ IsRecordedTrigger(last.k, last.d)
                                          /\ mem[last.d].computed > mem[last.k].built
       [] OTHER -> last.k \in intr

(* C04 / C05: what the committed database may contain *)
DBConsistent ==
  \A k \in Keys : db.rows[k].built # 0 =>
     /\ db.rows[k].built <= db.epoch /\ db.rows[k].computed <= db.rows[k].built

(* type-ish sanity *)
EpochSane == \A k \in Keys : mem[k].built <= epoch /\ mem[k].computed <= epoch

=============================================================================
