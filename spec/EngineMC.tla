------------------------------ MODULE EngineMC ------------------------------
(* Model-checking harness for Engine.tla: bounded histories over a family of   *)
(* scripted client programs.  Every engine interleaving is explored.           *)
EXTENDS Engine, SequencesExt

CONSTANTS Programs,     \* set of program functions [Keys -> rule record]
          MaxBuilds, MaxMutates, MaxRestarts, MaxCancels, MaxCrashes,
          WithDB,       \* subset of BOOLEAN: may an engine attach the database?
          Vers,         \* database/client version numbers an engine may use
          CycleLists,   \* candidate cycle reports
          Reprog        \* which rule sets a restarted engine may come with: "same" | "one" | "any"

VARIABLE budget         \* [builds, mutates, restarts, cancels, crashes]
mcvars == <<vars, budget>>

Reasons == {"NeverBuilt", "SignatureChanged", "InvalidValue", "InputRebuilt"}
MaxReqs == 4

NextProgs == CASE Reprog = "same" -> {prog}
               [] Reprog = "one"  -> {q \in Programs : Cardinality({k \in Keys : q[k] # prog[k]}) <= 1}
               [] OTHER -> Programs
Spend(f) == budget' = [budget EXCEPT ![f] = @ - 1]
Keep == UNCHANGED budget

MCInit ==
  /\ prog \in Programs
  /\ \E e \in [Leaves -> {0, 1}] : ext = [k \in Keys |-> IF k \in Leaves THEN e[k] ELSE 0]
  /\ mem = EmptyRows
  /\ st = [k \in Keys |-> "idle"] /\ chk = [k \in Keys |-> "no"] /\ task = [k \in Keys |-> NoTask]
  /\ epoch = 0 /\ target = None /\ cancelled = "no" /\ draining = FALSE /\ focus = NoFocus
  /\ ran = {} /\ cyc = FALSE /\ intr = {}
  /\ hasdb \in WithDB /\ db = EmptyDB(1) /\ txn = NoTxn /\ alive = TRUE
  /\ runs = [k \in Keys |-> 0] /\ quiet = NotQuiet /\ last = NoLast
  /\ budget = [builds |-> MaxBuilds, mutates |-> MaxMutates, restarts |-> MaxRestarts,
               cancels |-> MaxCancels, crashes |-> MaxCrashes]

Between ==
  \/ budget.mutates > 0 /\ Spend("mutates") /\ \E x \in Keys, v \in {0, 1} : ext[x] # v /\ Mutate(x, v)
  \/ cancelled # "no" /\ ResetForBuild /\ Keep
  \/ budget.restarts > 0 /\ Spend("restarts") /\ \E np \in NextProgs, u \in WithDB, ver \in Vers : Restart(np, u, ver)
  \/ budget.builds > 0 /\ Spend("builds") /\ \E k \in Keys : BuildStart(k)

EngineStep ==
  \/ cancelled # "no" /\ LoopTop
  \/ \E r \in Keys :
       \/ ScanStart(r)
       \/ CheckValid(r, ValidNow(r, mem[r].value))
       \/ \E reason \in Reasons, d \in Keys \cup {None} : NeedsRun(r, reason, d)
       \/ UpToDate(r)
       \/ CreateTask(r)
       \/ StartTask(r)
       \/ PriorValue(r, mem[r].value)
       \/ \E i \in 1..MaxReqs : i <= Len(task[r].reqs) /\ Provide(r, i, mem[task[r].reqs[i].k].value)
       \/ InputsAvailable(r)
       \/ StatusComplete(r)
       \/ \E pi \in Perms(Len(task[r].reqs)) : Causal(task[r], pi) /\ Finished(r, RecordedDeps(r, pi))
  \/ Running /\ EngineFree /\ ~cyc /\ Stuck /\ \E list \in CycleLists : CycleDetected(list)
  \/ SetIteration(epoch)
  \/ \E r \in Keys : Forget(r)
  \/ \E v \in {0, IF Running THEN mem[target].value ELSE 0} : BuildReturn(v)

ClientStep ==
  \/ \E r \in Keys :
       \/ task[r].ndisc < Len(DiscOf(r)) /\ Discover(r, DiscOf(r)[task[r].ndisc + 1])
       \/ st[r] = "computing" /\ Complete(r, ComputeVal(r, task[r].reqs, task[r].got), ForceOf(r))

Faults ==
  \/ budget.cancels > 0 /\ Running /\ Spend("cancels") /\ Cancel(TRUE)
  \/ budget.crashes > 0 /\ Spend("crashes") /\ (Crash \/ CrashAfterCommit)
  \/ ~alive /\ Keep /\ \E np \in NextProgs, u \in WithDB, ver \in Vers : Restart(np, u, ver)

MCNext ==
  \/ Between
  \/ (EngineStep \/ ClientStep) /\ Keep
  \/ Faults

MCSpec == MCInit /\ [][MCNext]_mcvars

-----------------------------------------------------------------------------
(* C07 / no-stall: whenever the engine cannot step, either the build is complete *)
(* or a legal cycle report exists.                                               *)
LegalCycle(list) ==
  /\ Len(list) >= 2 /\ list[1] = target
  /\ \A i \in 1..(Len(list) - 1) : CycleEdge(list[i], list[i+1])
  /\ \E i \in 1..(Len(list) - 1) : list[i] = list[Len(list)]
  /\ ~Done(list[Len(list)])
NoStall ==
  (Running /\ EngineFree /\ ~cyc /\ cancelled = "no" /\ Stuck) =>
     (BuildComplete \/ \E list \in CycleLists : LegalCycle(list))
(* an acyclic program never reports a cycle (the family's request graph is checked per program) *)
RECURSIVE Reach(_,_)
Edges(k) == IF IsLeaf(k) THEN {} ELSE
   {prog[k].start[i].k : i \in 1..Len(prog[k].start)} \cup {prog[k].dynThen[i].k : i \in 1..Len(prog[k].dynThen)}
   \cup {prog[k].dynElse[i].k : i \in 1..Len(prog[k].dynElse)} \cup {prog[k].disc[i] : i \in 1..Len(prog[k].disc)}
Reach(S, n) == IF n = 0 THEN S ELSE Reach(S \cup UNION {Edges(k) : k \in S}, n - 1)
ProgCyclic == \E k \in Keys : k \in Reach(Edges(k), Cardinality(Keys))
NoFalseCycle == cyc => ProgCyclic

=============================================================================
