------------------------------ MODULE EngineSync ------------------------------
(***************************************************************************)
(* Thread-level model of the hand-shake between the engine thread and the   *)
(* threads that report task completion or cancel the build                  *)
(* (lib/Core/BuildEngine.cpp: executeTasks loop, taskIsComplete,            *)
(* cancelBuild, cancelRemainingTasks).  Engine.tla treats one loop          *)
(* iteration as atomic; this module is the refinement underneath it for the *)
(* three shared objects                                                     *)
(*     finishedTaskInfos (queue)  finishedTaskInfosMutex  ...Condition      *)
(* and the engine-private counter numOutstandingUnfinishedTasks.            *)
(*                                                                          *)
(* One action per critical section / per statement that another thread can  *)
(* observe.  The three guarded notification points of the repository        *)
(* (LLBUILD_VERIF: LoopTop, BeforeWait, CancelDrain) are exactly the engine *)
(* program counters "top", "beforeWait" and "drainTop" below: the harness   *)
(* delivers completions while the engine thread stands at one of them,      *)
(* which is the interleaving  EPushAt(pc) . ENotify  of this model.         *)
(*                                                                          *)
(* Decided here (C06: no lost wake-up / no deadlock; C05: the build call    *)
(* returns only when nothing is left running and every reported completion  *)
(* has been consumed):                                                      *)
(*   TypeOK, CountsAgree, QueueBound (the assert in the drain loop),        *)
(*   NoLostWakeup, ReturnsQuiet, and Termination under weak fairness.       *)
(* Switches (CONSTANTS) turn the documented safeguards off; each must make  *)
(* TLC report a violation (tools/spec_mutants.py), which shows that the     *)
(* properties are not vacuous.                                              *)
(***************************************************************************)
EXTENDS Naturals, FiniteSets, TLC

CONSTANTS
  Tasks,          \* identities of the tasks that can be launched in this build
  MayCancel,      \* BOOLEAN: a foreign thread may call cancelBuild() at any instant
  Spurious,       \* BOOLEAN: condition_variable::wait may wake up spuriously
  RecheckUnderLock,   \* TRUE = code as written: emptiness re-checked under the mutex before waiting
  NotifyAfterPush,    \* TRUE = code as written: notify_one after the push (FALSE: before it)
  DrainRechecks,      \* TRUE = code as written: the cancellation drain re-checks the queue under the mutex
  DrainCountsAll      \* TRUE = code as written: the drain subtracts the number of drained completions (FALSE: one per wake-up, seed C06_8)

VARIABLES
  pc,            \* engine thread: "top","launch","collect","decide","beforeWait","locked","waiting","woken",
                 \*                "drainTop","drainLocked","drainWaiting","returned"
  didWork,       \* the loop-iteration flag
  outstanding,   \* numOutstandingUnfinishedTasks (engine private)
  fin,           \* set of tasks in finishedTaskInfos (protected by the mutex)
  mutex,         \* "free" | "engine" (a completing thread's critical section is the single step Push)
  tpc,           \* per task: "idle","computing","pushed","notified" (= thread left taskIsComplete) ; with
                 \* NotifyAfterPush = FALSE: "computing" -> "prenotified" -> "notified"
  cancelled,     \* buildCancelled (atomic flag)
  consumed,      \* tasks whose completion the engine has taken out of the queue (processed or drained)
  result         \* "none" | "ok" | "cancelled"

vars == <<pc, didWork, outstanding, fin, mutex, tpc, cancelled, consumed, result>>

Init ==
  /\ pc = "top" /\ didWork = FALSE /\ outstanding = 0 /\ fin = {} /\ mutex = "free"
  /\ tpc = [t \in Tasks |-> "idle"] /\ cancelled = FALSE /\ consumed = {} /\ result = "none"

Launched == {t \in Tasks : tpc[t] # "idle"}

(* ---------------------------------------------------------------- engine thread *)

\* loop top: the cancellation flag is polled here (BuildEngine.cpp "if (buildCancelled)")
Top ==
  /\ pc = "top"
  /\ IF cancelled THEN pc' = "drainTop" /\ UNCHANGED didWork
                  ELSE pc' = "launch" /\ didWork' = FALSE
  /\ UNCHANGED <<outstanding, fin, mutex, tpc, cancelled, consumed, result>>

\* ready tasks: inputsAvailable is called; the task starts computing on another thread.
\* Any subset of the not yet launched tasks becomes ready in this iteration (which ones is Engine.tla's business).
Launch ==
  /\ pc = "launch"
  /\ \E S \in SUBSET (Tasks \ Launched) :
       \* nothing in flight and work left: some task is ready (the dependency graph is acyclic; stalls are Engine.tla's)
       /\ (outstanding = 0 /\ Launched # Tasks) => S # {}
       /\ tpc' = [t \in Tasks |-> IF t \in S THEN "computing" ELSE tpc[t]]
       /\ outstanding' = outstanding + Cardinality(S)
       /\ didWork' = (didWork \/ S # {})
  /\ pc' = "collect"
  /\ UNCHANGED <<fin, mutex, cancelled, consumed, result>>

\* finished tasks: the queue is swapped out under the mutex (one critical section) and processed
Collect ==
  /\ pc = "collect" /\ mutex = "free"
  /\ consumed' = consumed \cup fin
  /\ outstanding' = outstanding - Cardinality(fin)
  /\ didWork' = (didWork \/ fin # {})
  /\ fin' = {}
  /\ pc' = "decide"
  /\ UNCHANGED <<mutex, tpc, cancelled, result>>

Decide ==
  /\ pc = "decide"
  /\ IF didWork THEN pc' = "top" /\ UNCHANGED result
     ELSE IF outstanding # 0 THEN pc' = "beforeWait" /\ UNCHANGED result
     ELSE pc' = "returned" /\ result' = "ok"
  /\ UNCHANGED <<didWork, outstanding, fin, mutex, tpc, cancelled, consumed>>

\* hook point BeforeWait; then std::unique_lock lock(finishedTaskInfosMutex)
Lock ==
  /\ pc = "beforeWait" /\ mutex = "free"
  /\ mutex' = "engine" /\ pc' = "locked"
  /\ UNCHANGED <<didWork, outstanding, fin, tpc, cancelled, consumed, result>>

\* if (finishedTaskInfos.empty()) wait(lock)   -- wait releases the mutex atomically
WaitOrNot ==
  /\ pc = "locked"
  /\ IF (~RecheckUnderLock) \/ fin = {}
       THEN pc' = "waiting" /\ mutex' = "free"
       ELSE pc' = "woken" /\ mutex' = "free"
  /\ UNCHANGED <<didWork, outstanding, fin, tpc, cancelled, consumed, result>>

SpuriousWake ==
  /\ Spurious /\ pc \in {"waiting", "drainWaiting"}
  /\ pc' = IF pc = "waiting" THEN "woken" ELSE "drainTop"
  /\ UNCHANGED <<didWork, outstanding, fin, mutex, tpc, cancelled, consumed, result>>

\* after the wait (or the skipped wait): didWork = true; next iteration
Woken ==
  /\ pc = "woken"
  /\ didWork' = TRUE /\ pc' = "top"
  /\ UNCHANGED <<outstanding, fin, mutex, tpc, cancelled, consumed, result>>

\* cancelRemainingTasks: while (numOutstandingUnfinishedTasks != 0) { hook; lock; if empty wait else drain }
DrainTop ==
  /\ pc = "drainTop"
  /\ IF outstanding = 0 THEN pc' = "returned" /\ result' = "cancelled" /\ UNCHANGED mutex
     ELSE /\ mutex = "free" /\ mutex' = "engine" /\ pc' = "drainLocked" /\ UNCHANGED result
  /\ UNCHANGED <<didWork, outstanding, fin, tpc, cancelled, consumed>>

DrainLocked ==
  /\ pc = "drainLocked"
  /\ IF (~DrainRechecks) \/ fin = {}
       THEN pc' = "drainWaiting" /\ UNCHANGED <<outstanding, fin, consumed>>
       ELSE /\ outstanding' = outstanding - (IF DrainCountsAll THEN Cardinality(fin) ELSE 1)
            /\ consumed' = consumed \cup fin /\ fin' = {} /\ pc' = "drainTop"
  /\ mutex' = "free"
  /\ UNCHANGED <<didWork, tpc, cancelled, result>>

(* ---------------------------------------------------------------- completing threads (taskIsComplete) *)

\* { lock_guard guard(finishedTaskInfosMutex); finishedTaskInfos.push_back(taskInfo); }
Push(t) ==
  /\ tpc[t] = (IF NotifyAfterPush THEN "computing" ELSE "prenotified")
  /\ mutex = "free"
  /\ fin' = fin \cup {t}
  /\ tpc' = [tpc EXCEPT ![t] = IF NotifyAfterPush THEN "pushed" ELSE "notified"]
  /\ UNCHANGED <<pc, didWork, outstanding, mutex, cancelled, consumed, result>>

\* finishedTaskInfosCondition.notify_one(): wakes the engine iff it is in the wait set; otherwise lost
Notify(t) ==
  /\ tpc[t] = (IF NotifyAfterPush THEN "pushed" ELSE "computing")
  /\ tpc' = [tpc EXCEPT ![t] = IF NotifyAfterPush THEN "notified" ELSE "prenotified"]
  /\ pc' = CASE pc = "waiting" -> "woken"
             [] pc = "drainWaiting" -> "drainTop"
             [] OTHER -> pc
  /\ UNCHANGED <<didWork, outstanding, fin, mutex, cancelled, consumed, result>>

(* ---------------------------------------------------------------- canceller *)
\* cancelBuild(): sets the flag, deliberately does not wake the engine
Cancel ==
  /\ MayCancel /\ ~cancelled /\ pc # "returned"
  /\ cancelled' = TRUE
  /\ UNCHANGED <<pc, didWork, outstanding, fin, mutex, tpc, consumed, result>>

Next ==
  \/ Top \/ Launch \/ Collect \/ Decide \/ Lock \/ WaitOrNot \/ SpuriousWake \/ Woken \/ DrainTop \/ DrainLocked
  \/ Cancel
  \/ \E t \in Tasks : Push(t) \/ Notify(t)

Spec == Init /\ [][Next]_vars
FairSpec == Spec /\ WF_vars(Top \/ Launch \/ Collect \/ Decide \/ Lock \/ WaitOrNot \/ Woken \/ DrainTop \/ DrainLocked)
                 /\ \A t \in Tasks : WF_vars(Push(t)) /\ WF_vars(Notify(t))

(* ---------------------------------------------------------------- properties *)
TypeOK ==
  /\ pc \in {"top","launch","collect","decide","beforeWait","locked","waiting","woken","drainTop","drainLocked","drainWaiting","returned"}
  /\ outstanding \in 0..Cardinality(Tasks) /\ fin \subseteq Tasks /\ consumed \subseteq Tasks
  /\ mutex \in {"free", "engine"}
  /\ (mutex = "engine") = (pc \in {"locked", "drainLocked"})

\* the private counter is exactly the number of launched tasks whose completion was not yet consumed
CountsAgree == outstanding = Cardinality(Launched \ consumed)
\* assert(finishedTaskInfos.size() <= numOutstandingUnfinishedTasks)
QueueBound == Cardinality(fin) <= outstanding /\ fin \cap consumed = {}

\* a sleeping engine is always going to be woken: some thread still has a notify to issue
\* (with Spurious = TRUE a spurious wake-up would hide a lost one, so the check configurations use Spurious = FALSE too)
WillNotify(t) == tpc[t] \in (IF NotifyAfterPush THEN {"computing", "pushed"} ELSE {"computing"})
NoLostWakeup == pc \in {"waiting", "drainWaiting"} => \E t \in Tasks : WillNotify(t)

\* build() returns only when every launched task has reported and been consumed, and nothing is queued:
\* no callback can arrive after the return (C05), and "ok" is only returned for a complete build
ReturnsQuiet ==
  pc = "returned" =>
    /\ outstanding = 0 /\ fin = {} /\ consumed = Launched
    /\ \A t \in Launched : tpc[t] \in {"pushed", "notified"}
    /\ (result = "ok" => Launched = Tasks)
    /\ (result = "cancelled" => cancelled)

Termination == <>(pc = "returned")
\* cancellation is honoured: once the flag is set the build does not return success unless it had already finished its work
CancelHonoured == [](cancelled /\ pc = "top" => <>(result = "cancelled"))
=============================================================================
