---------------------------- MODULE EngineTrace ----------------------------
(***************************************************************************)
(* Trace specification: checks that an ndjson trace recorded from the real *)
(* engine (harness/engine_driver.cpp) is a behaviour of Engine.tla.  One   *)
(* conjunct per logged event kind: IsEvent /\ <bind logged fields> /\      *)
(* Engine action.  All invariants of Engine.tla are evaluated in every     *)
(* state of the validated behaviour.                                       *)
(*                                                                         *)
(* Acceptance: INVARIANT NotAccepted is "violated" iff every line of the   *)
(* trace was consumed.  Many executions are concatenated in one file, each *)
(* starting with a Reset line.                                             *)
(***************************************************************************)
EXTENDS Engine, Json, IOUtils, SequencesExt

Log == ndJsonDeserialize(IOEnv.TRACE)

VARIABLE l          \* index of the next line to consume
tvars == <<vars, l>>

ev == Log[l]
Is(e) == l <= Len(Log) /\ ev.e = e /\ l' = l + 1

ProjDeps(deps) == [i \in 1..Len(deps) |-> [k |-> deps[i].k, oo |-> deps[i].oo, su |-> deps[i].su]]
RecOf(res) == [v |-> res.value, sig |-> res.sig, built |-> res.built, computed |-> res.computed, deps |-> ProjDeps(res.deps)]
NoneIfEmpty(s) == s

Stutter == UNCHANGED vars

TReset ==
  /\ Is("Reset")
  /\ prog' = ev.prog /\ ext' = ev.ext
  /\ mem' = EmptyRows
  /\ st' = [k \in Keys |-> "idle"] /\ chk' = [k \in Keys |-> "no"] /\ task' = [k \in Keys |-> NoTask]
  /\ epoch' = 0 /\ target' = None /\ cancelled' = "no" /\ draining' = FALSE /\ focus' = NoFocus
  /\ ran' = {} /\ cyc' = FALSE /\ intr' = {}
  /\ hasdb' = FALSE /\ db' = EmptyDB(0) /\ txn' = NoTxn /\ alive' = FALSE
  /\ runs' = [k \in Keys |-> 0] /\ quiet' = NotQuiet /\ last' = NoLast

TEngine ==
  /\ Is("Engine")
  /\ Restart(IF "prog" \in DOMAIN ev THEN ev.prog ELSE prog, ev.db, ev.ver)
TDbEpoch  == Is("DbEpoch") /\ ev.ok /\ ~Running /\ ev.n = epoch /\ Stutter
TAttach   == Is("Attach") /\ ev.ok /\ ~Running /\ Stutter
TMutate   == Is("Mutate") /\ Mutate(ev.k, ev.v)
TResetFB  == Is("ResetForBuild") /\ ResetForBuild
TBuild    == Is("Build") /\ BuildStart(ev.k)
TDbBegin  == Is("DbBegin") /\ ev.ok /\ Running /\ Stutter
TTop      == Is("Top") /\ LoopTop
TStatus   == /\ Is("Status")
             /\ \/ ev.s = "scanning" /\ ScanStart(ev.k)
                \/ ev.s = "uptodate" /\ UpToDate(ev.k)
                \/ ev.s = "complete" /\ StatusComplete(ev.k)
TValid    == Is("Valid") /\ CheckValid(ev.k, ev.b)
TNeedsRun == Is("NeedsRun") /\ NeedsRun(ev.k, ev.reason, ev.input)
TCreate   == Is("Create") /\ CreateTask(ev.k)
TStart    == Is("Start") /\ StartTask(ev.k)
TPrior    == Is("Prior") /\ PriorValue(ev.k, ev.v)
TProvide  == /\ Is("Provide")
             /\ ev.i \in 1..Len(task[ev.k].reqs)
             /\ task[ev.k].reqs[ev.i].k = ev.from
             /\ Provide(ev.k, ev.i, ev.v)
TAvail    == Is("Avail") /\ InputsAvailable(ev.k)
TDisc     == Is("Disc") /\ Discover(ev.k, ev.d)
TComplete == Is("Complete") /\ Complete(ev.k, ev.v, ev.force)
TDbLookup ==
  /\ Is("DbLookup") /\ Running /\ hasdb
  /\ LET row == txn.rows[ev.k] IN
     IF row.built = 0 THEN (~ev.found \/ ev.rec = RecOf(NoResult))      \* (never stored, or stored as the empty record of a forgotten result)
     ELSE ev.found /\ ev.rec = RecOf(row)
  /\ Stutter
TDbSet ==
  /\ Is("DbSet") /\ ev.rec.built # 0
  /\ LET r == ev.k  n == Len(task[ev.k].reqs) IN
     \E pi \in Perms(n) :
        /\ Causal(task[r], pi)
        /\ ProjDeps(RecordedDeps(r, pi)) = ev.rec.deps
        /\ Finished(r, RecordedDeps(r, pi))
        /\ ev.rec = RecOf(mem'[r])
TForget   == Is("DbSet") /\ ev.rec.built = 0 /\ Forget(ev.k) /\ ev.rec = RecOf(NoResult)      \* the empty record of a forgotten result
TDbIter   == Is("DbIter") /\ SetIteration(ev.n)
TDbEnd    == Is("DbEnd") /\ Stutter
TCancel   == Is("Cancel") /\ Cancel(ev.sync)
TCancelDone ==
  /\ Is("CancelDone")
  /\ cancelled' = "yes"
  /\ UNCHANGED <<prog, ext, mem, st, chk, task, epoch, target, draining, focus, ran, cyc, intr,
                 hasdb, db, txn, alive, runs, quiet, last>>
TCycle    == Is("Cycle") /\ CycleDetected(ev.keys)
TReturn   ==
  /\ Is("Return")
  /\ ~ev.error /\ ev.pending = 0
  /\ ev.cycle = cyc
  /\ (cancelled = "yes" => ev.cancelled) /\ (cancelled = "no" => ~ev.cancelled)
  /\ BuildReturn(ev.v)
TSnapshot ==
  /\ Is("Snapshot") /\ ~Running /\ ev.ok
  /\ ev.epoch = db.epoch
  /\ LET stored == {k \in Keys : db.rows[k].built # 0}
         full == {i \in 1..Len(ev.rows) : ev.rows[i].rec.built # 0}      \* (a forgotten result is stored as the empty record)
     IN
     /\ Cardinality(full) = Cardinality(stored)
     /\ \A i \in full : ev.rows[i].k \in stored /\ ev.rows[i].rec = RecOf(db.rows[ev.rows[i].k])
     /\ \A i \in (1..Len(ev.rows)) \ full : ev.rows[i].k \notin stored /\ ev.rows[i].rec = RecOf(NoResult)
  /\ Stutter
(* the driver built the same key in a brand-new engine: binds the Clean oracle to the real engine *)
TCleanCheck == Is("CleanCheck") /\ ~Running /\ ev.clean = Clean(ev.k) /\ Stutter
(* the process was killed (kill shim): memory and the open transaction are gone *)
TCrash    == Is("Crash") /\ (Crash \/ CrashAfterCommit)
TEnd      == Is("End") /\ ~Running /\ Stutter

TraceInit ==
  /\ l = 1
  /\ prog = <<>> /\ ext = <<>> /\ mem = <<>> /\ st = <<>> /\ chk = <<>> /\ task = <<>>
  /\ epoch = 0 /\ target = None /\ cancelled = "no" /\ draining = FALSE /\ focus = NoFocus
  /\ ran = {} /\ cyc = FALSE /\ intr = {} /\ hasdb = FALSE /\ db = EmptyDB(0) /\ txn = NoTxn /\ alive = FALSE
  /\ runs = <<>> /\ quiet = NotQuiet /\ last = NoLast
  /\ TLCSet(1, 0)

TraceNext ==
  \/ TReset \/ TEngine \/ TDbEpoch \/ TAttach \/ TMutate \/ TResetFB \/ TBuild \/ TDbBegin \/ TTop
  \/ TStatus \/ TValid \/ TNeedsRun \/ TCreate \/ TStart \/ TPrior \/ TProvide \/ TAvail \/ TDisc
  \/ TComplete \/ TDbLookup \/ TDbSet \/ TForget \/ TDbIter \/ TDbEnd \/ TCancel \/ TCancelDone \/ TCycle
  \/ TReturn \/ TSnapshot \/ TCleanCheck \/ TCrash \/ TEnd

TraceSpec == TraceInit /\ [][TraceNext]_tvars

NotAccepted == l <= Len(Log)
Track == IF l > TLCGet(1) THEN TLCSet(1, l) ELSE TRUE
Post == PrintT(<<"MAXL", TLCGet(1), Len(Log)>>) /\ TLCGet(1) > Len(Log)

(* properties are only meaningful once a program is loaded *)
Loaded == prog # <<>>
TCleanResult == Loaded => CleanResult
TFreshInputs == Loaded => FreshInputs
TAtMostOnce  == Loaded => AtMostOnce
TNullBuild   == Loaded => NullBuild
TJustified   == Loaded => Justified
TDBConsistent == Loaded => DBConsistent
=============================================================================
