CONSTANTS
  Keys = {"a","b","c","d","e","f","g","h"}
  Leaves = {"a","b","c","d"}
SPECIFICATION CSpec
INVARIANT TCleanResult
INVARIANT TFreshInputs
INVARIANT TAtMostOnce
INVARIANT TNullBuild
INVARIANT TJustified
INVARIANT TDBConsistent
CONSTRAINT Track
POSTCONDITION Post
CHECK_DEADLOCK FALSE
