---------------------------- MODULE EngineTraceC ----------------------------
(***************************************************************************)
(* Trace specification for executions driven through the libllbuild C      *)
(* interface (harness/engine_driver_capi.cpp).  The C interface cannot     *)
(* express some events of Engine.tla (determinedRuleNeedsToRun, prior      *)
(* value, the database decorator's setRuleResult / setCurrentIteration),   *)
(* so those actions are taken silently here: TLC infers them.  Everything  *)
(* that IS observable is bound exactly as in EngineTrace.tla, and the      *)
(* post-build Snapshot of the database file pins the inferred dependency   *)
(* order and epochs.                                                       *)
(***************************************************************************)
EXTENDS EngineTrace

Reasons == {"NeverBuilt", "SignatureChanged", "InvalidValue", "InputRebuilt"}

Silent ==
  /\ l' = l
  /\ l <= Len(Log) /\ Loaded /\ alive
  /\ \/ \E r \in Keys, reason \in Reasons, d \in Keys \cup {None} : NeedsRun(r, reason, d)
     \/ \E r \in Keys : PriorValue(r, mem[r].value)
     \/ \E r \in Keys : \E pi \in Perms(Len(task[r].reqs)) : Causal(task[r], pi) /\ Finished(r, RecordedDeps(r, pi))
     \/ (ev.e = "Return" /\ SetIteration(epoch))

CNext == TraceNext \/ Silent
CSpec == TraceInit /\ [][CNext]_tvars
=============================================================================
