------------------------------ MODULE ExecQueue ------------------------------
(***************************************************************************)
(* Lane based execution queue and process life-cycle of llbuild (C16).     *)
(*                                                                         *)
(*   lib/Basic/LaneBasedExecutionQueue.cpp  (lanes, ready lists, cancel,   *)
(*                                           destructor, lane release)     *)
(*   lib/Basic/Subprocess.cpp               (spawn under the process-group *)
(*                                           mutex, poll loop, reaping,    *)
(*                                           status table)                 *)
(*   lib/Basic/SerialQueue.cpp              (= one lane, no priorities)    *)
(*                                                                         *)
(* One action per observable event (delegate callback, call-start /        *)
(* call-end of a client call) or per critical section of the queue that    *)
(* the harness cannot observe (Enqueue, Take, LaneWait, LaneExit,          *)
(* CancelSet, KillAll, DtorShutdown, PExit, PReap).  The scenario (lane    *)
(* count, scheduler, job scripts, child behaviours) is the value of the    *)
(* variable cfg: a constant of the run, supplied by the model-checking     *)
(* module or by the Reset line of a recorded trace.                        *)
(***************************************************************************)
EXTENDS Naturals, Sequences, FiniteSets, TLC

CONSTANT DtorWaitsBackground   \* TRUE: the destructor waits for the background waits of lane-released
                               \* processes (fix queue-dtor-background-wait); FALSE: the code as found

VARIABLES
  cfg,         \* [lanes, alg, bgmax, serial, jobs : j |-> [prio, ord, steps], procs : h |-> [...], client, auxcancel]
  jst,         \* job |-> "new" | "adding" | "queued" | "taken" | "started" | "body" | "bodydone" | "finished"
  cadd,        \* jobs whose addJob call by a client thread is in progress
  call,        \* job |-> the call its body is inside ([op, x]; NoStep when none)
  pcj,         \* job |-> index of the next step of its script
  ready,       \* normal-priority ready list (insertion order)
  readyP,      \* high-priority ready list (FIFO)
  lane,        \* lane |-> [pc : "idle" | "taken" | "started" | "body" | "bodydone" | "exited", job]
  waiting,     \* lanes blocked on readyJobsCondition
  cancelled,   \* cancelAllJobs took effect (flag set, process group closed)
  cancelling,  \* callers inside cancelAllJobs
  killed,      \* the kill-after-timeout thread has sent SIGKILL
  dtor,        \* "no" | "called" | "joining" | "returned"
  shutdown,
  executed,    \* job |-> number of times its body ran
  pst,         \* process |-> [st, delivered, written, fate, status, intSent, killSent, released, erred, ndone]
  bg           \* background (lane released) waits in progress

vars == <<cfg, jst, cadd, call, pcj, ready, readyP, lane, waiting, cancelled, cancelling, killed,
          dtor, shutdown, executed, pst, bg>>

Jobs  == DOMAIN cfg.jobs
Procs == DOMAIN cfg.procs
Lanes == 1..cfg.lanes
NoStep == [op |-> "none", x |-> ""]
IdleLane == [pc |-> "idle", job |-> ""]
IsClient(by) == by \in {"client", "aux"}

StepOf(j) == IF pcj[j] <= Len(cfg.jobs[j].steps) THEN cfg.jobs[j].steps[pcj[j]] ELSE NoStep
InBody(j) == jst[j] = "body"
Free(j) == InBody(j) /\ call[j] = NoStep

NewProc == [st |-> "none", delivered |-> 0, written |-> 0, fate |-> "", status |-> "", intSent |-> FALSE,
            killSent |-> FALSE, released |-> FALSE, erred |-> FALSE, ndone |-> 0]
InGroup(h) == pst[h].st \in {"live", "exited"}      \* spawned and not yet removed from the ProcessGroup

(* The documented status table (Subprocess.cpp:517-521, ProcessStatus in Subprocess.h) *)
StatusOf(f) == IF f = "exit0" THEN "succeeded"
               ELSE IF f \in {"sig2", "sig9"} THEN "cancelled"
               ELSE "failed"               \* non-zero exit, any other fatal signal, spawn error

(* How a child that was spawned can end: by its script; by the SIGINT of cancelAllJobs if it was in the group then *)
(* and may be interrupted; by the SIGKILL of the kill-after-timeout thread if it survived that.                    *)
CancelFates(h) ==
  LET d == cfg.procs[h]  p == pst[h] IN
    (IF p.intSent THEN {"sig2"} ELSE {})
    \cup (IF p.killSent /\ (d.ignint \/ ~d.canint) THEN {"sig9"} ELSE {})
(* The scripted end of an "untilcancel" child is only reachable after cancelAllJobs has returned (the harness lets it *)
(* go then).  If such a child was in the group when the cancellation took effect and may be interrupted, the SIGINT *)
(* was sent to it before that, so it cannot have met its scripted end: it must have been signalled.               *)
ScriptedAllowed(h) ==
  /\ cfg.procs[h].fate # "hang"
  /\ cfg.procs[h].untilcancel => (cancelled /\ ~pst[h].intSent)
AllowedFates(h) == (IF ScriptedAllowed(h) THEN {cfg.procs[h].fate} ELSE {}) \cup CancelFates(h)

---------------------------------------------------------------------------
(* addJob: call-start, the critical section, call-end *)
AddStart(j, by) ==
  /\ jst[j] = "new"
  /\ IF IsClient(by) THEN dtor = "no" ELSE Free(by) /\ StepOf(by) = [op |-> "add", x |-> j]
  /\ jst' = [jst EXCEPT ![j] = "adding"]
  /\ IF IsClient(by) THEN cadd' = cadd \cup {j} /\ call' = call
                     ELSE call' = [call EXCEPT ![by] = [op |-> "add", x |-> j]] /\ cadd' = cadd
  /\ UNCHANGED <<cfg, pcj, ready, readyP, lane, waiting, cancelled, cancelling, killed, dtor, shutdown, executed, pst, bg>>

(* readyJobsMutex held: push on the list chosen by the priority, notify_one *)
Enqueue(j, notify) ==
  /\ jst[j] = "adding"
  /\ jst' = [jst EXCEPT ![j] = "queued"]
  /\ IF cfg.jobs[j].prio = "H" /\ ~cfg.serial
       THEN readyP' = Append(readyP, j) /\ ready' = ready
       ELSE ready' = Append(ready, j) /\ readyP' = readyP
  /\ IF notify
       THEN \E w \in (IF waiting = {} THEN {0} ELSE waiting) : waiting' = waiting \ {w}
       ELSE waiting' = waiting          \* (only in the "lost notify" vacuity configuration)
  /\ UNCHANGED <<cfg, cadd, call, pcj, lane, cancelled, cancelling, killed, dtor, shutdown, executed, pst, bg>>

AddEnd(j, by) ==
  /\ jst[j] \notin {"new", "adding"}
  /\ IF IsClient(by)
       THEN j \in cadd /\ cadd' = cadd \ {j} /\ UNCHANGED <<call, pcj>>
       ELSE /\ call[by] = [op |-> "add", x |-> j]
            /\ call' = [call EXCEPT ![by] = NoStep]
            /\ pcj' = [pcj EXCEPT ![by] = @ + 1]
            /\ cadd' = cadd
  /\ UNCHANGED <<cfg, jst, ready, readyP, lane, waiting, cancelled, cancelling, killed, dtor, shutdown, executed, pst, bg>>

---------------------------------------------------------------------------
(* lanes (executeLane) *)
QueuesEmpty == ready = <<>> /\ readyP = <<>>
MaxOrd(s) == CHOOSE j \in {s[i] : i \in 1..Len(s)} : \A k \in {s[i] : i \in 1..Len(s)} : cfg.jobs[k].ord <= cfg.jobs[j].ord
NextJob == IF readyP # <<>> THEN Head(readyP)                  \* priority jobs first
           ELSE IF cfg.alg = "fifo" THEN Head(ready)
           ELSE MaxOrd(ready)                                  \* std::priority_queue with QueueJobLess: greatest name
Without(s, j) == SelectSeq(s, LAMBDA x : x # j)

LaneWait(l) ==
  /\ lane[l].pc = "idle" /\ l \notin waiting
  /\ QueuesEmpty /\ ~shutdown
  /\ waiting' = waiting \cup {l}
  /\ UNCHANGED <<cfg, jst, cadd, call, pcj, ready, readyP, lane, cancelled, cancelling, killed, dtor, shutdown, executed, pst, bg>>

Take(l) ==
  /\ lane[l].pc = "idle" /\ l \notin waiting
  /\ ~QueuesEmpty
  /\ LET j == NextJob IN
     /\ lane' = [lane EXCEPT ![l] = [pc |-> "taken", job |-> j]]
     /\ jst' = [jst EXCEPT ![j] = "taken"]
     /\ ready' = Without(ready, j) /\ readyP' = Without(readyP, j)
  /\ UNCHANGED <<cfg, cadd, call, pcj, waiting, cancelled, cancelling, killed, dtor, shutdown, executed, pst, bg>>

(* drainAll selects what a lane requires before it may exit: both lists empty (the code), or only the *)
(* normal one (the seeded defect C16_1, used as a vacuity configuration)                             *)
LaneExit(l, drainAll) ==
  /\ lane[l].pc = "idle" /\ l \notin waiting
  /\ shutdown /\ ready = <<>> /\ (drainAll => readyP = <<>>)
  /\ lane' = [lane EXCEPT ![l] = [pc |-> "exited", job |-> ""]]
  /\ UNCHANGED <<cfg, jst, cadd, call, pcj, ready, readyP, waiting, cancelled, cancelling, killed, dtor, shutdown, executed, pst, bg>>

JStart(l, j) ==          \* delegate.queueJobStarted
  /\ lane[l] = [pc |-> "taken", job |-> j]
  /\ lane' = [lane EXCEPT ![l].pc = "started"]
  /\ jst' = [jst EXCEPT ![j] = "started"]
  /\ UNCHANGED <<cfg, cadd, call, pcj, ready, readyP, waiting, cancelled, cancelling, killed, dtor, shutdown, executed, pst, bg>>

Body(l, j) ==            \* job.execute entered
  /\ lane[l] = [pc |-> "started", job |-> j]
  /\ lane' = [lane EXCEPT ![l].pc = "body"]
  /\ jst' = [jst EXCEPT ![j] = "body"]
  /\ executed' = [executed EXCEPT ![j] = @ + 1]
  /\ UNCHANGED <<cfg, cadd, call, pcj, ready, readyP, waiting, cancelled, cancelling, killed, dtor, shutdown, pst, bg>>

BodyEnd(l, j) ==         \* job.execute returns: the script is finished
  /\ lane[l] = [pc |-> "body", job |-> j]
  /\ call[j] = NoStep /\ pcj[j] > Len(cfg.jobs[j].steps)
  /\ lane' = [lane EXCEPT ![l].pc = "bodydone"]
  /\ jst' = [jst EXCEPT ![j] = "bodydone"]
  /\ UNCHANGED <<cfg, cadd, call, pcj, ready, readyP, waiting, cancelled, cancelling, killed, dtor, shutdown, executed, pst, bg>>

JFin(l, j) ==            \* delegate.queueJobFinished
  /\ lane[l] = [pc |-> "bodydone", job |-> j]
  /\ lane' = [lane EXCEPT ![l] = IdleLane]
  /\ jst' = [jst EXCEPT ![j] = "finished"]
  /\ UNCHANGED <<cfg, cadd, call, pcj, ready, readyP, waiting, cancelled, cancelling, killed, dtor, shutdown, executed, pst, bg>>

---------------------------------------------------------------------------
(* cancelAllJobs *)
CancelStart(by) ==
  /\ by \notin cancelling
  /\ IF IsClient(by) THEN dtor = "no" /\ call' = call
     ELSE Free(by) /\ StepOf(by).op = "cancel" /\ call' = [call EXCEPT ![by] = [op |-> "cancel", x |-> ""]]
  /\ cancelling' = cancelling \cup {by}
  /\ UNCHANGED <<cfg, jst, cadd, pcj, ready, readyP, lane, waiting, cancelled, killed, dtor, shutdown, executed, pst, bg>>

(* readyJobsMutex and the process-group mutex held: flag, close the group, notify_all; then SIGINT to every *)
(* member of the group that may be interrupted (signalAll, under the group mutex again)                     *)
CancelSet ==
  /\ cancelling # {} /\ ~cancelled
  /\ cancelled' = TRUE
  /\ waiting' = {}
  /\ pst' = [h \in Procs |-> IF InGroup(h) /\ cfg.procs[h].canint THEN [pst[h] EXCEPT !.intSent = TRUE] ELSE pst[h]]
  /\ UNCHANGED <<cfg, jst, cadd, call, pcj, ready, readyP, lane, cancelling, killed, dtor, shutdown, executed, bg>>

CancelEnd(by) ==
  /\ by \in cancelling /\ cancelled
  /\ cancelling' = cancelling \ {by}
  /\ IF IsClient(by) THEN UNCHANGED <<call, pcj>>
     ELSE call' = [call EXCEPT ![by] = NoStep] /\ pcj' = [pcj EXCEPT ![by] = @ + 1]
  /\ UNCHANGED <<cfg, jst, cadd, ready, readyP, lane, waiting, cancelled, killed, dtor, shutdown, executed, pst, bg>>

KillAll ==               \* killAfterTimeout: SIGKILL to whatever is still in the group
  /\ cancelled /\ ~killed
  /\ killed' = TRUE
  /\ pst' = [h \in Procs |-> IF InGroup(h) THEN [pst[h] EXCEPT !.killSent = TRUE] ELSE pst[h]]
  /\ UNCHANGED <<cfg, jst, cadd, call, pcj, ready, readyP, lane, waiting, cancelled, cancelling, dtor, shutdown, executed, bg>>

---------------------------------------------------------------------------
(* destructor *)
DtorStart ==
  /\ dtor = "no" /\ cadd = {} /\ ~(\E c \in cancelling : IsClient(c))
  /\ dtor' = "called"
  /\ UNCHANGED <<cfg, jst, cadd, call, pcj, ready, readyP, lane, waiting, cancelled, cancelling, killed, shutdown, executed, pst, bg>>

DtorShutdown ==          \* readyJobsMutex held: shutdown = true, notify_all
  /\ dtor = "called"
  /\ dtor' = "joining" /\ shutdown' = TRUE /\ waiting' = {}
  /\ UNCHANGED <<cfg, jst, cadd, call, pcj, ready, readyP, lane, cancelled, cancelling, killed, executed, pst, bg>>

DtorEnd ==               \* lanes joined, ~ProcessGroup: group empty (, background waits finished)
  /\ dtor = "joining"
  /\ \A l \in Lanes : lane[l].pc = "exited"
  /\ \A h \in Procs : ~InGroup(h)
  /\ DtorWaitsBackground => bg = 0
  /\ dtor' = "returned"
  /\ UNCHANGED <<cfg, jst, cadd, call, pcj, ready, readyP, lane, waiting, cancelled, cancelling, killed, shutdown, executed, pst, bg>>

---------------------------------------------------------------------------
(* process life-cycle, one instance per executeProcess call *)
PUnch0 == <<cfg, jst, cadd, ready, readyP, lane, waiting, cancelled, cancelling, killed, dtor, shutdown, executed>>
PUnch == <<PUnch0, pcj>>

ExecProc(h, j) ==        \* call-start of executeProcess
  /\ Free(j) /\ StepOf(j) = [op |-> "spawn", x |-> h]
  /\ pst[h].st = "none"
  /\ pst' = [pst EXCEPT ![h].st = "calling"]
  /\ call' = [call EXCEPT ![j] = [op |-> "spawn", x |-> h]]
  /\ UNCHANGED <<PUnch, bg>>

PRefused(h) ==           \* cancelled before the spawn: completion(Cancelled) and nothing else
  /\ pst[h].st = "calling" /\ cancelled
  /\ pst' = [pst EXCEPT ![h].st = "done", ![h].status = "cancelled", ![h].fate = "refused", ![h].ndone = @ + 1]
  /\ UNCHANGED <<PUnch, call, bg>>

PStartOk(h) ==           \* processStarted(pid), under the group mutex, group not closed
  /\ pst[h].st = "calling" /\ ~cancelled /\ ~cfg.procs[h].missing
  /\ pst' = [pst EXCEPT ![h].st = "live"]
  /\ UNCHANGED <<PUnch, call, bg>>

PStartFail(h) ==         \* processStarted(-1): posix_spawn failed
  /\ pst[h].st = "calling" /\ ~cancelled /\ cfg.procs[h].missing
  /\ pst' = [pst EXCEPT ![h].st = "spawnfail"]
  /\ UNCHANGED <<PUnch, call, bg>>

PSpawnErr(h) ==          \* processHadError("unable to spawn")
  /\ pst[h].st = "spawnfail"
  /\ pst' = [pst EXCEPT ![h].st = "failerr", ![h].erred = TRUE]
  /\ UNCHANGED <<PUnch, call, bg>>

PFailFin(h) ==           \* processFinished(Failed) on the spawn-error path
  /\ pst[h].st = "failerr"
  /\ pst' = [pst EXCEPT ![h].st = "finished", ![h].fate = "spawnerror", ![h].status = StatusOf("spawnerror")]
  /\ UNCHANGED <<PUnch, call, bg>>

POutput(h, n) ==         \* processHadOutput: the next n bytes of the stream
  /\ pst[h].st \in {"live", "exited"} /\ n > 0
  /\ pst[h].delivered + n <= (IF pst[h].st = "exited" THEN pst[h].written ELSE cfg.procs[h].size)
  /\ pst' = [pst EXCEPT ![h].delivered = @ + n]
  /\ UNCHANGED <<PUnch, call, bg>>

PCtlErr(h) ==            \* processHadError("control protocol error")
  /\ pst[h].st \in {"live", "exited"} /\ cfg.procs[h].badctl /\ ~pst[h].erred
  /\ pst' = [pst EXCEPT ![h].erred = TRUE]
  /\ UNCHANGED <<PUnch, call, bg>>

(* the child ends with fate f having written w bytes in all *)
ExitOK(h, f, w) ==
  /\ pst[h].st = "live"
  /\ f \in AllowedFates(h)
  /\ IF f \in CancelFates(h) THEN w \in pst[h].delivered..cfg.procs[h].size      \* cut short by the cancellation
                             ELSE w = cfg.procs[h].size                          \* ran its script to the end
  /\ (cfg.procs[h].mustrel /\ f \notin CancelFates(h)) => pst[h].released
PExit(h, f, w) ==
  /\ ExitOK(h, f, w)
  /\ pst' = [pst EXCEPT ![h].st = "exited", ![h].fate = f, ![h].written = w]
  /\ UNCHANGED <<PUnch, call, bg>>

PReap(h) ==              \* output drained to EOF, wait4, removed from the group
  /\ pst[h].st = "exited" /\ pst[h].delivered = pst[h].written
  /\ pst' = [pst EXCEPT ![h].st = "reaped"]
  /\ UNCHANGED <<PUnch, call, bg>>

PFinish(h) ==            \* processFinished(result)
  /\ pst[h].st = "reaped"
  /\ pst' = [pst EXCEPT ![h].st = "finished", ![h].status = StatusOf(pst[h].fate)]
  /\ UNCHANGED <<PUnch, call, bg>>

PDone(h) ==              \* completionFn(result)
  /\ pst[h].st = "finished"
  /\ pst' = [pst EXCEPT ![h].st = "done", ![h].ndone = @ + 1]
  /\ bg' = IF pst[h].released THEN bg - 1 ELSE bg
  /\ UNCHANGED <<PUnch, call>>

(* executeProcess returns: after the completion, or earlier when the child released its lane over the control *)
(* channel and a background slot was free                                                                    *)
ExecRet(h, j) ==
  /\ call[j] = [op |-> "spawn", x |-> h]
  /\ \/ /\ pst[h].st = "done"
        /\ UNCHANGED <<pst, bg>>
     \/ /\ pst[h].st \in {"live", "exited", "reaped", "finished"}
        /\ ~pst[h].released /\ cfg.procs[h].release /\ bg < cfg.bgmax
        /\ pst' = [pst EXCEPT ![h].released = TRUE]
        /\ bg' = bg + 1
  /\ call' = [call EXCEPT ![j] = NoStep]
  /\ pcj' = [pcj EXCEPT ![j] = @ + 1]
  /\ UNCHANGED PUnch0

---------------------------------------------------------------------------
InitWith(c) ==
  /\ cfg = c
  /\ jst = [j \in DOMAIN c.jobs |-> "new"] /\ cadd = {} /\ call = [j \in DOMAIN c.jobs |-> NoStep]
  /\ pcj = [j \in DOMAIN c.jobs |-> 1]
  /\ ready = <<>> /\ readyP = <<>>
  /\ lane = [l \in 1..c.lanes |-> IdleLane] /\ waiting = {}
  /\ cancelled = FALSE /\ cancelling = {} /\ killed = FALSE
  /\ dtor = "no" /\ shutdown = FALSE
  /\ executed = [j \in DOMAIN c.jobs |-> 0]
  /\ pst = [h \in DOMAIN c.procs |-> NewProc] /\ bg = 0

---------------------------------------------------------------------------
(* properties *)
AtMostOnce  == \A j \in Jobs : executed[j] <= 1
ExactlyOnce == dtor = "returned" => \A j \in Jobs : jst[j] # "new" => (executed[j] = 1 /\ jst[j] = "finished")
InFlight    == {j \in Jobs : jst[j] \in {"started", "body", "bodydone"}}
LaneBound   == /\ Cardinality(InFlight) <= cfg.lanes
               /\ Cardinality({h \in Procs : pst[h].st \in {"live", "exited", "reaped", "finished"} /\ ~pst[h].released}) <= cfg.lanes
BgBound     == bg <= cfg.bgmax
CompletionOnce == /\ \A h \in Procs : pst[h].ndone <= 1 /\ (pst[h].st = "done" <=> pst[h].ndone = 1)
                  /\ dtor = "returned" => \A h \in Procs : pst[h].st \in {"none", "done"}
OutputBeforeCompletion ==
  \A h \in Procs : pst[h].st \in {"reaped", "finished", "done"} /\ pst[h].fate \notin {"refused", "spawnerror"}
                      => pst[h].delivered = pst[h].written
StatusTable == \A h \in Procs : pst[h].st \in {"finished", "done"} /\ pst[h].fate # "refused" => pst[h].status = StatusOf(pst[h].fate)
ChildrenReaped == dtor = "returned" => \A h \in Procs : ~InGroup(h)
NoSpawnAfterCancel == [][\A h \in Procs : (pst[h].st = "calling" /\ pst'[h].st \in {"live", "spawnfail"}) => ~cancelled]_vars
QueueInvariants == AtMostOnce /\ ExactlyOnce /\ LaneBound /\ BgBound /\ CompletionOnce /\ OutputBeforeCompletion
                   /\ StatusTable /\ ChildrenReaped

---------------------------------------------------------------------------
(* closed system for model checking: a sequential client that adds cfg.client in order and then (with cfg.waitdone: *)
(* once every job has finished) destroys the                                                                    *)
(* queue, a canceller thread (cfg.auxcancel), jobs following their scripts, children following their definitions *)
CONSTANTS MCConfig, NotifyOnAdd, DrainPriority
HasHang == \E h \in Procs : cfg.procs[h].fate = "hang" \/ cfg.procs[h].untilcancel    \* such a queue is destroyed only after cancellation
ClientNext == LET rest == SelectSeq(cfg.client, LAMBDA j : jst[j] = "new") IN IF rest = <<>> THEN "" ELSE Head(rest)
ClientDone == ClientNext = "" /\ cadd = {}
AllJobsFinished == \A j \in Jobs : jst[j] = "finished"     \* cfg.waitdone: the client waits for its jobs, as the build engine does
Finished == dtor = "returned" /\ \A h \in Procs : pst[h].st \in {"none", "done"}

MCNextNoCancel ==
  \/ \E j \in Jobs : (cadd = {} /\ ClientNext = j /\ AddStart(j, "client")) \/ AddEnd(j, "client") \/ Enqueue(j, NotifyOnAdd)
  \/ \E j, by \in Jobs : AddStart(j, by) \/ AddEnd(j, by)
  \/ \E l \in Lanes : LaneWait(l) \/ Take(l) \/ LaneExit(l, DrainPriority)
  \/ \E l \in Lanes, j \in Jobs : JStart(l, j) \/ Body(l, j) \/ BodyEnd(l, j) \/ JFin(l, j)
  \/ \E by \in Jobs : CancelStart(by) \/ CancelEnd(by)
  \/ CancelEnd("aux") \/ CancelSet \/ KillAll
  \/ (ClientDone /\ (HasHang => cancelled) /\ (cfg.waitdone => AllJobsFinished) /\ DtorStart) \/ DtorShutdown \/ DtorEnd
  \/ \E h \in Procs, j \in Jobs : ExecProc(h, j) \/ ExecRet(h, j)
  \/ \E h \in Procs : PRefused(h) \/ PStartOk(h) \/ PStartFail(h) \/ PSpawnErr(h) \/ PFailFin(h) \/ POutput(h, 1) \/ PCtlErr(h)
                      \/ PReap(h) \/ PFinish(h) \/ PDone(h)
  \/ \E h \in Procs : \E f \in AllowedFates(h), w \in 0..cfg.procs[h].size : PExit(h, f, w)
MCCancel == cfg.auxcancel /\ ~cancelled /\ CancelStart("aux")
Terminated == Finished /\ UNCHANGED vars
MCNext == MCNextNoCancel \/ MCCancel \/ Terminated

MCInit == InitWith(MCConfig)
MCSpec == MCInit /\ [][MCNext]_vars /\ WF_vars(MCNextNoCancel)

(* the destructor returns, provided a child that never ends by itself is eventually cancelled *)
Termination == (HasHang => <>cancelled) => <>(dtor = "returned")
CancelReaps == cancelled ~> (\A h \in Procs : ~InGroup(h))
=============================================================================
