CONSTANTS
  DtorWaitsBackground = TRUE
  NotifyOnAdd = TRUE
  DrainPriority = TRUE
  MCConfig = 0
SPECIFICATION TraceSpec
INVARIANT QueueInvariants
CONSTRAINT Track
POSTCONDITION Post
CHECK_DEADLOCK FALSE
