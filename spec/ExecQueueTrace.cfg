CONSTANTS
  DtorWaitsBackground = TRUE
  NotifyOnAdd = TRUE
  DrainPriority = TRUE
  MCConfig = 0
SPECIFICATION TraceSpec
INVARIANTS AtMostOnce ExactlyOnce LaneBound BgBound CompletionOnce OutputBeforeCompletion StatusTable ChildrenReaped
CONSTRAINT Track
POSTCONDITION Post
CHECK_DEADLOCK FALSE
