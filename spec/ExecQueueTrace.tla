--------------------------- MODULE ExecQueueTrace ---------------------------
(***************************************************************************)
(* Trace specification: checks that an ndjson trace recorded from the real *)
(* execution queue (harness/queue_driver.cpp) is a behaviour of            *)
(* ExecQueue.tla.  One conjunct per logged event kind.  The critical       *)
(* sections the harness cannot observe are internal steps that consume no  *)
(* line: Enqueue (somewhere between AddStart and AddEnd), Take (somewhere  *)
(* between a lane's previous JFin and its JStart), CancelSet and KillAll   *)
(* (performed lazily: only when the next line needs them, which accepts    *)
(* exactly the same traces - see notes_c16.md).  Lane exits and the        *)
(* shutdown flag are folded into DtorEnd.  The thread index t of a lane    *)
(* thread (assigned by the driver at the thread's first job) is the lane.  *)
(*                                                                         *)
(* Acceptance: INVARIANT NotAccepted is "violated" iff every line of the   *)
(* trace was consumed.  Many executions are concatenated in one file, each *)
(* starting with a Reset line.                                             *)
(***************************************************************************)
EXTENDS ExecQueue, Json, IOUtils

Log == ndJsonDeserialize(IOEnv.TRACE)

VARIABLE l          \* index of the next line to consume
tvars == <<vars, l>>

ev == Log[l]
Is(e) == l <= Len(Log) /\ ev.e = e /\ l' = l + 1
NextIs(e) == l <= Len(Log) /\ ev.e = e

EmptyCfg == [lanes |-> 1, alg |-> "fifo", bgmax |-> 0, serial |-> FALSE, jobs |-> <<>>, procs |-> <<>>,
             client |-> <<>>, auxcancel |-> FALSE]

TReset ==
  /\ Is("Reset")
  /\ LET c == ev.cfg IN
     /\ cfg' = c
     /\ jst' = [j \in DOMAIN c.jobs |-> "new"] /\ cadd' = {} /\ call' = [j \in DOMAIN c.jobs |-> NoStep]
     /\ pcj' = [j \in DOMAIN c.jobs |-> 1]
     /\ ready' = <<>> /\ readyP' = <<>>
     /\ lane' = [k \in 1..c.lanes |-> IdleLane] /\ waiting' = {}
     /\ cancelled' = FALSE /\ cancelling' = {} /\ killed' = FALSE
     /\ dtor' = "no" /\ shutdown' = FALSE
     /\ executed' = [j \in DOMAIN c.jobs |-> 0]
     /\ pst' = [h \in DOMAIN c.procs |-> NewProc] /\ bg' = 0

IsLane(t) == t \in Lanes
IsJob(j) == j \in Jobs
IsProc(h) == h \in Procs

TAddStart    == Is("AddStart") /\ IsJob(ev.j) /\ AddStart(ev.j, ev.by)
TAddEnd      == Is("AddEnd") /\ IsJob(ev.j) /\ AddEnd(ev.j, ev.by)
TJStart      == Is("JStart") /\ IsLane(ev.t) /\ JStart(ev.t, ev.j)
TBody        == Is("Body") /\ IsLane(ev.t) /\ Body(ev.t, ev.j)
TBodyEnd     == Is("BodyEnd") /\ IsLane(ev.t) /\ BodyEnd(ev.t, ev.j)
TJFin        == Is("JFin") /\ IsLane(ev.t) /\ JFin(ev.t, ev.j)
TCancelStart == Is("CancelStart") /\ CancelStart(ev.by)
TCancelEnd   == Is("CancelEnd") /\ CancelEnd(ev.by)
TDtorStart   == Is("DtorStart") /\ DtorStart
(* DtorShutdown, every LaneExit and DtorEnd in one step *)
TDtorEnd ==
  /\ Is("DtorEnd")
  /\ dtor = "called"
  /\ \A k \in Lanes : lane[k].pc = "idle"
  /\ QueuesEmpty
  /\ \A h \in Procs : ~InGroup(h)
  /\ DtorWaitsBackground => bg = 0
  /\ dtor' = "returned" /\ shutdown' = TRUE
  /\ lane' = [k \in Lanes |-> [pc |-> "exited", job |-> ""]]
  /\ UNCHANGED <<cfg, jst, cadd, call, pcj, ready, readyP, waiting, cancelled, cancelling, killed, executed, pst, bg>>

TExecProc == Is("ExecProc") /\ IsProc(ev.h) /\ ExecProc(ev.h, ev.j)
TExecRet  == Is("ExecRet") /\ IsProc(ev.h) /\ ExecRet(ev.h, ev.j)
TPStarted == Is("PStarted") /\ IsProc(ev.h) /\ IF ev.ok THEN PStartOk(ev.h) ELSE PStartFail(ev.h)
TPErr     == /\ Is("PErr") /\ IsProc(ev.h)
             /\ \/ ev.cls = "spawn" /\ PSpawnErr(ev.h)
                \/ ev.cls = "control" /\ PCtlErr(ev.h)
TPOut     == Is("POut") /\ IsProc(ev.h) /\ ev.ok /\ ev.off = pst[ev.h].delivered /\ POutput(ev.h, ev.n)
(* PExit, PReap, PFinish in one step: the logged fate must be one the child could have met, everything it wrote *)
(* has been delivered, and the reported status is the table's                                                   *)
TPFinished ==
  /\ Is("PFinished") /\ IsProc(ev.h)
  /\ LET h == ev.h IN
     \/ /\ pst[h].st = "failerr" /\ ev.fate = "spawnerror" /\ ev.status = "failed"
        /\ PFailFin(h)
     \/ /\ ExitOK(h, ev.fate, pst[h].delivered)
        /\ ev.status = StatusOf(ev.fate)
        /\ pst' = [pst EXCEPT ![h].st = "finished", ![h].fate = ev.fate, ![h].written = pst[h].delivered, ![h].status = ev.status]
        /\ UNCHANGED <<PUnch, call, bg>>
TPDone ==
  /\ Is("PDone") /\ IsProc(ev.h)
  /\ IF pst[ev.h].st = "calling"
       THEN ev.status = "cancelled" /\ PRefused(ev.h)
       ELSE ev.status = pst[ev.h].status /\ PDone(ev.h)
TEnd ==
  /\ Is("End")
  /\ ev.launched = ev.completed
  /\ dtor = "returned"
  /\ \A j \in Jobs : jst[j] = "finished"
  /\ \A h \in Procs : pst[h].st = "done"
  /\ UNCHANGED vars

(* internal steps *)
IEnqueue == \E j \in Jobs : Enqueue(j, TRUE) /\ l' = l
ITake    == \E k \in Lanes : Take(k) /\ l' = l
NeedsCancel == \/ NextIs("CancelEnd")
               \/ NextIs("PDone") /\ IsProc(ev.h) /\ pst[ev.h].st = "calling"
               \/ NextIs("PFinished") /\ ev.fate \in {"sig2", "sig9"}
ICancelSet == NeedsCancel /\ CancelSet /\ l' = l
IKillAll   == NextIs("PFinished") /\ ev.fate = "sig9" /\ KillAll /\ l' = l

TraceInit ==
  /\ l = 1
  /\ InitWith(EmptyCfg)
  /\ TLCSet(1, 0)

TraceNext ==
  \/ TReset \/ TAddStart \/ TAddEnd \/ TJStart \/ TBody \/ TBodyEnd \/ TJFin \/ TCancelStart \/ TCancelEnd
  \/ TDtorStart \/ TDtorEnd \/ TExecProc \/ TExecRet \/ TPStarted \/ TPErr \/ TPOut \/ TPFinished \/ TPDone \/ TEnd
  \/ IEnqueue \/ ITake \/ ICancelSet \/ IKillAll

TraceSpec == TraceInit /\ [][TraceNext]_tvars

NotAccepted == l <= Len(Log)
Track == IF l > TLCGet(1) THEN TLCSet(1, l) ELSE TRUE
Post == PrintT(<<"MAXL", TLCGet(1), Len(Log)>>) /\ TLCGet(1) > Len(Log)
=============================================================================
