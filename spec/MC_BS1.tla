------------------------------- MODULE MC_BS1 -------------------------------
(* Description family 1: a chain with a discovered header, a multi-output command, a phony aggregator,   *)
(* description edits (command changed / rewired / removed so that a produced node becomes a source),     *)
(* failing commands.                                                                                      *)
EXTENDS BuildSystemMC

F(t, c, par) == [t |-> t, c |-> c, s |-> 1, par |-> par, hid |-> <<>>]
FS0 == [p \in {"a", "b", "h", "m", "o1", "o2", "o3", "gen", "gen/o4"} |->
          CASE p \in {"a", "b", "h"} -> F("file", "0", "")
            [] p = "gen/o4" -> F("none", "", "gen")
            [] OTHER -> F("none", "", "")]
ND(kind, path) == [kind |-> kind, path |-> path, filt |-> <<>>]
Nodes == [n \in {"a", "b", "h", "m", "o1", "o2", "o3", "gen/o4", "<all>"} |->
            IF n = "<all>" THEN ND("virtual", "") ELSE ND("file", n)]
Sh(ins, outs, tag, sigx, reads, failif) ==
  [tool |-> "shell", ins |-> ins, outs |-> outs, sigx |-> sigx, aood |-> FALSE, ami |-> FALSE, amo |-> FALSE,
   tag |-> tag, keep |-> FALSE, reads |-> reads, depsok |-> TRUE, failif |-> failif, failpt |-> "before", expected |-> <<>>, roots |-> <<>>]
Phony(ins, outs) == [Sh(ins, outs, "", 0, <<>>, "") EXCEPT !.tool = "phony"]
NoPaths == <<>>
D(cmds, tgt) == [cmds |-> cmds, nodes |-> Nodes, targets |-> [t |-> tgt], paths |-> NoPaths]

C1  == Sh(<<"a">>, <<"o1">>, "c1", 1, <<"h">>, "")
C1x == Sh(<<"a">>, <<"o1">>, "c1x", 2, <<"h">>, "")           \* arguments changed
C1f == Sh(<<"a">>, <<"o1">>, "c1", 1, <<"h">>, "m")           \* fails while marker m exists
C1m == Sh(<<"a">>, <<"o1", "o3">>, "c1", 1, <<>>, "")          \* two outputs
C1k == [C1 EXCEPT !.keep = TRUE, !.sigx = 3]               \* write-if-changed variant
C2  == Sh(<<"o1", "b">>, <<"o2">>, "c2", 1, <<>>, "")
C2r == Sh(<<"o1", "a">>, <<"o2">>, "c2", 1, <<>>, "")          \* rewired
C3  == Sh(<<"o3">>, <<"gen/o4">>, "c3", 1, <<>>, "")
C3c == Sh(<<"o2">>, <<"o3">>, "c3", 1, <<>>, "")               \* third link of a chain c1 -> c2 -> c3
CAll == Phony(<<"o2", "gen/o4">>, <<"<all>">>)

DA == D([c1 |-> C1, c2 |-> C2], <<"o2">>)
DB == D([c1 |-> C1x, c2 |-> C2], <<"o2">>)
DC == D([c1 |-> C1, c2 |-> C2r], <<"o2">>)
DD == D([c2 |-> C2], <<"o2">>)                                  \* c1 removed: o1 is now a source
DE == D([c1 |-> C1f, c2 |-> C2], <<"o2">>)
DF == D([c1 |-> C1m, c2 |-> C2, c3 |-> C3, all |-> CAll], <<"<all>">>)
DG == D([c1 |-> C1m, c2 |-> C2, c3 |-> C3, all |-> CAll], <<"o2">>)
DK == D([c1 |-> C1k, c2 |-> C2], <<"o2">>)

DH == D([c1 |-> C1f, c2 |-> C2, c3 |-> C3c], <<"o3">>)          \* failing head of a chain of three (delegate refusals in between)
AllDescs == {DA, DB, DC, DD, DE, DF, DG, DK}
Init08 == {DA, DF}
Init09 == {DA, DB, DC}
Init10 == {DE, DH}
Init11 == {DA, DK}
Skip10 == {{}, {"c1"}, {"c2"}}
TargetKeys == {TK("t")}
NodeTargets == {TK("t"), NK("o1")}
=============================================================================
