CONSTANTS
  Descs <- AllDescs
  InitDescs <- Init09
  InitFS <- FS0
  Editable = {"a"}
  Deletable = {"o1"}
  Targets <- TargetKeys
  MaxSteps = 5
  MaxBuilds = 3
  MaxEdits = 1
  MaxSwitch = 2
  WithDB = {TRUE, FALSE}
INIT MCInit
NEXT MCNext
INVARIANT OutputsClean
INVARIANT NullBuildRunsNothing
INVARIANT FailureStops
INVARIANT FailureRetried
INVARIANT NoSpuriousRerun
INVARIANT SeenCurrent
INVARIANT EpochSane
CHECK_DEADLOCK FALSE
