CONSTANTS
  Descs <- AllDescs
  InitDescs <- Init09
  InitFS <- FS0
  Editable = {"a", "o1"}
  Deletable = {"o1"}
  Targets <- TargetKeys
  MaxSteps = 6
  MaxBuilds = 3
  MaxEdits = 2
  MaxSwitch = 2
  WithDB = {TRUE, FALSE}
INIT MCInit
NEXT MCNext
INVARIANT OutputsClean
INVARIANT NullBuildRunsNothing
INVARIANT FailureStops
INVARIANT FailureRetried
INVARIANT NoSpuriousRerun
INVARIANT SeenCurrent
INVARIANT EpochSane
CHECK_DEADLOCK FALSE
