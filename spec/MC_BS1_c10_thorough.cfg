CONSTANTS
  Descs <- AllDescs
  InitDescs <- Init10
  InitFS <- FS0
  Editable = {"a"}
  Deletable = {"m", "o1"}
  Targets <- NodeTargets
  MaxSteps = 7
  MaxBuilds = 4
  MaxEdits = 3
  MaxSwitch = 0
  WithDB = {TRUE}
  SkipSets <- Skip10
INIT MCInit
NEXT MCNext
INVARIANT OutputsClean
INVARIANT NullBuildRunsNothing
INVARIANT FailureStops
INVARIANT FailureRetried
INVARIANT NoSpuriousRerun
INVARIANT SeenCurrent
INVARIANT EpochSane
CHECK_DEADLOCK FALSE
