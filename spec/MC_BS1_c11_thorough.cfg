CONSTANTS
  Descs <- AllDescs
  InitDescs <- Init11
  InitFS <- FS0
  Editable = {"h", "a"}
  Deletable = {"h", "o1"}
  Targets <- TargetKeys
  MaxSteps = 8
  MaxBuilds = 4
  MaxEdits = 4
  MaxSwitch = 0
  WithDB = {TRUE}
INIT MCInit
NEXT MCNext
INVARIANT OutputsClean
INVARIANT NullBuildRunsNothing
INVARIANT FailureStops
INVARIANT FailureRetried
INVARIANT NoSpuriousRerun
INVARIANT SeenCurrent
INVARIANT EpochSane
CHECK_DEADLOCK FALSE
