CONSTANTS
  Descs <- AllDescs
  InitDescs <- Init08
  InitFS <- FS0
  Editable = {"a", "h", "o1"}
  Deletable = {"h", "m", "o1", "o2"}
  Targets <- NodeTargets
  MaxSteps = 6
  MaxBuilds = 3
  MaxEdits = 2
  MaxSwitch = 1
  WithDB = {TRUE, FALSE}
INIT MCInit
NEXT MCNext
INVARIANT OutputsClean
INVARIANT NullBuildRunsNothing
INVARIANT FailureStops
INVARIANT FailureRetried
INVARIANT NoSpuriousRerun
INVARIANT SeenCurrent
INVARIANT EpochSane
CHECK_DEADLOCK FALSE
