------------------------------- MODULE MC_BS2 -------------------------------
(* Description family 2 (C12): a command consuming a directory - as a tree signature, as a tree signature   *)
(* with exclusion patterns, or as a structure signature - over trees of depth 3 with all single edits.     *)
EXTENDS BuildSystemMC
F(t, c, par, hid) == [t |-> t, c |-> c, s |-> 1, par |-> par, hid |-> hid]
FS0 == [p \in {"a", "o", "d", "d/f", "d/.h", "d/new", "d/s", "d/s/g", "d/s/n2", "d/s/t", "d/s/t/k"} |->
          CASE p = "a" -> F("file", "0", "", <<>>)
            [] p = "o" -> F("none", "", "", <<>>)
            [] p = "d" -> F("dir", "", "", <<>>)
            [] p = "d/f" -> F("file", "0", "d", <<>>)
            [] p = "d/.h" -> F("file", "0", "d", <<".*">>)
            [] p = "d/new" -> F("none", "", "d", <<>>)
            [] p = "d/s" -> F("dir", "", "d", <<>>)
            [] p = "d/s/g" -> F("file", "0", "d/s", <<>>)
            [] p = "d/s/n2" -> F("none", "", "d/s", <<>>)
            [] p = "d/s/t" -> F("dir", "", "d/s", <<>>)
            [] OTHER -> F("file", "0", "d/s/t", <<>>)]
Nodes == [n \in {"a", "o", "d/", "df/", "ds/"} |->
            CASE n = "d/" -> [kind |-> "dir", path |-> "d", filt |-> <<>>]
              [] n = "df/" -> [kind |-> "dir", path |-> "d", filt |-> <<".*">>]
              [] n = "ds/" -> [kind |-> "dirstruct", path |-> "d", filt |-> <<>>]
              [] OTHER -> [kind |-> "file", path |-> n, filt |-> <<>>]]
Sh(ins) == [tool |-> "shell", ins |-> ins, outs |-> <<"o">>, sigx |-> 1, aood |-> FALSE, ami |-> FALSE, amo |-> FALSE,
            tag |-> "c", keep |-> FALSE, reads |-> <<>>, depsok |-> TRUE, failif |-> "", failpt |-> "before", expected |-> <<>>, roots |-> <<>>]
D(ins) == [cmds |-> [c |-> Sh(ins)], nodes |-> Nodes, targets |-> [t |-> <<"o">>], paths |-> <<>>]
AllDescs == {D(<<"d/">>), D(<<"df/">>), D(<<"ds/">>), D(<<"a", "d/">>)}
TargetKeys == {TK("t")}
=============================================================================
