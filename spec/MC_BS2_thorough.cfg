CONSTANTS
  Descs <- AllDescs
  InitDescs <- AllDescs
  InitFS <- FS0
  Editable = {"d/f", "d/.h", "d/s/g", "d/s/t/k", "a"}
  Deletable = {"d/f", "d/.h", "d/new", "d/s", "d/s/g", "d/s/n2", "d/s/t", "d/s/t/k"}
  Targets <- TargetKeys
  MaxSteps = 6
  MaxBuilds = 3
  MaxEdits = 3
  MaxSwitch = 1
  WithDB = {TRUE}
INIT MCInit
NEXT MCNext
INVARIANT OutputsClean
INVARIANT NullBuildRunsNothing
INVARIANT NoSpuriousRerun
INVARIANT SeenCurrent
INVARIANT EpochSane
CHECK_DEADLOCK FALSE
