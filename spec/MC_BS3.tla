------------------------------- MODULE MC_BS3 -------------------------------
(* Description family 3 (C14): a stale-file-removal command whose expected list and roots change from one   *)
(* description to the next, next to an ordinary producer.                                                  *)
EXTENDS BuildSystemMC
F(t, c, par) == [t |-> t, c |-> c, s |-> 1, par |-> par, hid |-> <<>>]
FS0 == [p \in {"a", "o", "st", "st/a", "st/b", "st/sub", "st/sub/c", "st2", "st2/d", "stx"} |->
          CASE p \in {"st", "st/sub", "st2"} -> F("dir", "", IF p = "st/sub" THEN "st" ELSE "")
            [] p = "o" -> F("none", "", "")
            [] p \in {"st/a", "st/b"} -> F("file", "0", "st")
            [] p = "st/sub/c" -> F("file", "0", "st/sub")
            [] p = "st2/d" -> F("file", "0", "st2")
            [] OTHER -> F("file", "0", "")]
Nodes == [n \in {"a", "o", "<rm>"} |-> IF n = "<rm>" THEN [kind |-> "virtual", path |-> "", filt |-> <<>>] ELSE [kind |-> "file", path |-> n, filt |-> <<>>]]
(* path strings as the description spells them: absolute (@ = the sandbox), relative, with a trailing separator *)
P(abs, comps, key) == [abs |-> abs, comps |-> comps, key |-> key]
Paths == [p \in {"@/st/a", "@/st/b", "@/st/sub/c", "@/st2/d", "@/stx", "st/a", "@/st", "@/st/", "@/st/sub", "@/s", "@/st2/"} |->
            CASE p = "@/st/a" -> P(TRUE, <<"@", "st", "a">>, "st/a")
              [] p = "@/st/b" -> P(TRUE, <<"@", "st", "b">>, "st/b")
              [] p = "@/st/sub/c" -> P(TRUE, <<"@", "st", "sub", "c">>, "st/sub/c")
              [] p = "@/st2/d" -> P(TRUE, <<"@", "st2", "d">>, "st2/d")
              [] p = "@/stx" -> P(TRUE, <<"@", "stx">>, "stx")
              [] p = "st/a" -> P(FALSE, <<"st", "a">>, "st/a")
              [] p = "@/st" -> P(TRUE, <<"@", "st">>, "st")
              [] p = "@/st/" -> P(TRUE, <<"@", "st">>, "st")
              [] p = "@/st/sub" -> P(TRUE, <<"@", "st", "sub">>, "st/sub")
              [] p = "@/s" -> P(TRUE, <<"@", "s">>, "")
              [] OTHER -> P(TRUE, <<"@", "st2">>, "st2")]
Base == [tool |-> "shell", ins |-> <<"a">>, outs |-> <<"o">>, sigx |-> 1, aood |-> FALSE, ami |-> FALSE, amo |-> FALSE,
         tag |-> "c", keep |-> FALSE, reads |-> <<>>, depsok |-> TRUE, failif |-> "", failpt |-> "before", expected |-> <<>>, roots |-> <<>>]
Stale(exp, roots) == [Base EXCEPT !.tool = "stale", !.ins = <<>>, !.outs = <<"<rm>">>, !.sigx = 0, !.expected = exp, !.roots = roots]
D(exp, roots) == [cmds |-> [c |-> Base, rm |-> Stale(exp, roots)], nodes |-> Nodes, targets |-> [t |-> <<"o", "<rm>">>], paths |-> Paths]
Exps == {<<"@/st/a", "@/st/b", "@/st/sub/c", "@/st2/d">>, <<"@/st/a", "@/stx", "st/a">>, <<"@/st/b">>, <<"@/st/sub", "@/st2/d">>, <<>>}
Roots == {<<>>, <<"@/st">>, <<"@/st/">>, <<"@/st/sub", "@/st2/">>, <<"@/s">>}
AllDescs == {D(e, r) : e \in Exps, r \in Roots}
TargetKeys == {TK("t")}
=============================================================================
