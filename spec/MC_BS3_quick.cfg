CONSTANTS
  Descs <- AllDescs
  InitDescs <- AllDescs
  InitFS <- FS0
  Editable = {"a"}
  Deletable = {"st/a"}
  Targets <- TargetKeys
  MaxSteps = 5
  MaxBuilds = 3
  MaxEdits = 1
  MaxSwitch = 2
  WithDB = {TRUE, FALSE}
INIT MCInit
NEXT MCNext
INVARIANT OutputsClean
INVARIANT StaleOnlyObsolete
INVARIANT StaleAllObsolete
INVARIANT EpochSane
CHECK_DEADLOCK FALSE
