CONSTANTS
  Descs <- AllDescs
  InitDescs <- AllDescs
  InitFS <- FS0
  Editable = {"a"}
  Deletable = {"st/a", "st/sub"}
  Targets <- TargetKeys
  MaxSteps = 7
  MaxBuilds = 4
  MaxEdits = 1
  MaxSwitch = 3
  WithDB = {TRUE, FALSE}
INIT MCInit
NEXT MCNext
INVARIANT OutputsClean
INVARIANT StaleOnlyObsolete
INVARIANT StaleAllObsolete
INVARIANT EpochSane
CHECK_DEADLOCK FALSE
