------------------------------- MODULE MC_BS4 -------------------------------
(* Description family 4: the documented idiom for a file that is modified in place                       *)
(* (tests/BuildSystem/Build/mutable-outputs.llbuild): `mk` creates "mo" (is-mutated) and a command        *)
(* timestamp, `mu` consumes the timestamp and appends to "mo"; a plain consumer `c2` of an ordinary       *)
(* output next to them.  Variants: mk's arguments changed (DMx), mu's tag changed (DMu: only the          *)
(* modifying half re-runs - the documented weakness), the idiom without the timestamp edge (DMn: the       *)
(* modifying half is NOT re-run when the file is re-created - why the timestamp is needed).               *)
EXTENDS BuildSystemMC

F(t, c, par) == [t |-> t, c |-> c, s |-> 1, par |-> par, hid |-> <<>>]
FS0 == [p \in {"a", "b", "m", "mo", "o1", "o2"} |->
          CASE p \in {"a", "b"} -> F("file", "0", "")
            [] OTHER -> F("none", "", "")]
ND(kind, path) == [kind |-> kind, path |-> path, filt |-> <<>>]
Nodes == [n \in {"a", "b", "m", "mo", "o1", "o2", "<ts>", "<mu>"} |->
            CASE n = "<ts>" -> [kind |-> "virtual", path |-> "", filt |-> <<>>, ts |-> TRUE, mut |-> FALSE]
              [] n = "<mu>" -> ND("virtual", "")
              [] n = "mo" -> [kind |-> "file", path |-> "mo", filt |-> <<>>, ts |-> FALSE, mut |-> TRUE]
              [] OTHER -> ND("file", n)]
Sh(ins, outs, tag, sigx, failif) ==
  [tool |-> "shell", ins |-> ins, outs |-> outs, sigx |-> sigx, aood |-> FALSE, ami |-> FALSE, amo |-> FALSE,
   tag |-> tag, keep |-> FALSE, reads |-> <<>>, depsok |-> TRUE, failif |-> failif, failpt |-> "before", expected |-> <<>>, roots |-> <<>>,
   mutates |-> ""]
NoPaths == <<>>
D(cmds, tgt) == [cmds |-> cmds, nodes |-> Nodes, targets |-> [t |-> tgt], paths |-> NoPaths]

MK  == Sh(<<"a">>, <<"mo", "<ts>">>, "mk", 1, "")
MKx == Sh(<<"a">>, <<"mo", "<ts>">>, "mkx", 2, "")
MKf == Sh(<<"a">>, <<"mo", "<ts>">>, "mk", 1, "m")               \* fails while marker m exists
MU  == [Sh(<<"<ts>">>, <<"<mu>">>, "mu", 1, "") EXCEPT !.mutates = "mo"]
MUu == [Sh(<<"<ts>">>, <<"<mu>">>, "muu", 2, "") EXCEPT !.mutates = "mo"]
MUn == [Sh(<<"b">>, <<"<mu>">>, "mu", 1, "") EXCEPT !.mutates = "mo"]     \* no edge from the creating command at all
C1  == Sh(<<"b">>, <<"o1">>, "c1", 1, "")
C2  == Sh(<<"o1">>, <<"o2">>, "c2", 1, "")

DM  == D([mk |-> MK,  mu |-> MU,  c1 |-> C1, c2 |-> C2], <<"<mu>", "o2">>)
DMx == D([mk |-> MKx, mu |-> MU,  c1 |-> C1, c2 |-> C2], <<"<mu>", "o2">>)
DMf == D([mk |-> MKf, mu |-> MU,  c1 |-> C1, c2 |-> C2], <<"<mu>", "o2">>)
DMu == D([mk |-> MK,  mu |-> MUu, c1 |-> C1, c2 |-> C2], <<"<mu>", "o2">>)
DMn == D([mk |-> MK,  mu |-> MUn, c1 |-> C1, c2 |-> C2], <<"<mu>", "o2">>)

Sound == {DM, DMx, DMf}           \* descriptions between which the idiom keeps its promise
AllDescs == {DM, DMx, DMf, DMu}
TargetKeys == {TK("t")}
Skip4 == {{}, {"mk"}, {"mu"}}
Creat4 == {"m", "o1"}        \* (re-creating "mo" by hand is editing it behind the build system's back)

(* the promise of the idiom: after a successful build the file is what the creating command writes from the   *)
(* current inputs, modified exactly once by the current modifying command - as long as nobody edits the file  *)
(* behind the build system's back (Editable excludes "mo"; deleting it is allowed) and only descriptions of   *)
(* `Sound` were ever loaded                                                                                    *)
InPlaceOnce ==
  (IsBuild /\ last.ok /\ last.dskipped = {} /\ desc \in Sound) =>
     fs["mo"].t = "file" /\ fs["mo"].c = BodyText(fs, "mk", 1) \o "+" \o Cmd("mu").tag
(* ... and the two halves run together (the modifying half alone only to catch up after a build in which it was *)
(* refused, failed or did not exist)                                                                            *)
RunTogether ==
  (IsBuild /\ last.ok /\ last.dskipped = {} /\ desc \in Sound) =>
     /\ "mk" \in RanSet => "mu" \in RanSet
     /\ ("mu" \in RanSet /\ Get(last.mem0, CK("mu")).val.k = "SuccessfulCommand" /\ Get(last.mem0, CK("mu")).sig = CmdSig("mu"))
           => "mk" \in RanSet
=============================================================================
