CONSTANTS
  Descs <- Sound
  InitDescs <- Sound
  InitFS <- FS0
  Editable = {"a", "b"}
  Deletable = {"mo", "m", "o1"}
  Targets <- TargetKeys
  MaxSteps = 6
  MaxBuilds = 3
  MaxEdits = 2
  MaxSwitch = 1
  WithDB = {TRUE}
  SkipSets <- Skip4
  Creatable <- Creat4
INIT MCInit
NEXT MCNext
INVARIANT InPlaceOnce
INVARIANT RunTogether
INVARIANT OutputsClean
INVARIANT NullBuildRunsNothing
INVARIANT FailureStops
INVARIANT FailureRetried
INVARIANT NoSpuriousRerun
INVARIANT SeenCurrent
INVARIANT EpochSane
CHECK_DEADLOCK FALSE
