------------------------------- MODULE MC_BS5 -------------------------------
(* Description family 5 (C12): a command `cw` writes a file INTO a directory another command `c` consumes as a   *)
(* tree; the directory node lists the written file under must-scan-after-paths, so the writer is brought up to     *)
(* date before the directory is looked at (tests/BuildSystem/Build/directory-input-must-scan-after-paths.llbuild). *)
(* Variants: the writer's arguments changed (DWx), a filtered tree (DWf), the same without the attribute (DN:      *)
(* nothing demands the writer - the consumer sees whatever is there).                                              *)
EXTENDS BuildSystemMC
F(t, c, par, hid) == [t |-> t, c |-> c, s |-> 1, par |-> par, hid |-> hid]
FS0 == [p \in {"a", "b", "o", "d", "d/f", "d/w", "d/s", "d/s/g"} |->
          CASE p \in {"a", "b"} -> F("file", "0", "", <<>>)
            [] p = "o" -> F("none", "", "", <<>>)
            [] p = "d" -> F("dir", "", "", <<>>)
            [] p = "d/f" -> F("file", "0", "d", <<>>)
            [] p = "d/w" -> F("none", "", "d", <<>>)
            [] p = "d/s" -> F("dir", "", "d", <<>>)
            [] OTHER -> F("file", "0", "d/s", <<>>)]
Nodes == [n \in {"a", "b", "o", "d/w", "dm/", "dmf/", "d/"} |->
            CASE n = "dm/" -> [kind |-> "dir", path |-> "d", filt |-> <<>>, msa |-> <<"d/w">>]
              [] n = "dmf/" -> [kind |-> "dir", path |-> "d", filt |-> <<".*">>, msa |-> <<"d/w">>]
              [] n = "d/" -> [kind |-> "dir", path |-> "d", filt |-> <<>>]
              [] OTHER -> [kind |-> "file", path |-> n, filt |-> <<>>]]
Sh(ins, outs, tag, sigx) ==
  [tool |-> "shell", ins |-> ins, outs |-> outs, sigx |-> sigx, aood |-> FALSE, ami |-> FALSE, amo |-> FALSE,
   tag |-> tag, keep |-> FALSE, reads |-> <<>>, depsok |-> TRUE, failif |-> "", failpt |-> "before", expected |-> <<>>, roots |-> <<>>]
D(cmds) == [cmds |-> cmds, nodes |-> Nodes, targets |-> [t |-> <<"o">>], paths |-> <<>>]
CW  == Sh(<<"a">>, <<"d/w">>, "cw", 1)
CWx == Sh(<<"a">>, <<"d/w">>, "cwx", 2)
CWk == [CW EXCEPT !.keep = TRUE, !.sigx = 3]            \* write-if-changed writer
DW  == D([cw |-> CW,  c |-> Sh(<<"dm/", "b">>, <<"o">>, "c", 1)])
DWx == D([cw |-> CWx, c |-> Sh(<<"dm/", "b">>, <<"o">>, "c", 1)])
DWk == D([cw |-> CWk, c |-> Sh(<<"dm/", "b">>, <<"o">>, "c", 1)])
DWf == D([cw |-> CW,  c |-> Sh(<<"dmf/", "b">>, <<"o">>, "c", 1)])
DN  == D([cw |-> CW,  c |-> Sh(<<"d/", "b">>, <<"o">>, "c", 1)])
AllDescs == {DW, DWx, DWk, DWf}
TargetKeys == {TK("t")}

(* the point of the attribute: after a successful build the written file is what the writer produces from the      *)
(* current input, and (SeenCurrent) the consumer last ran on exactly the tree that is there now                    *)
WriterCurrent ==
  (IsBuild /\ last.ok /\ last.dskipped = {}) => fs["d/w"].t = "file" /\ fs["d/w"].c = BodyText(fs, "cw", 1)
=============================================================================
