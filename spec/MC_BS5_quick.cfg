CONSTANTS
  Descs <- AllDescs
  InitDescs <- AllDescs
  InitFS <- FS0
  Editable = {"a", "d/f", "d/w"}
  Deletable = {"d/w", "d/s/g"}
  Targets <- TargetKeys
  MaxSteps = 5
  MaxBuilds = 3
  MaxEdits = 2
  MaxSwitch = 1
  WithDB = {TRUE}
INIT MCInit
NEXT MCNext
INVARIANT WriterCurrent
INVARIANT OutputsClean
INVARIANT NullBuildRunsNothing
INVARIANT NoSpuriousRerun
INVARIANT SeenCurrent
INVARIANT EpochSane
CHECK_DEADLOCK FALSE
