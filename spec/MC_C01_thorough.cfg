CONSTANTS
  Keys <- K
  Leaves <- L
  Programs <- Progs
  MaxBuilds = 3
  MaxMutates = 2
  MaxRestarts = 2
  MaxCancels = 0
  MaxCrashes = 0
  WithDB = {TRUE, FALSE}
  Vers = {1}
  CycleLists <- CL
  Reprog = "any"
INIT MCInit
NEXT MCNext
INVARIANT CleanResult
INVARIANT FreshInputs
INVARIANT AtMostOnce
INVARIANT NullBuild
INVARIANT Justified
INVARIANT NoStall
INVARIANT NoFalseCycle
INVARIANT DBConsistent
INVARIANT EpochSane
CHECK_DEADLOCK FALSE
