CONSTANTS
  Keys <- K
  Leaves <- L
  Programs <- Progs
  MaxBuilds = 2
  MaxMutates = 2
  MaxRestarts = 0
  MaxCancels = 0
  MaxCrashes = 0
  WithDB = {FALSE}
  Vers = {1}
  CycleLists <- CL
  Reprog = "same"
INIT MCInit
NEXT MCNext
INVARIANT CleanResult
INVARIANT FreshInputs
INVARIANT AtMostOnce
INVARIANT NullBuild
INVARIANT Justified
INVARIANT NoStall
INVARIANT NoFalseCycle
INVARIANT DBConsistent
INVARIANT EpochSane
CHECK_DEADLOCK FALSE
