CONSTANTS
  Keys <- K
  Leaves <- L
  Programs <- Progs
  MaxBuilds = 2
  MaxMutates = 1
  MaxRestarts = 1
  MaxCancels = 0
  MaxCrashes = 0
  WithDB = {TRUE}
  Vers = {1}
  CycleLists <- CL
  Reprog = "one"
INIT MCInit
NEXT MCNext
INVARIANT CleanResult
INVARIANT FreshInputs
INVARIANT AtMostOnce
INVARIANT Justified
INVARIANT NoStall
INVARIANT NoFalseCycle
INVARIANT DBConsistent
INVARIANT EpochSane
CHECK_DEADLOCK FALSE
