------------------------------- MODULE MC_C16 -------------------------------
(* Model-checking scenarios for ExecQueue.tla (C16).  Each scenario is one value of cfg; a configuration checks *)
(* a set of them (several initial states in one TLC run).                                                       *)
EXTENDS ExecQueue

S(op, x) == [op |-> op, x |-> x]
J(prio, ord, steps) == [prio |-> prio, ord |-> ord, steps |-> steps]
(* child: size (chunks of output), fate, interruptible, ignores SIGINT, releases its lane, missing binary *)
P(size, fate, canint, ignint, release, missing) ==
  [size |-> size, fate |-> fate, canint |-> canint, ignint |-> ignint, release |-> release, mustrel |-> FALSE,
   missing |-> missing, badctl |-> FALSE, untilcancel |-> FALSE]
U(p) == [p EXCEPT !.untilcancel = TRUE]     \* the child's scripted end is only reachable once cancelAllJobs has returned
Q(lanes, alg, bgmax, aux, client, jobs, procs) ==
  [lanes |-> lanes, alg |-> alg, bgmax |-> bgmax, serial |-> FALSE, auxcancel |-> aux, client |-> client, jobs |-> jobs, procs |-> procs,
   waitdone |-> FALSE]
W(c) == [c EXCEPT !.waitdone = TRUE]        \* the client waits for all jobs before it destroys the queue
NoProcs == [h \in {} |-> 0]

(* nested add of a priority job that cancels from inside; a lane release; a failing child; 2 lanes *)
ScA == Q(2, "fifo", 1, FALSE, <<"a", "b">>,
         [a |-> J("N", 1, <<S("add", "c"), S("spawn", "p1")>>), b |-> J("N", 2, <<S("spawn", "p2")>>), c |-> J("H", 3, <<S("cancel", "")>>)],
         [p1 |-> P(1, "exit0", TRUE, FALSE, TRUE, FALSE), p2 |-> P(2, "exit3", TRUE, FALSE, FALSE, FALSE)])
(* one lane, cancellation at any time by another thread, a child that only ends when signalled *)
ScB == Q(1, "fifo", 0, TRUE, <<"a", "b">>,
         [a |-> J("N", 1, <<S("spawn", "p1")>>), b |-> J("H", 2, <<S("add", "c")>>), c |-> J("N", 3, <<>>)],
         [p1 |-> P(1, "hang", TRUE, FALSE, FALSE, FALSE)])
(* name-priority scheduler, three lanes' worth of plain jobs on two lanes, spawn error, uninterruptible child *)
ScC == Q(2, "name", 0, TRUE, <<"a", "b", "c">>,
         [a |-> J("N", 1, <<S("spawn", "p1")>>), b |-> J("N", 3, <<S("spawn", "p2")>>), c |-> J("H", 2, <<>>)],
         [p1 |-> P(0, "exit0", TRUE, FALSE, FALSE, TRUE), p2 |-> P(1, "hang", FALSE, FALSE, FALSE, FALSE)])
(* two releasing children competing for one background slot, destruction while they run *)
ScD == Q(2, "fifo", 1, TRUE, <<"a", "b">>,
         [a |-> J("N", 1, <<S("spawn", "p1")>>), b |-> J("N", 2, <<S("spawn", "p2"), S("add", "c")>>), c |-> J("H", 3, <<>>)],
         [p1 |-> P(1, "sig15", TRUE, FALSE, TRUE, FALSE), p2 |-> P(0, "exit0", TRUE, TRUE, TRUE, FALSE)])
(* three lanes, five jobs, job chains, three children (exploration only, see below) *)
ScE == Q(3, "fifo", 1, TRUE, <<"a", "b", "c">>,
         [a |-> J("N", 1, <<S("add", "d"), S("spawn", "p1")>>), b |-> J("H", 2, <<S("spawn", "p2")>>), c |-> J("N", 3, <<S("cancel", "")>>),
          d |-> J("H", 4, <<S("add", "e")>>), e |-> J("N", 5, <<S("spawn", "p3")>>)],
         [p1 |-> P(1, "exit0", TRUE, FALSE, TRUE, FALSE), p2 |-> P(1, "hang", TRUE, TRUE, FALSE, FALSE), p3 |-> P(0, "exit1", TRUE, FALSE, FALSE, TRUE)])
ScF == Q(2, "name", 2, TRUE, <<"a", "b", "c", "d">>,
         [a |-> J("N", 1, <<S("spawn", "p1"), S("spawn", "p2")>>), b |-> J("H", 2, <<S("add", "e")>>), c |-> J("N", 3, <<>>),
          d |-> J("N", 4, <<S("cancel", "")>>), e |-> J("H", 5, <<>>)],
         [p1 |-> P(2, "exit0", TRUE, FALSE, TRUE, FALSE), p2 |-> P(1, "sig15", FALSE, FALSE, TRUE, FALSE)])

(* a child that detaches from its pipes and only ends by itself after the cancellation (seeded change C16_4) *)
ScU == Q(1, "fifo", 0, TRUE, <<"a", "b">>,
         [a |-> J("N", 1, <<S("spawn", "p1")>>), b |-> J("N", 2, <<S("spawn", "p2")>>)],
         [p1 |-> U(P(1, "exit0", TRUE, FALSE, FALSE, FALSE)), p2 |-> U(P(0, "exit3", FALSE, FALSE, FALSE, FALSE))])
(* small scenarios for the liveness configuration *)
ScL == Q(2, "fifo", 0, FALSE, <<"a", "b">>,
         [a |-> J("N", 1, <<S("spawn", "p1")>>), b |-> J("H", 2, <<S("cancel", "")>>)],
         [p1 |-> P(1, "hang", FALSE, FALSE, FALSE, FALSE)])
ScM == Q(1, "fifo", 1, TRUE, <<"a">>,
         [a |-> J("N", 1, <<S("add", "b"), S("spawn", "p1")>>), b |-> J("H", 2, <<>>)],
         [p1 |-> P(1, "exit0", TRUE, FALSE, TRUE, FALSE)])
(* the client waits for completion: idle lanes must be woken by addJob itself (client add and nested add) *)
ScN == W(Q(2, "fifo", 0, FALSE, <<"a", "b">>,
         [a |-> J("N", 1, <<S("add", "c")>>), b |-> J("H", 2, <<>>), c |-> J("N", 3, <<S("spawn", "p1")>>)],
         [p1 |-> P(1, "exit0", TRUE, FALSE, FALSE, FALSE)]))
LiveQuickScenarios == {ScB, ScL, ScM, ScN, ScU}
LiveThoroughScenarios == {ScA, ScB, ScC, ScD, ScL, ScM}
QuickScenarios == {ScA, ScB, ScC, ScD, ScN, ScU}
(* ScE is not in any registered set: > 5.1M distinct states at depth 35 when stopped after 25 minutes on a loaded machine *)
ThoroughScenarios == {ScA, ScB, ScC, ScD, ScF, ScN, ScU, W(ScA)}
VacNotifyScenarios == {ScN}
ScP == Q(1, "fifo", 0, FALSE, <<"a">>, [a |-> J("N", 1, <<S("add", "b")>>), b |-> J("H", 2, <<>>)], NoProcs)
VacDrainScenarios == {ScP}
VacBgScenarios == {ScM}
CONSTANT Scenarios
MCInitSet == \E c \in Scenarios : InitWith(c)
MCSpecSet == MCInitSet /\ [][MCNext]_vars /\ WF_vars(MCNextNoCancel)
=============================================================================
