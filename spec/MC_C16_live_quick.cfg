\* C16 quick, liveness under weak fairness: the destructor returns; cancelled children are reaped
CONSTANTS
  DtorWaitsBackground = TRUE
  NotifyOnAdd = TRUE
  DrainPriority = TRUE
  MCConfig = 0
  Scenarios <- LiveQuickScenarios
SPECIFICATION MCSpecSet
INVARIANT QueueInvariants
PROPERTY Termination
PROPERTY CancelReaps
