\* C16 thorough, liveness under weak fairness: the destructor returns; cancelled children are reaped
CONSTANTS
  DtorWaitsBackground = TRUE
  NotifyOnAdd = TRUE
  DrainPriority = TRUE
  MCConfig = 0
  Scenarios <- LiveThoroughScenarios
SPECIFICATION MCSpecSet
INVARIANTS AtMostOnce ExactlyOnce LaneBound BgBound CompletionOnce OutputBeforeCompletion StatusTable ChildrenReaped
PROPERTY Termination
PROPERTY CancelReaps
