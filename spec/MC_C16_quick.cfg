\* C16 quick, safety: scenarios A-D of MC_C16.tla, all invariants + the action property, deadlock freedom
CONSTANTS
  DtorWaitsBackground = TRUE
  NotifyOnAdd = TRUE
  DrainPriority = TRUE
  MCConfig = 0
  Scenarios <- QuickScenarios
SPECIFICATION MCSpecSet
INVARIANTS AtMostOnce ExactlyOnce LaneBound BgBound CompletionOnce OutputBeforeCompletion StatusTable ChildrenReaped
PROPERTY NoSpawnAfterCancel
