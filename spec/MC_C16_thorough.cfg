\* C16 thorough: scenarios A-F of MC_C16.tla, all invariants, liveness under weak fairness
CONSTANTS
  DtorWaitsBackground = TRUE
  NotifyOnAdd = TRUE
  DrainPriority = TRUE
  MCConfig = 0
  Scenarios <- ThoroughScenarios
SPECIFICATION MCSpecSet
INVARIANT QueueInvariants
PROPERTY NoSpawnAfterCancel
PROPERTY Termination
PROPERTY CancelReaps
