\* C16 thorough: scenarios A-D, F, N and A with a waiting client (MC_C16.tla), safety: all invariants + the action property, deadlock freedom
CONSTANTS
  DtorWaitsBackground = TRUE
  NotifyOnAdd = TRUE
  DrainPriority = TRUE
  MCConfig = 0
  Scenarios <- ThoroughScenarios
SPECIFICATION MCSpecSet
INVARIANTS AtMostOnce ExactlyOnce LaneBound BgBound CompletionOnce OutputBeforeCompletion StatusTable ChildrenReaped
PROPERTY NoSpawnAfterCancel
