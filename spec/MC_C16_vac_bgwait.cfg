\* vacuity / the code as found: destructor does not wait for background waits - CompletionOnce must be violated
CONSTANTS
  DtorWaitsBackground = FALSE
  NotifyOnAdd = TRUE
  DrainPriority = TRUE
  MCConfig = 0
  Scenarios <- VacBgScenarios
SPECIFICATION MCSpecSet
INVARIANTS AtMostOnce ExactlyOnce LaneBound BgBound CompletionOnce OutputBeforeCompletion StatusTable ChildrenReaped
PROPERTY NoSpawnAfterCancel
