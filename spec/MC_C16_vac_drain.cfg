\* vacuity: lanes exit without looking at the priority list (seeded change C16_1) - ExactlyOnce must be violated
CONSTANTS
  DtorWaitsBackground = TRUE
  NotifyOnAdd = TRUE
  DrainPriority = FALSE
  MCConfig = 0
  Scenarios <- VacDrainScenarios
SPECIFICATION MCSpecSet
INVARIANTS AtMostOnce ExactlyOnce LaneBound BgBound CompletionOnce OutputBeforeCompletion StatusTable ChildrenReaped
PROPERTY NoSpawnAfterCancel
