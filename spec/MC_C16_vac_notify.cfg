\* vacuity: addJob without notify_one - TLC must report a deadlock (client waiting, lane asleep, job queued)
CONSTANTS
  DtorWaitsBackground = TRUE
  NotifyOnAdd = FALSE
  DrainPriority = TRUE
  MCConfig = 0
  Scenarios <- VacNotifyScenarios
SPECIFICATION MCSpecSet
INVARIANTS AtMostOnce ExactlyOnce LaneBound BgBound CompletionOnce OutputBeforeCompletion StatusTable ChildrenReaped
PROPERTY NoSpawnAfterCancel
