CONSTANTS
  KeyOrder <- MCKeyOrder
  Paths <- MCPaths
  ManifestPath = "build.ninja"
  MaxBuilds = 3
  MaxEdits = 2
  Families = {1, 2, 3, 4, 5, 6, 7, 8, 9}
  WithDB = {TRUE}
  KeepGoing = {1}
  AllowTamper = FALSE
SPECIFICATION MCSpec
INVARIANT TypeOK
INVARIANT NinjaOutputsClean
INVARIANT NinjaNullBuild
INVARIANT OrderOnlyOrdersButNeverTriggers
INVARIANT ImplicitAndDepfileTrigger
INVARIANT CommandLineChangeReruns
INVARIANT FailureStopsAndRetries
CHECK_DEADLOCK FALSE
