CONSTANTS
  KeyOrder <- MCKeyOrder
  Paths <- MCPaths
  ManifestPath = "build.ninja"
  MaxBuilds = 3
  MaxEdits = 2
  Families = {1, 2, 3, 4, 5, 6, 7, 8, 9}
  WithDB = {TRUE}
  KeepGoing = {0, 1}
  AllowTamper = FALSE
SPECIFICATION MCSpec
CHECK_DEADLOCK FALSE
INVARIANT W_uptodate
INVARIANT W_needsrun
INVARIANT W_targets
INVARIANT W_select
INVARIANT W_selectfail
INVARIANT W_cancelskip
INVARIANT W_alias
INVARIANT W_update
INVARIANT W_skip
INVARIANT W_execfail
INVARIANT W_kept
INVARIANT W_nullbuild
INVARIANT W_failedend
INVARIANT W_restatstop
INVARIANT W_oo_no_trigger
INVARIANT W_depfile_trigger
INVARIANT W_aliasskip
