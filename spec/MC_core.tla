------------------------------ MODULE MC_core ------------------------------
EXTENDS EngineMC
K == {"a", "b", "c", "d"}
L == {"a", "b"}
R(k, kind) == [k |-> k, kind |-> kind]
Leaf == [leaf |-> TRUE, start |-> <<>>, dynOn |-> None, dynThen |-> <<>>, dynElse |-> <<>>, disc |-> <<>>,
         proj |-> <<>>, base |-> 0, force |-> FALSE, valid |-> TRUE, sig |-> 1, out |-> FALSE]
Rec(s, on, th, el, ds, pj, b, f, v) ==
  [leaf |-> FALSE, start |-> s, dynOn |-> on, dynThen |-> th, dynElse |-> el, disc |-> ds, proj |-> pj,
   base |-> b, force |-> f, valid |-> v, sig |-> 1, out |-> FALSE]
CProgSeq == << Rec(<<R("a","in"), R("b","in")>>, None, <<>>, <<>>, <<>>, <<"a","b">>, 0, FALSE, TRUE),
            Rec(<<R("a","in")>>, "a", <<R("b","in")>>, <<>>, <<>>, <<"a","b">>, 1, FALSE, TRUE),
            Rec(<<R("b","follow"), R("a","in")>>, None, <<>>, <<>>, <<>>, <<"a">>, 0, FALSE, TRUE),
            Rec(<<R("a","single")>>, None, <<>>, <<>>, <<"b">>, <<>>, 0, FALSE, TRUE) >>
CProgs == { [CProgSeq[i] EXCEPT !.sig = i] : i \in 1..Len(CProgSeq) }
DProgSeq == << Rec(<<R("c","in")>>, None, <<>>, <<>>, <<>>, <<"c">>, 0, FALSE, TRUE),
            Rec(<<R("a","in"), R("c","in")>>, None, <<>>, <<>>, <<>>, <<"a","c">>, 0, FALSE, TRUE),
            Rec(<<R("c","in")>>, "c", <<R("b","in")>>, <<R("a","in")>>, <<>>, <<"a","b","c">>, 0, FALSE, TRUE),
            Rec(<<R("b","in")>>, "b", <<R("c","in")>>, <<>>, <<>>, <<"b","c">>, 0, TRUE, FALSE) >>
DProgs == { [DProgSeq[i] EXCEPT !.sig = i] : i \in 1..Len(DProgSeq) }
Progs == { [k \in K |-> IF k \in L THEN Leaf ELSE IF k = "c" THEN c ELSE d] : c \in CProgs, d \in DProgs }
CL == UNION { [1..n -> K] : n \in 2..4 }
=============================================================================
