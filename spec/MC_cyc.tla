------------------------------ MODULE MC_cyc ------------------------------
(* cyclic program family for C07: cycles through declared requests, through  *)
(* value-dependent dynamic requests, and - with Reprog # "same" - through     *)
(* dependencies recorded by an earlier build of a differently wired program   *)
EXTENDS EngineMC
K == {"a", "b", "c", "d"}
L == {"a"}
R(k, kind) == [k |-> k, kind |-> kind]
Leaf == [leaf |-> TRUE, start |-> <<>>, dynOn |-> None, dynThen |-> <<>>, dynElse |-> <<>>, disc |-> <<>>,
         proj |-> <<>>, base |-> 0, force |-> FALSE, valid |-> TRUE, sig |-> 1, out |-> FALSE]
Rec(s, on, th, el, pj, v) ==
  [leaf |-> FALSE, start |-> s, dynOn |-> on, dynThen |-> th, dynElse |-> el, disc |-> <<>>, proj |-> pj,
   base |-> 1, force |-> FALSE, valid |-> v, sig |-> 1, out |-> FALSE]
BSeq == << Rec(<<R("a","in")>>, None, <<>>, <<>>, <<"a">>, TRUE),
           Rec(<<R("c","in")>>, None, <<>>, <<>>, <<"c">>, TRUE),
           Rec(<<R("a","in")>>, "a", <<R("c","in")>>, <<>>, <<"a","c">>, TRUE),
           Rec(<<R("b","in")>>, None, <<>>, <<>>, <<"b">>, TRUE) >>
CSeq == << Rec(<<R("a","in")>>, None, <<>>, <<>>, <<"a">>, TRUE),
           Rec(<<R("d","in")>>, None, <<>>, <<>>, <<"d">>, TRUE),
           Rec(<<R("b","in")>>, None, <<>>, <<>>, <<"b">>, FALSE),
           Rec(<<R("a","in"), R("b","follow")>>, None, <<>>, <<>>, <<"a">>, TRUE) >>
DSeq == << Rec(<<R("c","in")>>, None, <<>>, <<>>, <<"c">>, TRUE),
           Rec(<<R("b","in")>>, None, <<>>, <<>>, <<"b">>, TRUE),
           Rec(<<R("a","in")>>, None, <<>>, <<>>, <<"a">>, TRUE),
           (* d discovers the derived key c while it runs (c may in turn request d: a cycle that exists only *)
           (* among RECORDED dependencies once both are up to date and merely scanned)                       *)
           [Rec(<<R("a","in")>>, None, <<>>, <<>>, <<"a">>, TRUE) EXCEPT !.disc = <<"c">>] >>
WithSigs(sq) == { [sq[i] EXCEPT !.sig = i] : i \in 1..Len(sq) }
Progs == { [k \in K |-> IF k \in L THEN Leaf ELSE IF k = "b" THEN b ELSE IF k = "c" THEN c ELSE d] :
             b \in WithSigs(BSeq), c \in WithSigs(CSeq), d \in WithSigs(DSeq) }
CL == UNION { [1..n -> K] : n \in 2..5 }
=============================================================================
