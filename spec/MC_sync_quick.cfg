CONSTANTS
  Tasks <- T3
  MayCancel = TRUE
  Spurious = FALSE
  RecheckUnderLock = TRUE
  NotifyAfterPush = TRUE
  DrainRechecks = TRUE
  DrainCountsAll = TRUE
SPECIFICATION FairSpec
INVARIANT TypeOK
INVARIANT CountsAgree
INVARIANT QueueBound
INVARIANT NoLostWakeup
INVARIANT ReturnsQuiet
PROPERTY Termination
PROPERTY CancelHonoured
CHECK_DEADLOCK FALSE
