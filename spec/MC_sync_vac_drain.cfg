CONSTANTS
  Tasks <- T3
  MayCancel = TRUE
  Spurious = FALSE
  RecheckUnderLock = TRUE
  NotifyAfterPush = TRUE
  DrainRechecks = FALSE
  DrainCountsAll = TRUE
SPECIFICATION Spec
INVARIANT TypeOK
INVARIANT CountsAgree
INVARIANT QueueBound
INVARIANT NoLostWakeup
INVARIANT ReturnsQuiet

CHECK_DEADLOCK FALSE
