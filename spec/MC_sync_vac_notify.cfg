CONSTANTS
  Tasks <- T3
  MayCancel = TRUE
  Spurious = FALSE
  RecheckUnderLock = TRUE
  NotifyAfterPush = FALSE
  DrainRechecks = TRUE
  DrainCountsAll = TRUE
SPECIFICATION Spec
INVARIANT TypeOK
INVARIANT CountsAgree
INVARIANT QueueBound
INVARIANT NoLostWakeup
INVARIANT ReturnsQuiet

CHECK_DEADLOCK FALSE
