----------------------------- MODULE NinjaBuild -----------------------------
(***************************************************************************)
(* `llbuild ninja build` (lib/Commands/NinjaBuildCommand.cpp) at RULE      *)
(* granularity, as a client of the incremental semantics of the build      *)
(* engine (spec/Engine.tla: ScanFrom, UpToDate, NeedsRun, Complete,        *)
(* Finished), over a model of the file system, the manifest and the build  *)
(* database.                                                               *)
(*                                                                         *)
(* One engine rule = one key.  Per rule and build there are at most three  *)
(* steps (big-step versions of the engine's small steps):                  *)
(*   ScanStart   isResultValid + "never built"                             *)
(*   UpToDate / NeedsRun   in-order scan of the RECORDED dependencies      *)
(*   Finish*     the whole task: start (requests), provideValue,           *)
(*               inputsAvailable, the command itself, complete             *)
(* The only observable step is FinishExec (a command really ran); the      *)
(* history actions (edits, builds) are the other observable steps.         *)
(*                                                                         *)
(* The rules are transcribed from NinjaBuildCommand.cpp (line numbers of   *)
(* the pinned tree): BuildValue :154, buildCommand :950-1461, buildInput   *)
(* :1463, buildTargets :1495, selectCompositeBuildResult :1535, the three  *)
(* validity predicates :1597-1669, executeNinjaBuildCommand :1758-2365.    *)
(***************************************************************************)
EXTENDS Integers, Sequences, FiniteSets, TLC

CONSTANTS KeyOrder,      \* sequence enumerating every rule key: file paths, command names (the key of a
                         \* multi-output command; "o1&&o2" in the code) and "<<build>>"
          Paths,         \* the keys that are file paths
          ManifestPath   \* "build.ninja"

Keys     == {KeyOrder[i] : i \in 1..Len(KeyOrder)}
BuildKey == "<<build>>"
Idx(k)   == CHOOSE i \in 1..Len(KeyOrder) : KeyOrder[i] = k
Range(s) == {s[i] : i \in 1..Len(s)}
Max(S)   == IF S = {} THEN 0 ELSE CHOOSE x \in S : \A y \in S : y <= x

VARIABLES
  mf,        \* the manifest in build.ninja: [cmds : name -> command record, regen : BOOLEAN]
  tmpl,      \* the manifest in build.ninja.in (only meaningful when mf.regen: a generator command copies it)
  fs,        \* [Paths -> [ex, data, mt]]   files: exists, contents, mtime (logical clock)
  marks,     \* commands whose "fail" marker file exists
  db,        \* the build database file: [epoch, rows : Keys -> Result]
  clock,     \* logical clock: every write gets a fresh, larger mtime
  b,         \* control record of the running `llbuild ninja build` process
  mem,       \* [Keys -> Result]  results held by the engine of the running process
  epoch,     \* engine iteration of the running engine.build() call
  st,        \* [Keys -> "idle"|"scanning"|"waiting"|"done"]  rule state in the running engine.build() call
  fin,       \* keys whose task completed in the running engine.build() call
  sawc,      \* keys whose task completed after the cancel flag was (certainly) set
  seen,      \* ghost: per command, what its last successful execution saw
  flast,     \* ghost: commands whose last execution failed
  tampered,  \* ghost: output paths overwritten from outside since their command last wrote them
  quiet,     \* ghost: nothing happened since a successful build with database of these targets
  alldb,     \* ghost: "none" | "db" | "nodb" | "mixed": database modes of the builds so far
  last       \* ghost: description of the last step, for the invariants

vars == <<mf, tmpl, fs, marks, db, clock, b, mem, epoch, st, fin, sawc, seen, flast, tampered, quiet, alldb, last>>

-----------------------------------------------------------------------------
(* Values *)

NoData   == [t |-> "none", n |-> "", v |-> 0, ins |-> <<>>, rd |-> <<>>]
NoFile   == [ex |-> FALSE, data |-> NoData, mt |-> 0]
MissingInfo == [ex |-> FALSE, mt |-> 0]
NoSig    == [nm |-> "", v |-> 0, ins |-> <<>>, imp |-> <<>>, oo |-> <<>>, rd |-> <<>>, outs |-> <<>>, fl |-> <<>>]
NoResult == [kind |-> "none", infos |-> <<>>, hash |-> NoSig, built |-> 0, computed |-> 0, deps |-> <<>>]
EmptyRows == [k \in Keys |-> NoResult]
NoBuild  == [on |-> FALSE]
NoLast   == [a |-> "none"]
NotQuiet == [on |-> FALSE, tg |-> <<>>]
NoSeen   == [on |-> FALSE, sig |-> NoSig, ps |-> <<>>, is |-> <<>>]

InfoOf(p) == IF p \in Paths /\ fs[p].ex THEN [ex |-> TRUE, mt |-> fs[p].mt] ELSE MissingInfo
DataOf(p) == IF p \in Paths /\ fs[p].ex THEN fs[p].data ELSE NoData

-----------------------------------------------------------------------------
(* The manifest.  A command record has the fields                           *)
(*   outs, ins, imp, oo : sequences of paths (outputs, explicit, implicit,  *)
(*                        order-only inputs)                                *)
(*   reads  : the paths the command body chooses to read besides `ins`      *)
(*   dep    : it writes a depfile listing `reads` (deps = gcc)              *)
(*   restat, gen, phony : the Ninja flags                                   *)
(*   keep   : the body leaves an output untouched when its contents would   *)
(*            not change                                                    *)
(*   ver    : version token of the command line                             *)
(*   fail   : "none" | "early" | "late": behaviour while the marker exists  *)
(*            (late = outputs are written, then exit 1)                     *)
(*   regen  : the body copies build.ninja.in to build.ninja                 *)

Cmds   == DOMAIN mf.cmds
C(c)   == mf.cmds[c]
Multi(c) == Len(C(c).outs) > 1
ProducerOf(p) == IF \E c \in Cmds : p \in Range(C(c).outs)
                 THEN CHOOSE c \in Cmds : p \in Range(C(c).outs) ELSE ""
OutIndex(c, p) == CHOOSE i \in 1..Len(C(c).outs) : C(c).outs[i] = p

(* what the command hash covers: the command line (name, version, explicit  *)
(* inputs, read list, outputs, body switches) and the declared implicit and *)
(* order-only inputs; NOT restat, generator, pool                           *)
Sig(c) == [nm |-> c, v |-> C(c).ver, ins |-> C(c).ins, imp |-> C(c).imp, oo |-> C(c).oo, rd |-> C(c).reads,
           outs |-> C(c).outs, fl |-> <<C(c).keep, C(c).dep, C(c).fail, C(c).gen>>]

RuleKind(k) ==
  IF k = BuildKey THEN "targets"
  ELSE IF k \in Cmds /\ Multi(k) THEN "command"                        \* the composite rule
  ELSE IF k \in Paths /\ ProducerOf(k) # "" THEN (IF Multi(ProducerOf(k)) THEN "select" ELSE "command")
  ELSE "input"
CmdOf(k) == IF k \in Cmds THEN k ELSE ProducerOf(k)

(* phony commands drop immediately cyclic inputs (non-strict mode) *)
Filt(c, s) == IF C(c).phony THEN SelectSeq(s, LAMBDA p : p \notin Range(C(c).outs)) ELSE s

Reqs(k) ==      \* ordinary requests of the rule's task, in request order
  CASE RuleKind(k) = "targets" -> b.tg
    [] RuleKind(k) = "select"  -> <<ProducerOf(k)>>
    [] RuleKind(k) = "command" -> Filt(CmdOf(k), C(CmdOf(k)).ins \o C(CmdOf(k)).imp)
    [] OTHER -> <<>>
Follows(k) ==   \* must-follow requests
  IF RuleKind(k) = "command" THEN Filt(CmdOf(k), C(CmdOf(k)).oo) ELSE <<>>
Awaited(k) == Range(Reqs(k)) \cup Range(Follows(k))
Discovered(k) == IF RuleKind(k) = "command" /\ C(CmdOf(k)).dep THEN C(CmdOf(k)).reads ELSE <<>>

CanonDeps(k) ==
  [i \in 1..Len(Reqs(k)) |-> [k |-> Reqs(k)[i], oo |-> FALSE]]
  \o [i \in 1..Len(Follows(k)) |-> [k |-> Follows(k)[i], oo |-> TRUE]]
  \o [i \in 1..Len(Discovered(k)) |-> [k |-> Discovered(k)[i], oo |-> FALSE]]

ReqDeps(k) == SubSeq(CanonDeps(k), 1, Len(Reqs(k)) + Len(Follows(k)))

(* the engine records a request when it is taken off its queue; requests    *)
(* whose rule still has to be scanned are re-queued, so the recorded order  *)
(* of the requested part is a permutation of the request order; the         *)
(* discovered dependencies always come last, in order                       *)
IsBag(a, bb) == Len(a) = Len(bb) /\ \A x \in Range(a) \cup Range(bb) :
                  Cardinality({i \in 1..Len(a) : a[i] = x}) = Cardinality({i \in 1..Len(bb) : bb[i] = x})
LegalDeps(k, deps) ==
  LET n == Len(Reqs(k)) + Len(Follows(k))  canon == CanonDeps(k) IN
  /\ Len(deps) = Len(canon)
  /\ IsBag(SubSeq(deps, 1, n), SubSeq(canon, 1, n))
  /\ SubSeq(deps, n + 1, Len(deps)) = SubSeq(canon, n + 1, Len(canon))

-----------------------------------------------------------------------------
(* Clean-build oracle: the contents a build from scratch gives a path       *)
RECURSIVE CleanData(_)
CleanData(p) ==
  LET c == ProducerOf(p) IN
  IF c = "" THEN DataOf(p)
  ELSE IF C(c).phony THEN NoData
  ELSE IF C(c).regen THEN CleanData(C(c).ins[1])
  ELSE [t |-> "c", n |-> p, v |-> IF C(c).gen THEN 0 ELSE C(c).ver,
        ins |-> [i \in 1..Len(C(c).ins) |-> CleanData(C(c).ins[i])],
        rd  |-> [i \in 1..Len(C(c).reads) |-> CleanData(C(c).reads[i])]]

(* commands reachable from a set of paths through every kind of input *)
InPaths(c) == Range(C(c).ins) \cup Range(C(c).imp) \cup Range(C(c).oo) \cup Range(C(c).reads)
RECURSIVE ReachC(_, _)
ReachC(front, acc) ==
  LET new == {ProducerOf(p) : p \in front} \ ({""} \cup acc) IN
  IF new = {} THEN acc ELSE ReachC(UNION {InPaths(c) : c \in new}, acc \cup new)
Reach(tg) == ReachC(Range(tg), {})

(* every read is declared (implicit/explicit input) or reported through a   *)
(* depfile and ordered after its producer                                   *)
WellDeclared(c) ==
  \A p \in Range(C(c).reads) :
     \/ p \in Range(C(c).ins) \cup Range(C(c).imp)
     \/ C(c).dep /\ (ProducerOf(p) = "" \/ p \in Range(C(c).oo))

-----------------------------------------------------------------------------
(* Engine-side notions (cf. Engine.tla) *)

Done(k) == st[k] = "done"

RECURSIVE ScanFrom(_, _)
ScanFrom(r, i) ==
  LET deps == mem[r].deps IN
  IF i > Len(deps) THEN <<"ok", "">>
  ELSE LET d == deps[i] IN
       IF ~Done(d.k) THEN <<"blocked", d.k>>
       ELSE IF ~d.oo /\ mem[r].built < mem[d.k].computed THEN <<"rerun", d.k>>
       ELSE ScanFrom(r, i + 1)

TopKey == IF b.ph = "regen" THEN ManifestPath ELSE IF Len(b.tg) = 1 THEN b.tg[1] ELSE BuildKey

ScanRes == [r \in {x \in Keys : st[x] = "scanning"} |-> ScanFrom(r, 1)]
WantedSet ==
  {TopKey}
  \cup {ScanRes[r][2] : r \in {x \in DOMAIN ScanRes : ScanRes[x][1] = "blocked"}}
  \cup UNION {Awaited(r) : r \in {x \in Keys : st[x] = "waiting"}}
  \cup UNION {{mem[r].deps[i].k : i \in 1..Len(mem[r].deps)} : r \in fin}     \* discovered dependencies are demanded afterwards
Wanted(k) == k \in WantedSet

ValidNow(k) ==
  LET r == mem[k]  c == CmdOf(k) IN
  CASE RuleKind(k) = "input" ->
         r.kind = "existing" /\ InfoOf(k).ex /\ r.infos = <<InfoOf(k)>>
    [] RuleKind(k) = "command" ->
         /\ r.kind = "success"
         /\ C(c).gen \/ r.hash = Sig(c)
         /\ Len(r.infos) = Len(C(c).outs)
         /\ \A i \in 1..Len(C(c).outs) : InfoOf(C(c).outs[i]).ex /\ InfoOf(C(c).outs[i]) = r.infos[i]
    [] RuleKind(k) = "select" -> r.kind = "success" /\ r.hash = Sig(c)
    [] OTHER -> FALSE

Ready(k) == st[k] = "waiting" /\ \A d \in Awaited(k) : Done(d)
MustCancel(k) == b.canc /\ \E d \in Awaited(k) : d \in sawc

-----------------------------------------------------------------------------
(* Frames *)
Persist == <<mf, tmpl, fs, marks, clock>>
Ghosts  == <<seen, flast, tampered, quiet, alldb>>

-----------------------------------------------------------------------------
(* History actions (between builds) *)

EditSource(p, d, t) ==        \* new contents, newer mtime
  /\ ~b.on /\ p \in Paths /\ ProducerOf(p) = "" /\ t > clock
  /\ fs' = [fs EXCEPT ![p] = [ex |-> TRUE, data |-> d, mt |-> t]]
  /\ clock' = t /\ quiet' = NotQuiet /\ last' = NoLast
  /\ UNCHANGED <<mf, tmpl, marks, db, b, mem, epoch, st, fin, sawc, seen, flast, tampered, alldb>>

TouchSource(p, t) ==
  /\ ~b.on /\ p \in Paths /\ ProducerOf(p) = "" /\ fs[p].ex /\ t > clock
  /\ fs' = [fs EXCEPT ![p].mt = t]
  /\ clock' = t /\ quiet' = NotQuiet /\ last' = NoLast
  /\ UNCHANGED <<mf, tmpl, marks, db, b, mem, epoch, st, fin, sawc, seen, flast, tampered, alldb>>

DeleteOutput(p) ==
  /\ ~b.on /\ p \in Paths /\ ProducerOf(p) # "" /\ fs[p].ex
  /\ fs' = [fs EXCEPT ![p] = NoFile]
  /\ tampered' = tampered \ {p}
  /\ quiet' = NotQuiet /\ last' = NoLast
  /\ UNCHANGED <<mf, tmpl, marks, db, clock, b, mem, epoch, st, fin, sawc, seen, flast, alldb>>

TamperOutput(p, d, t) ==      \* foreign contents with a newer mtime
  /\ ~b.on /\ p \in Paths /\ ProducerOf(p) # "" /\ fs[p].ex /\ t > clock
  /\ fs' = [fs EXCEPT ![p] = [ex |-> TRUE, data |-> d, mt |-> t]]
  /\ tampered' = tampered \cup {p}
  /\ clock' = t /\ quiet' = NotQuiet /\ last' = NoLast
  /\ UNCHANGED <<mf, tmpl, marks, db, b, mem, epoch, st, fin, sawc, seen, flast, alldb>>

(* the manifest text is rewritten: build.ninja itself, or its template when *)
(* the manifest regenerates itself                                          *)
EditManifest(m, d, t) ==
  /\ ~b.on /\ t > clock
  /\ IF mf.regen
     THEN /\ tmpl' = m /\ mf' = mf
          /\ fs' = [fs EXCEPT !["build.ninja.in"] = [ex |-> TRUE, data |-> d, mt |-> t]]
     ELSE /\ mf' = m /\ tmpl' = tmpl
          /\ fs' = [fs EXCEPT ![ManifestPath] = [ex |-> TRUE, data |-> d, mt |-> t]]
  /\ clock' = t /\ quiet' = NotQuiet /\ last' = NoLast
  /\ UNCHANGED <<marks, db, b, mem, epoch, st, fin, sawc, seen, flast, tampered, alldb>>

SetMark(c, on) ==
  /\ ~b.on
  /\ marks' = IF on THEN marks \cup {c} ELSE marks \ {c}
  /\ quiet' = NotQuiet /\ last' = NoLast
  /\ UNCHANGED <<mf, tmpl, fs, db, clock, b, mem, epoch, st, fin, sawc, seen, flast, tampered, alldb>>

-----------------------------------------------------------------------------
(* One `llbuild ninja build` process.  o = [db, k, regen]:                  *)
(*   db: build database in use (FALSE: --no-db), k: -k N (0 = unlimited),   *)
(*   regen: manifest auto-regeneration (FALSE: --no-regenerate)             *)

BuildBegin(tg, o) ==
  /\ ~b.on /\ Len(tg) >= 1
  /\ \A i \in 1..Len(tg) : ProducerOf(tg[i]) # ""
  /\ b' = [on |-> TRUE, ph |-> IF o.regen THEN "regen" ELSE "main", tg |-> tg, o |-> o,
           nbuilt |-> 0, fails |-> 0, canc |-> FALSE, errs |-> FALSE, execd |-> <<>>,
           wasquiet |-> quiet.on /\ quiet.tg = tg /\ o.db]
  /\ mem' = IF o.db THEN db.rows ELSE EmptyRows
  /\ epoch' = (IF o.db THEN db.epoch ELSE 0) + 1
  /\ st' = [k \in Keys |-> "idle"] /\ fin' = {} /\ sawc' = {}
  /\ alldb' = (IF alldb = "none" THEN (IF o.db THEN "db" ELSE "nodb")
             ELSE IF (alldb = "db") = o.db /\ alldb # "mixed" THEN alldb ELSE "mixed")
  /\ quiet' = NotQuiet /\ last' = NoLast
  /\ UNCHANGED <<mf, tmpl, fs, marks, db, clock, seen, flast, tampered>>

(* isResultValid / never built; an invalid rule gets its task at once *)
ScanStart(k) ==
  /\ b.on /\ st[k] = "idle" /\ Wanted(k)
  /\ st' = [st EXCEPT ![k] = IF mem[k].built = 0 \/ ~ValidNow(k) THEN "waiting" ELSE "scanning"]
  /\ last' = NoLast
  /\ UNCHANGED <<mf, tmpl, fs, marks, db, clock, b, mem, epoch, fin, sawc, seen, flast, tampered, quiet, alldb>>

UpToDate(k) ==
  /\ b.on /\ st[k] = "scanning" /\ ScanFrom(k, 1)[1] = "ok"
  /\ st' = [st EXCEPT ![k] = "done"]
  /\ mem' = [mem EXCEPT ![k].built = epoch]            \* in memory only: no setRuleResult call
  /\ last' = [a |-> "Step", how |-> "uptodate"]
  /\ UNCHANGED <<mf, tmpl, fs, marks, db, clock, b, epoch, fin, sawc, seen, flast, tampered, quiet, alldb>>

NeedsRun(k) ==
  /\ b.on /\ st[k] = "scanning" /\ ScanFrom(k, 1)[1] = "rerun"
  /\ st' = [st EXCEPT ![k] = "waiting"]
  /\ last' = [a |-> "Step", how |-> "needsrun"]
  /\ UNCHANGED <<mf, tmpl, fs, marks, db, clock, b, mem, epoch, fin, sawc, seen, flast, tampered, quiet, alldb>>

(* TaskInterface::complete + the engine's bookkeeping (Engine.tla Complete  *)
(* and Finished).  chg: a multi-output value embeds a heap pointer, so      *)
(* whether two otherwise equal values compare equal is not determined.      *)
Result(k, val, force, deps, chg) ==
  LET old == mem[k]
      same == /\ ~force /\ old.built # 0
              /\ val.kind = old.kind /\ val.infos = old.infos /\ val.hash = old.hash
              /\ (Len(val.infos) > 1 => ~chg)
  IN [kind |-> val.kind, infos |-> val.infos, hash |-> val.hash, built |-> epoch,
      computed |-> IF same THEN old.computed ELSE epoch, deps |-> deps]

Commit(k, val, force, deps, chg) ==
  /\ mem' = [mem EXCEPT ![k] = Result(k, val, force, deps, chg)]
  /\ db' = IF b.o.db THEN [db EXCEPT !.rows[k] = Result(k, val, force, deps, chg)] ELSE db
  /\ st' = [st EXCEPT ![k] = "done"]
  /\ fin' = fin \cup {k}

Val(kind, infos, hash) == [kind |-> kind, infos |-> infos, hash |-> hash]

(* ---- non-command rules: silent ---- *)
FinishInput(k) ==
  /\ b.on /\ Ready(k) /\ RuleKind(k) = "input"
  /\ Commit(k, IF InfoOf(k).ex THEN Val("existing", <<InfoOf(k)>>, NoSig) ELSE Val("missing", <<>>, NoSig),
            FALSE, <<>>, FALSE)
  /\ last' = NoLast
  /\ UNCHANGED <<mf, tmpl, fs, marks, clock, b, epoch, sawc, seen, flast, tampered, quiet, alldb>>

FinishTargets(k, deps) ==
  /\ b.on /\ Ready(k) /\ RuleKind(k) = "targets" /\ LegalDeps(k, deps)
  /\ Commit(k, Val("success", <<MissingInfo>>, NoSig), FALSE, deps, FALSE)
  /\ b' = [b EXCEPT !.errs = @ \/ \E d \in Range(b.tg) : mem[d].kind = "missing"]
  /\ last' = [a |-> "Step", how |-> "targets"]
  /\ UNCHANGED <<mf, tmpl, fs, marks, clock, epoch, sawc, seen, flast, tampered, quiet, alldb>>

FinishSelect(k, deps) ==
  /\ b.on /\ Ready(k) /\ RuleKind(k) = "select" /\ LegalDeps(k, deps)
  /\ LET c == ProducerOf(k)  cv == mem[c]  i == OutIndex(c, k) IN
     IF cv.kind \in {"failed", "skipped"}
     THEN Commit(k, Val(cv.kind, <<>>, NoSig), TRUE, deps, FALSE)
     ELSE Commit(k, Val("success", <<cv.infos[i]>>, cv.hash), FALSE, deps, FALSE)
  /\ last' = [a |-> "Step", how |-> IF mem[ProducerOf(k)].kind \in {"failed", "skipped"} THEN "select-fail" ELSE "select"]
  /\ UNCHANGED <<mf, tmpl, fs, marks, clock, b, epoch, sawc, seen, flast, tampered, quiet, alldb>>

(* ---- command rules ---- *)
InVals(k)    == [i \in 1..Len(Reqs(k)) |-> mem[Reqs(k)[i]]]
Good(v)      == v.kind \in {"existing", "success"}
ShouldSkip(k) == \E i \in 1..Len(Reqs(k)) : ~Good(InVals(k)[i])
HasMissing(k) == \E i \in 1..Len(Reqs(k)) : InVals(k)[i].kind = "missing"
MissingIn(k)  == \E i \in 1..Len(Reqs(k)) : Good(InVals(k)[i]) /\ ~InVals(k)[i].infos[1].ex
Newest(k)    == Max({InVals(k)[i].infos[1].mt : i \in {j \in 1..Len(Reqs(k)) : Good(InVals(k)[j]) /\ InVals(k)[j].infos[1].ex}})
OutInfos(c)  == [i \in 1..Len(C(c).outs) |-> InfoOf(C(c).outs[i])]
AnyOutMissing(c) == \E i \in 1..Len(C(c).outs) : ~InfoOf(C(c).outs[i]).ex
CanUpd0(k)   == ~C(CmdOf(k)).dep /\ ~MissingIn(k)
PriorOK(k)   == LET c == CmdOf(k) IN       \* generator commands need no prior result, but a failed one is retried
                \/ C(c).gen /\ ~(mem[k].built # 0 /\ mem[k].kind = "failed")
                \/ mem[k].built # 0 /\ mem[k].kind = "success" /\ mem[k].hash = Sig(c)
OutsNewer(k) == \A i \in 1..Len(C(CmdOf(k)).outs) :
                  InfoOf(C(CmdOf(k)).outs[i]).ex /\ InfoOf(C(CmdOf(k)).outs[i]).mt >= Newest(k)
WouldUpdate(k) == CanUpd0(k) /\ PriorOK(k) /\ OutsNewer(k)

IsCmd(k) == RuleKind(k) = "command"
Phony(k) == C(CmdOf(k)).phony

(* deps of a task that never reached the depfile: requested part only *)
ReqDepsOK(k, deps) ==
  /\ Len(deps) = Len(Reqs(k)) + Len(Follows(k))
  /\ IsBag(deps, SubSeq(CanonDeps(k), 1, Len(deps)))

(* the build was cancelled (-k N failures reached) before this task got to  *)
(* inputsAvailable / executeCommand                                         *)
CancelSkip(k, deps) ==
  /\ b.on /\ Ready(k) /\ IsCmd(k) /\ b.canc /\ ReqDepsOK(k, deps)
  /\ Commit(k, Val("skipped", <<>>, NoSig), FALSE, deps, FALSE)
  /\ sawc' = sawc \cup {k}
  /\ b' = [b EXCEPT !.errs = @ \/ HasMissing(k)]
  /\ last' = [a |-> "Step", how |-> "cancelskip"]
  /\ UNCHANGED <<mf, tmpl, fs, marks, clock, epoch, seen, flast, tampered, quiet, alldb>>

(* phony: never runs anything.  An alias (output is not a file) stands for  *)
(* its newest input; without a usable input it is always dirty; a failed,   *)
(* skipped or missing input is propagated.                                  *)
FinishPhony(k, deps) ==
  /\ b.on /\ Ready(k) /\ IsCmd(k) /\ Phony(k) /\ ~MustCancel(k) /\ ReqDepsOK(k, deps)
  /\ LET c == CmdOf(k) IN
     IF ShouldSkip(k)
     THEN Commit(k, Val("skipped", <<>>, NoSig), FALSE, deps, FALSE)
     ELSE IF AnyOutMissing(c) /\ CanUpd0(k) /\ Newest(k) # 0
     THEN Commit(k, Val("success", [i \in 1..Len(C(c).outs) |->
                                      IF OutInfos(c)[i].ex THEN OutInfos(c)[i] ELSE [ex |-> TRUE, mt |-> Newest(k)]], Sig(c)),
                 FALSE, deps, TRUE)
     ELSE Commit(k, Val("success", OutInfos(c), Sig(c)), AnyOutMissing(c), deps, TRUE)
  /\ b' = [b EXCEPT !.errs = @ \/ HasMissing(k)]
  /\ last' = [a |-> "Step", how |-> IF ShouldSkip(k) THEN "alias-skip"
                                   ELSE IF AnyOutMissing(CmdOf(k)) /\ CanUpd0(k) /\ Newest(k) # 0 THEN "alias" ELSE "phony"]
  /\ UNCHANGED <<mf, tmpl, fs, marks, clock, epoch, sawc, seen, flast, tampered, quiet, alldb>>

(* update-if-newer: outputs exist and are not older than the newest input,  *)
(* and the command previously succeeded with this very command hash         *)
FinishUpdate(k, deps, chg) ==
  /\ b.on /\ Ready(k) /\ IsCmd(k) /\ ~Phony(k) /\ ~MustCancel(k) /\ ReqDepsOK(k, deps)
  /\ WouldUpdate(k)
  /\ Commit(k, Val("success", OutInfos(CmdOf(k)), Sig(CmdOf(k))), FALSE, deps, chg)
  /\ b' = [b EXCEPT !.errs = @ \/ HasMissing(k)]
  /\ last' = [a |-> "Step", how |-> "update"]
  /\ UNCHANGED <<mf, tmpl, fs, marks, clock, epoch, sawc, seen, flast, tampered, quiet, alldb>>

(* an input failed, was skipped or is missing: the command is skipped *)
FinishSkip(k, deps) ==
  /\ b.on /\ Ready(k) /\ IsCmd(k) /\ ~Phony(k) /\ ~MustCancel(k) /\ ReqDepsOK(k, deps)
  /\ ~WouldUpdate(k) /\ ShouldSkip(k)
  /\ Commit(k, Val("skipped", <<>>, NoSig), FALSE, deps, FALSE)
  /\ LET f == IF HasMissing(k) THEN b.fails + 1 ELSE b.fails
         cn == b.canc \/ (HasMissing(k) /\ b.o.k # 0 /\ f = b.o.k) IN
     /\ b' = [b EXCEPT !.errs = @ \/ HasMissing(k), !.nbuilt = @ + 1, !.fails = f, !.canc = cn]
     /\ sawc' = IF cn /\ HasMissing(k) THEN sawc \cup {k} ELSE sawc
  /\ last' = [a |-> "Step", how |-> IF HasMissing(k) THEN "skip-missing" ELSE "skip"]
  /\ UNCHANGED <<mf, tmpl, fs, marks, clock, epoch, seen, flast, tampered, quiet, alldb>>

(* ---- the command really runs: the observable step ---- *)
NewData(c, p) ==
  IF C(c).regen THEN DataOf(C(c).ins[1])
  ELSE [t |-> "c", n |-> p, v |-> IF C(c).gen THEN 0 ELSE C(c).ver,
        ins |-> [i \in 1..Len(C(c).ins) |-> DataOf(C(c).ins[i])],
        rd  |-> [i \in 1..Len(C(c).reads) |-> DataOf(C(c).reads[i])]]
Fails(c)   == c \in marks /\ C(c).fail # "none"
Writes(c)  == ~(Fails(c) /\ C(c).fail = "early")
Rewrites(c, p) == Writes(c) /\ ~(C(c).keep /\ fs[p].ex /\ fs[p].data = NewData(c, p))
FsAfter(c, t) == [p \in Paths |-> IF p \in Range(C(c).outs) /\ Rewrites(c, p)
                                  THEN [ex |-> TRUE, data |-> NewData(c, p), mt |-> t] ELSE fs[p]]
NonOO(c)   == C(c).ins \o C(c).imp \o (IF C(c).dep THEN C(c).reads ELSE <<>>)

(* what a consumer sees of an input path: the file, or for a phony alias    *)
(* the value of its rule (the stand-in for its newest input)                *)
ViewInfo(p) ==
  IF p \in Keys /\ ProducerOf(p) # "" /\ C(ProducerOf(p)).phony /\ mem[p].kind = "success" /\ Len(mem[p].infos) >= 1
  THEN mem[p].infos[1] ELSE InfoOf(p)

(* ghost: is there a reason for running c that is not an order-only input? *)
Justified(k) ==
  LET c == CmdOf(k)  s == seen[c]  prior == mem[k]
      watch == Range(NonOO(c)) \cup Range(s.ps)
      SeenInfo(p) == IF \E i \in 1..Len(s.ps) : s.ps[i] = p
                     THEN s.is[CHOOSE i \in 1..Len(s.ps) : s.ps[i] = p] ELSE [ex |-> FALSE, mt |-> -1]
  IN \/ ~s.on \/ (~C(c).gen /\ s.sig # Sig(c))
     \/ prior.kind # "success"
     \/ \E i \in 1..Len(C(c).outs) : ~InfoOf(C(c).outs[i]).ex \/ Len(prior.infos) < i \/ InfoOf(C(c).outs[i]) # prior.infos[i]
     \/ \E p \in watch : ViewInfo(p) # SeenInfo(p)
     \/ \E p \in watch : ProducerOf(p) # "" /\ ProducerOf(p) \in Range(b.execd)

(* no input comes from a failed or skipped producer, also not through a phony alias *)
RECURSIVE FineP(_)
FineP(p) == /\ Good(mem[p])
            /\ (ProducerOf(p) # "" /\ C(ProducerOf(p)).phony) =>
                  \A q \in Range(Filt(ProducerOf(p), C(ProducerOf(p)).ins \o C(ProducerOf(p)).imp)) : FineP(q)
InputsFine(k) == \A i \in 1..Len(Reqs(k)) : FineP(Reqs(k)[i])

FinishExec(k, t, deps, chg) ==
  /\ b.on /\ Ready(k) /\ IsCmd(k) /\ ~Phony(k) /\ ~MustCancel(k)
  /\ ~WouldUpdate(k) /\ ~ShouldSkip(k)
  /\ t > clock
  /\ LET c == CmdOf(k)
         fsa == FsAfter(c, t)
         infos == [i \in 1..Len(C(c).outs) |->
                     IF fsa[C(c).outs[i]].ex THEN [ex |-> TRUE, mt |-> fsa[C(c).outs[i]].mt] ELSE MissingInfo]
     IN
     /\ fs' = fsa
     /\ clock' = t
     /\ mf' = mf /\ tmpl' = tmpl /\ marks' = marks
     /\ tampered' = tampered \ {p \in Range(C(c).outs) : Rewrites(c, p)}
     /\ IF Fails(c)
        THEN /\ ReqDepsOK(k, deps)
             /\ Commit(k, Val("failed", <<>>, NoSig), TRUE, deps, FALSE)
             /\ LET cn == b.canc \/ (b.o.k # 0 /\ b.fails + 1 = b.o.k) IN
                /\ b' = [b EXCEPT !.errs = TRUE, !.nbuilt = @ + 1, !.fails = @ + 1, !.canc = cn,
                                  !.execd = Append(@, c)]
                /\ sawc' = IF cn THEN sawc \cup {k} ELSE sawc
             /\ flast' = flast \cup {c}
             /\ seen' = seen
        ELSE /\ LegalDeps(k, deps)
             /\ Commit(k, Val("success", infos, Sig(c)), ~C(c).restat, deps, chg)
             /\ b' = [b EXCEPT !.nbuilt = @ + 1, !.execd = Append(@, c)]
             /\ sawc' = sawc
             /\ flast' = flast \ {c}
             /\ seen' = [seen EXCEPT ![c] = [on |-> TRUE, sig |-> Sig(c), ps |-> NonOO(c),
                                             is |-> [i \in 1..Len(NonOO(c)) |-> ViewInfo(NonOO(c)[i])]]]
     /\ last' = [a |-> "Exec", c |-> c, just |-> Justified(k), fine |-> InputsFine(k),
                 ordered |-> \A p \in Awaited(k) : Done(p), failed |-> Fails(c),
                 kept |-> \E p \in Range(C(c).outs) : Writes(c) /\ ~Rewrites(c, p)]
  /\ UNCHANGED <<epoch, quiet, alldb>>

-----------------------------------------------------------------------------
(* end of an engine.build() call *)
PhaseDone ==
  /\ b.on
  /\ \A k \in Keys : st[k] \in {"idle", "done"}
  /\ \A k \in WantedSet : Done(k)

(* first call: the manifest node.  If a command ran, reload the manifest    *)
(* and start over with a new context and engine (no second manifest build). *)
RegenEnd ==
  /\ PhaseDone /\ b.ph = "regen"
  /\ IF b.nbuilt > 0
     THEN /\ mf' = IF mf.regen THEN tmpl ELSE mf
          /\ db' = IF b.o.db THEN [db EXCEPT !.epoch = epoch] ELSE db
          /\ mem' = IF b.o.db THEN db.rows ELSE EmptyRows
          /\ epoch' = (IF b.o.db THEN epoch ELSE 0) + 1
          /\ b' = [b EXCEPT !.ph = "main", !.nbuilt = 0, !.fails = 0, !.canc = FALSE, !.errs = FALSE]
          /\ sawc' = {}
     ELSE /\ mf' = mf /\ db' = IF b.o.db THEN [db EXCEPT !.epoch = epoch] ELSE db
          /\ mem' = mem
          /\ epoch' = epoch + 1
          /\ b' = [b EXCEPT !.ph = "main"]
          /\ sawc' = sawc
  /\ st' = [k \in Keys |-> "idle"] /\ fin' = {}
  /\ last' = [a |-> "Step", how |-> IF b.nbuilt > 0 THEN "reload" ELSE "regen-none"]
  /\ UNCHANGED <<tmpl, fs, marks, clock, seen, flast, tampered, quiet, alldb>>

BuildEnd ==
  /\ PhaseDone /\ b.ph = "main"
  /\ db' = IF b.o.db THEN [db EXCEPT !.epoch = epoch] ELSE db
  /\ b' = NoBuild
  /\ quiet' = IF ~b.errs /\ b.o.db THEN [on |-> TRUE, tg |-> b.tg] ELSE NotQuiet
  /\ last' = [a |-> "BuildEnd", rc |-> IF b.errs THEN 1 ELSE 0, tg |-> b.tg, db |-> b.o.db,
              wasquiet |-> b.wasquiet, execd |-> b.execd]
  /\ UNCHANGED <<mf, tmpl, fs, marks, clock, mem, epoch, st, fin, sawc, seen, flast, tampered, alldb>>

-----------------------------------------------------------------------------
(* Scheduling.  Scan steps and the finishing steps of rules that run no     *)
(* command are not observable and commute with the execution of unrelated   *)
(* commands, so they are taken eagerly, in key order; once the cancel flag  *)
(* may be set, the remaining finishing steps are free.                      *)
SilentKeys ==
  IF ~b.on THEN {}
  ELSE LET W == WantedSet  SR == ScanRes IN
       {k \in Keys :
          \/ st[k] = "idle" /\ k \in W
          \/ st[k] = "scanning" /\ SR[k][1] \in {"ok", "rerun"}
          \/ Ready(k) /\ RuleKind(k) \in {"input", "targets", "select"}
          \/ Ready(k) /\ IsCmd(k) /\ ~b.canc /\ (Phony(k) \/ WouldUpdate(k) \/ ShouldSkip(k))}
FirstOf(S) == CHOOSE k \in S : \A j \in S : Idx(k) <= Idx(j)
FirstSilent == FirstOf(SilentKeys)

(* deps: the recorded dependency order, chg: see Result *)
SilentStep(k, deps, chg) ==
  \/ ScanStart(k) \/ UpToDate(k) \/ NeedsRun(k) \/ FinishInput(k)
  \/ FinishTargets(k, deps) \/ FinishSelect(k, deps)
  \/ (~b.canc /\ (FinishPhony(k, deps) \/ FinishUpdate(k, deps, chg) \/ FinishSkip(k, deps)))

(* the finishing steps of command rules that are not forced to be silent *)
FreeKeys == {k \in Keys : b.on /\ Ready(k) /\ IsCmd(k)}
FreeSilent(k, deps, chg) ==       \* only reachable once the cancel flag is set
  /\ b.canc
  /\ \/ CancelSkip(k, deps) \/ FinishPhony(k, deps) \/ FinishUpdate(k, deps, chg) \/ FinishSkip(k, deps)

-----------------------------------------------------------------------------
(* Properties (state predicates over the ghost record of the last step)     *)

AllDB == alldb \in {"none", "db"}
Mixed == alldb = "mixed"      \* a --no-db build leaves no record: what it did is invisible to later builds with the database
OutPathsOf(S) == UNION {Range(C(c).outs) : c \in {x \in S : ~C(x).phony}}
GoodEnd == last.a = "BuildEnd" /\ last.rc = 0
Untampered(S) == tampered \cap (OutPathsOf(S) \cup UNION {InPaths(c) : c \in S}) = {}
Declared(S) == \A c \in S : WellDeclared(c)

(* after a successful build every output reachable from the targets holds   *)
(* the contents of a clean build                                            *)
NinjaOutputsClean ==
  GoodEnd => LET R == Reach(last.tg) IN
             (Untampered(R) /\ Declared(R)) =>
               \A p \in OutPathsOf(R) : fs[p].ex /\ fs[p].data = CleanData(p)

(* with the database, an immediate rebuild runs no command *)
NinjaNullBuild ==
  (last.a = "BuildEnd" /\ last.wasquiet) => (last.execd = <<>> /\ last.rc = 0)

(* a command only starts when everything it has to follow is complete, and  *)
(* never runs for the sake of an order-only input alone                     *)
OrderOnlyOrdersButNeverTriggers ==
  last.a = "Exec" => (last.ordered /\ (AllDB => last.just))

(* the last successful execution of every reachable command saw the current *)
(* state of its implicit and depfile-discovered (and explicit) inputs       *)
SawCurrent(c, paths) ==
  seen[c].on /\ \A p \in paths :
     \E i \in 1..Len(seen[c].ps) : seen[c].ps[i] = p /\ seen[c].is[i] = ViewInfo(p)
ImplicitAndDepfileTrigger ==
  (GoodEnd /\ ~Mixed) => LET R == Reach(last.tg) IN
             Untampered(R) =>
               \A c \in R : (~C(c).phony /\ ~C(c).gen) =>        \* generator commands are trusted on timestamps alone
                  SawCurrent(c, Range(C(c).imp) \cup (IF C(c).dep THEN Range(C(c).reads) ELSE {}) \cup Range(C(c).ins))

(* ... and ran with the current command line *)
CommandLineChangeReruns ==
  (GoodEnd /\ ~Mixed) => LET R == Reach(last.tg) IN
             Untampered(R) =>
               \A c \in R : (~C(c).phony /\ ~C(c).gen) => (seen[c].on /\ seen[c].sig = Sig(c))

(* a command never runs on the output of a failed or skipped producer, and  *)
(* a build cannot succeed while the last execution of a reachable command   *)
(* failed                                                                   *)
FailureStopsAndRetries ==
  /\ last.a = "Exec" => last.fine
  /\ (GoodEnd /\ AllDB) => Reach(last.tg) \cap flast = {}
  /\ GoodEnd => \A c \in Reach(last.tg) :
                  LET k == IF Multi(c) THEN c ELSE C(c).outs[1] IN Done(k) => mem[k].kind = "success"

TypeOK ==
  /\ \A k \in Keys : st[k] \in {"idle", "scanning", "waiting", "done"}
  /\ \A k \in Keys : mem[k].built <= epoch /\ mem[k].computed <= mem[k].built
=============================================================================
