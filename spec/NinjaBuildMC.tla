---------------------------- MODULE NinjaBuildMC ----------------------------
(***************************************************************************)
(* Model-checking harness for NinjaBuild.tla: a bounded family of          *)
(* manifests (2-3 commands, <= 3 sources) x all histories of <= MaxEdits   *)
(* edits and <= MaxBuilds builds, every build run under the canonical      *)
(* schedule (least key first; all interleavings of the engine itself are   *)
(* discharged at engine level, property C06).                              *)
(***************************************************************************)
EXTENDS NinjaBuild

CONSTANTS MaxBuilds, MaxEdits,
          Families,        \* subset of 1..NFam
          WithDB,          \* subset of BOOLEAN
          KeepGoing,       \* subset of {0, 1}: values of -k
          AllowTamper      \* BOOLEAN

VARIABLES nb, ne, fam
mcvars == <<vars, nb, ne, fam>>

MCKeyOrder == <<"build.ninja", "s1", "s2", "h", "o1", "o2", "o3", "al", "c1", "c2", "c3", "<<build>>">>
MCPaths    == {"build.ninja", "s1", "s2", "h", "o1", "o2", "o3", "al"}
Sources    == {"s1", "s2", "h"}

Cmd(outs, ins, imp, oo, reads, dep) ==
  [outs |-> outs, ins |-> ins, imp |-> imp, oo |-> oo, reads |-> reads, dep |-> dep,
   restat |-> FALSE, gen |-> FALSE, phony |-> FALSE, keep |-> FALSE, ver |-> 1, fail |-> "none", regen |-> FALSE]
PhonyCmd(outs, ins) == [Cmd(outs, ins, <<>>, <<>>, <<>>, FALSE) EXCEPT !.phony = TRUE]
M(cmds) == [cmds |-> cmds, regen |-> FALSE]

(* 1: chain with an implicit input that is read                            *)
(* 2: generated header: order-only + depfile-discovered, and a pure        *)
(*    order-only edge                                                      *)
(* 3: two outputs, one consumer, implicit input not read                   *)
(* 4: phony alias used as an ordinary input                                *)
(* 5: two independent commands (one may fail late) and a join              *)
(* 6: restat + keep producer, consumer with a depfile                      *)
(* 7: early failure, generator flag                                        *)
(* 8: an under-declared read that a manifest edit declares later           *)
(* 9: a generator command that fails after writing its output              *)
Fam(i) ==
  CASE i = 1 -> M([c1 |-> Cmd(<<"o1">>, <<"s1">>, <<"h">>, <<>>, <<"h">>, FALSE),
                   c2 |-> Cmd(<<"o2">>, <<"o1">>, <<>>, <<>>, <<>>, FALSE)])
    [] i = 2 -> M([c3 |-> Cmd(<<"o3">>, <<"s2">>, <<>>, <<>>, <<>>, FALSE),
                   c1 |-> Cmd(<<"o1">>, <<"s1">>, <<>>, <<"o3">>, <<"o3", "h">>, TRUE),
                   c2 |-> Cmd(<<"o2">>, <<"s1">>, <<>>, <<"o3">>, <<>>, FALSE)])
    [] i = 3 -> M([c1 |-> [Cmd(<<"o1", "o2">>, <<"s1">>, <<>>, <<>>, <<>>, FALSE) EXCEPT !.fail = "late"],
                   c2 |-> Cmd(<<"o3">>, <<"o2">>, <<"h">>, <<>>, <<>>, FALSE)])
    [] i = 4 -> M([c1 |-> [Cmd(<<"o1">>, <<"s1">>, <<>>, <<>>, <<>>, FALSE) EXCEPT !.fail = "late"],
                   c2 |-> PhonyCmd(<<"al">>, <<"o1">>),
                   c3 |-> Cmd(<<"o3">>, <<"al", "s2">>, <<>>, <<>>, <<>>, FALSE)])
    [] i = 5 -> M([c1 |-> [Cmd(<<"o1">>, <<"s1">>, <<>>, <<>>, <<>>, FALSE) EXCEPT !.fail = "late"],
                   c2 |-> Cmd(<<"o2">>, <<"s2">>, <<>>, <<>>, <<>>, FALSE),
                   c3 |-> Cmd(<<"o3">>, <<"o1", "o2">>, <<>>, <<>>, <<>>, FALSE)])
    [] i = 6 -> M([c1 |-> [Cmd(<<"o1">>, <<"s1">>, <<"h">>, <<>>, <<>>, FALSE) EXCEPT !.restat = TRUE, !.keep = TRUE],
                   c2 |-> Cmd(<<"o2">>, <<"o1">>, <<>>, <<>>, <<"s2">>, TRUE)])
    [] i = 7 -> M([c1 |-> [Cmd(<<"o1">>, <<"s1">>, <<>>, <<>>, <<>>, FALSE) EXCEPT !.fail = "early"],
                   c2 |-> [Cmd(<<"o2">>, <<"o1", "s2">>, <<>>, <<>>, <<>>, FALSE) EXCEPT !.gen = TRUE]])
    [] i = 8 -> M([c1 |-> Cmd(<<"o1">>, <<"s1">>, <<>>, <<>>, <<"h">>, FALSE),
                   c2 |-> Cmd(<<"o2">>, <<"o1">>, <<>>, <<>>, <<>>, FALSE)])
    [] i = 9 -> M([c1 |-> [Cmd(<<"o1">>, <<"s1">>, <<>>, <<>>, <<>>, FALSE) EXCEPT !.fail = "late", !.gen = TRUE],
                   c2 |-> Cmd(<<"o2">>, <<"o1">>, <<>>, <<>>, <<>>, FALSE)])
NFam == 9

TargetsOf(i) ==
  CASE i = 1 -> {<<"o2">>}
    [] i = 2 -> {<<"o1", "o2">>, <<"o1">>}
    [] i = 3 -> {<<"o3">>, <<"o1">>}
    [] i = 4 -> {<<"o3">>}
    [] i = 5 -> {<<"o3">>, <<"o1", "o2">>}
    [] i = 6 -> {<<"o2">>}
    [] i = 7 -> {<<"o2">>}
    [] i = 8 -> {<<"o2">>}
    [] i = 9 -> {<<"o2">>}

(* manifest edits: new command line, toggled implicit input, toggled restat, moved input *)
BumpVer(m, c)   == [m EXCEPT !.cmds[c].ver = @ + 1]
ToggleImp(m, c) == [m EXCEPT !.cmds[c].imp = IF "h" \in Range(@) THEN SelectSeq(@, LAMBDA p : p # "h") ELSE Append(@, "h")]
ToggleRestat(m, c) == [m EXCEPT !.cmds[c].restat = ~@]
ToggleOO(m, c)  == IF "c3" \in DOMAIN m.cmds /\ m.cmds["c3"].outs = <<"o3">> /\ m.cmds["c3"].ins = <<"s2">>
                   THEN [m EXCEPT !.cmds[c].oo = IF @ = <<>> THEN <<"o3">> ELSE <<>>] ELSE m
(* an input moves between the sections of its build statement; the command *)
(* line only changes when the explicit section is involved                 *)
Without(s, p) == SelectSeq(s, LAMBDA q : q # p)
Movable(m) == {c \in DOMAIN m.cmds \cap {"c1", "c2"} : ~m.cmds[c].gen /\ ~m.cmds[c].phony}
MovesOf(m) ==
  UNION {  {[m EXCEPT !.cmds[c].imp = Without(@, p), !.cmds[c].oo = Append(@, p)] : p \in Range(m.cmds[c].imp)}
      \cup {[m EXCEPT !.cmds[c].oo = Without(@, p), !.cmds[c].imp = Append(@, p)] : p \in Range(m.cmds[c].oo)}
      \cup {[m EXCEPT !.cmds[c].imp = Without(@, p), !.cmds[c].ins = Append(@, p)] : p \in Range(m.cmds[c].imp)}
      : c \in Movable(m)}
EditsOf(m) == {BumpVer(m, c) : c \in DOMAIN m.cmds \cap {"c1", "c2"}} \cup MovesOf(m)
              \cup (IF m.cmds["c1"].gen THEN {} ELSE {ToggleImp(m, "c1")})      \* a generator command's hash is never compared
              \cup {ToggleRestat(m, "c1")} \cup {ToggleOO(m, "c2")}

XData   == [t |-> "x", n |-> "", v |-> 0, ins |-> <<>>, rd |-> <<>>]
Src(p, v) == [t |-> "s", n |-> p, v |-> v, ins |-> <<>>, rd |-> <<>>]
Bump(p) == [fs[p].data EXCEPT !.v = @ + 1]

MCInit ==
  /\ fam \in Families
  /\ mf = Fam(fam) /\ tmpl = Fam(fam)
  /\ fs = [p \in MCPaths |-> CASE p = "s1" -> [ex |-> TRUE, data |-> Src(p, 1), mt |-> 1]
                               [] p = "s2" -> [ex |-> TRUE, data |-> Src(p, 1), mt |-> 2]
                               [] p = "h"  -> [ex |-> TRUE, data |-> Src(p, 1), mt |-> 3]
                               [] p = "build.ninja" -> [ex |-> TRUE, data |-> Src(p, 1), mt |-> 4]
                               [] OTHER -> NoFile]
  /\ marks = {} /\ clock = 4
  /\ db = [epoch |-> 0, rows |-> EmptyRows]
  /\ b = NoBuild /\ mem = EmptyRows /\ epoch = 0
  /\ st = [k \in Keys |-> "idle"] /\ fin = {} /\ sawc = {}
  /\ seen = [c \in {"c1", "c2", "c3"} |-> NoSeen] /\ flast = {} /\ tampered = {}
  /\ quiet = NotQuiet /\ alldb = "none" /\ last = NoLast
  /\ nb = 0 /\ ne = 0

OutPaths == {p \in MCPaths : ProducerOf(p) # "" /\ ~C(ProducerOf(p)).phony}

Edit ==
  /\ nb > 0 /\ ne < MaxEdits /\ ne' = ne + 1 /\ UNCHANGED <<nb, fam>>
  /\ \/ \E p \in Sources : EditSource(p, Bump(p), clock + 1)
     \/ \E p \in Sources : TouchSource(p, clock + 1)
     \/ \E p \in OutPaths : DeleteOutput(p)
     \/ AllowTamper /\ \E p \in OutPaths : TamperOutput(p, XData, clock + 1)
     \/ \E m \in EditsOf(mf) : EditManifest(m, Bump("build.ninja"), clock + 1)
     \/ \E c \in Cmds : C(c).fail # "none" /\ SetMark(c, c \notin marks)

StartBuild ==
  /\ nb < MaxBuilds /\ nb' = nb + 1 /\ UNCHANGED <<ne, fam>>
  /\ \E tg \in TargetsOf(fam), d \in WithDB, k \in KeepGoing :
        BuildBegin(tg, [db |-> d, k |-> k, regen |-> TRUE])

First(S) == CHOOSE k \in S : \A j \in S : Idx(k) <= Idx(j)
ExecReady == {k \in FreeKeys : ~Phony(k) /\ ~MustCancel(k) /\ ~WouldUpdate(k) /\ ~ShouldSkip(k)}

InBuild ==
  /\ b.on /\ UNCHANGED <<nb, ne, fam>>
  /\ LET sk == SilentKeys IN
     IF sk # {} THEN SilentStep(FirstOf(sk), ReqDeps(FirstOf(sk)), TRUE)
     ELSE IF FreeKeys # {}
          THEN LET k == First(FreeKeys) IN
               \/ FreeSilent(k, ReqDeps(k), TRUE)
               \/ FinishExec(k, clock + 1, IF Fails(CmdOf(k)) THEN ReqDeps(k) ELSE CanonDeps(k), TRUE)
          ELSE RegenEnd \/ BuildEnd

MCNext == Edit \/ StartBuild \/ InBuild
MCSpec == MCInit /\ [][MCNext]_mcvars

(* vacuity witnesses: each must be VIOLATED when checked as an invariant (one TLC run per witness) *)
How(h) == last.a = "Step" /\ last.how = h
W_uptodate   == ~How("uptodate")
W_needsrun   == ~How("needsrun")
W_targets    == ~How("targets")
W_select     == ~How("select")
W_selectfail == ~How("select-fail")
W_cancelskip == ~How("cancelskip")
W_alias      == ~How("alias")
W_aliasskip  == ~How("alias-skip")
W_update     == ~How("update")
W_skip       == ~How("skip")
W_execfail   == ~(last.a = "Exec" /\ last.failed)
W_kept       == ~(last.a = "Exec" /\ last.kept)
W_nullbuild  == ~(last.a = "BuildEnd" /\ last.wasquiet)
W_failedend  == ~(last.a = "BuildEnd" /\ last.rc = 1)
W_restatstop == ~(last.a = "BuildEnd" /\ last.rc = 0 /\ Len(last.execd) = 1 /\ fam = 6 /\ last.execd[1] = "c1")
W_oo_no_trigger == ~(last.a = "BuildEnd" /\ last.rc = 0 /\ fam = 2 /\ last.execd = <<"c3", "c1">>)
W_depfile_trigger == ~(last.a = "BuildEnd" /\ last.rc = 0 /\ fam = 2 /\ last.execd = <<"c1">>)
=============================================================================
