CONSTANTS
  KeyOrder <- TKeyOrder
  Paths <- TPaths
  ManifestPath = "build.ninja"
SPECIFICATION TraceSpec
INVARIANT TTypeOK
INVARIANT TNinjaOutputsClean
INVARIANT TNinjaNullBuild
INVARIANT TOrderOnly
INVARIANT TImplicitAndDepfileTrigger
INVARIANT TCommandLineChangeReruns
INVARIANT TFailureStopsAndRetries
CONSTRAINT Track
POSTCONDITION Post
CHECK_DEADLOCK FALSE
