-------------------------- MODULE NinjaBuildTrace --------------------------
(***************************************************************************)
(* Trace specification: an ndjson trace recorded by tools/ninja_driver.py  *)
(* from real `llbuild ninja build` runs is a behaviour of NinjaBuild.tla.  *)
(* One line per history step, per observed command execution (Exec) and    *)
(* per build begin/end; BuildEnd carries exit status, all file contents    *)
(* and mtimes, and (with a database) the decoded build.db.                 *)
(*                                                                         *)
(* Inside a build the unobservable rule steps are taken eagerly in key     *)
(* order; an Exec line must match an enabled FinishExec (so an unexpected  *)
(* execution, a wrong exit status, or an execution before a must-follow    *)
(* input is complete is rejected), BuildEnd is only enabled when nothing   *)
(* is left to do (so a missing execution is rejected), and the resulting   *)
(* files and database rows must equal the specification's.                 *)
(* All property invariants of NinjaBuild.tla are evaluated in every state. *)
(***************************************************************************)
EXTENDS NinjaBuild, Json, IOUtils, SequencesExt

Log == ndJsonDeserialize(IOEnv.TRACE)

VARIABLES l,     \* index of the next line to consume
          be     \* index of the BuildEnd line of the running build
tvars == <<vars, l, be>>

ev == Log[l]
Is(e) == l <= Len(Log) /\ ev.e = e
Adv == l' = l + 1
Stay == l' = l

CmdNames == {"c1", "c2", "c3", "c4", "cg"}
TKeyOrder == <<"build.ninja", "build.ninja.in", "s1", "s2", "s3", "h1", "o1", "o2", "o3", "o4", "o5", "al",
               "c1", "c2", "c3", "c4", "cg", "<<build>>">>
TPaths == {"build.ninja", "build.ninja.in", "s1", "s2", "s3", "h1", "o1", "o2", "o3", "o4", "o5", "al"}

TReset ==
  /\ Is("Reset") /\ Adv /\ be' = 0
  /\ mf' = ev.mf /\ tmpl' = ev.tmpl
  /\ fs' = [p \in Paths |-> ev.fs[p]]
  /\ marks' = {} /\ clock' = ev.clock
  /\ db' = [epoch |-> 0, rows |-> EmptyRows]
  /\ b' = NoBuild /\ mem' = EmptyRows /\ epoch' = 0
  /\ st' = [k \in Keys |-> "idle"] /\ fin' = {} /\ sawc' = {}
  /\ seen' = [c \in CmdNames |-> NoSeen] /\ flast' = {} /\ tampered' = {}
  /\ quiet' = NotQuiet /\ alldb' = "none" /\ last' = NoLast

TEdit     == Is("Edit") /\ Adv /\ EditSource(ev.p, ev.d, ev.t) /\ UNCHANGED be
TTouch    == Is("Touch") /\ Adv /\ TouchSource(ev.p, ev.t) /\ UNCHANGED be
TDelete   == Is("Delete") /\ Adv /\ DeleteOutput(ev.p) /\ UNCHANGED be
TTamper   == Is("Tamper") /\ Adv /\ TamperOutput(ev.p, ev.d, ev.t) /\ UNCHANGED be
TManifest == Is("Manifest") /\ Adv /\ EditManifest(ev.mf, ev.d, ev.t) /\ UNCHANGED be
TMark     == Is("Mark") /\ Adv /\ SetMark(ev.c, ev.on) /\ UNCHANGED be

TBuild ==
  /\ Is("Build") /\ Adv /\ be' = l + ev.n + 1
  /\ BuildBegin(ev.tg, [db |-> ev.o.db, k |-> ev.o.k, regen |-> ev.o.regen])

(* the database row that the running build wrote for key k, if any *)
EndEv == Log[be]
RowIdx(k) == {i \in 1..Len(EndEv.db) : EndEv.db[i].k = k}
HasRow(k) == b.o.db /\ RowIdx(k) # {} /\ EndEv.db[CHOOSE i \in RowIdx(k) : TRUE].built = epoch
RowOf(k)  == EndEv.db[CHOOSE i \in RowIdx(k) : TRUE]
DepsFor(k, dflt) == IF HasRow(k) THEN RowOf(k).deps ELSE dflt
ChgFor(k) == IF HasRow(k) THEN RowOf(k).computed = epoch ELSE TRUE

TSilent(sk) ==
  /\ Stay /\ UNCHANGED be
  /\ LET k == FirstOf(sk) IN SilentStep(k, DepsFor(k, ReqDeps(k)), ChgFor(k))

TFree ==
  /\ Stay /\ UNCHANGED be
  /\ \E k \in FreeKeys : FreeSilent(k, DepsFor(k, ReqDeps(k)), ChgFor(k))

TExec(rc) ==
  /\ Is("Exec") /\ Adv /\ UNCHANGED be /\ ev.rc = rc
  /\ \E k \in FreeKeys :
        /\ CmdOf(k) = ev.c
        /\ (ev.rc = 1) = Fails(ev.c)
        /\ FinishExec(k, ev.t, DepsFor(k, IF Fails(ev.c) THEN ReqDeps(k) ELSE CanonDeps(k)), ChgFor(k))

TRegenEnd == Stay /\ UNCHANGED be /\ RegenEnd

RowMatches(k) ==
  LET r == db'.rows[k] IN
  IF RowIdx(k) = {} THEN r.built = 0
  ELSE LET o == RowOf(k) IN
       /\ r.kind = o.kind /\ r.built = o.built /\ r.computed = o.computed
       /\ r.infos = o.infos /\ r.deps = o.deps

TBuildEnd ==
  /\ Is("BuildEnd") /\ Adv /\ UNCHANGED be
  /\ l = be
  /\ BuildEnd
  /\ ev.rc = last'.rc
  /\ \A p \in Paths : /\ fs[p].ex = ev.fs[p].ex
                     /\ fs[p].ex => (fs[p].mt = ev.fs[p].mt /\ fs[p].data = ev.fs[p].data)
  /\ b.o.db => (db'.epoch = ev.epoch /\ \A k \in Keys : RowMatches(k))

(* second opinion on the clean-build oracle: the reference ninja built the  *)
(* same sources with the same manifest from scratch                         *)
TCleanCheck ==
  /\ Is("CleanCheck") /\ Adv /\ UNCHANGED be
  /\ \A i \in 1..Len(ev.outs) : CleanData(ev.outs[i].p) = ev.outs[i].d
  /\ UNCHANGED vars

TEnd == Is("End") /\ Adv /\ ~b.on /\ UNCHANGED <<vars, be>>

TraceInit ==
  /\ l = 1 /\ be = 0
  /\ mf = [cmds |-> <<>>, regen |-> FALSE] /\ tmpl = [cmds |-> <<>>, regen |-> FALSE]
  /\ fs = <<>> /\ marks = {} /\ clock = 0
  /\ db = [epoch |-> 0, rows |-> EmptyRows]
  /\ b = NoBuild /\ mem = EmptyRows /\ epoch = 0
  /\ st = [k \in Keys |-> "idle"] /\ fin = {} /\ sawc = {}
  /\ seen = <<>> /\ flast = {} /\ tampered = {}
  /\ quiet = NotQuiet /\ alldb = "none" /\ last = NoLast
  /\ TLCSet(1, 0)

TraceNext ==
  IF b.on
  THEN LET sk == SilentKeys IN
       \/ sk # {} /\ TSilent(sk)
       \/ TExec(1)          \* a failure sets the cancel flag when the command ENDS: pending silent steps may come before or after
       \/ sk = {} /\ (TFree \/ TExec(0) \/ TRegenEnd \/ TBuildEnd)
  ELSE \/ TReset \/ TEdit \/ TTouch \/ TDelete \/ TTamper \/ TManifest \/ TMark \/ TBuild
       \/ TCleanCheck \/ TEnd

TraceSpec == TraceInit /\ [][TraceNext]_tvars

NotAccepted == l <= Len(Log)
Track == IF l > TLCGet(1) THEN TLCSet(1, l) ELSE TRUE
Post == PrintT(<<"MAXL", TLCGet(1), Len(Log)>>) /\ TLCGet(1) > Len(Log)

Loaded == fs # <<>>
TTypeOK == Loaded => TypeOK
TNinjaOutputsClean == Loaded => NinjaOutputsClean
TNinjaNullBuild == Loaded => NinjaNullBuild
TOrderOnly == Loaded => OrderOnlyOrdersButNeverTriggers
TImplicitAndDepfileTrigger == Loaded => ImplicitAndDepfileTrigger
TCommandLineChangeReruns == Loaded => CommandLineChangeReruns
TFailureStopsAndRetries == Loaded => FailureStopsAndRetries
=============================================================================
