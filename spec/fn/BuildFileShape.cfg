CONSTANT Depth = 1
INIT Init
NEXT Next
INVARIANT FullDocumentLoads
INVARIANT LoadsImpliesCanonical
INVARIANT ClientRequired
CONSTRAINT Emit
CHECK_DEADLOCK FALSE
