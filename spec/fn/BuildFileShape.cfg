CONSTANT Depth = 1
CONSTANT Family = "sections"
INIT Init
NEXT Next
INVARIANT FullDocumentLoads
INVARIANT LoadsImpliesCanonical
INVARIANT ClientRequired
INVARIANT NestedWrongKindIsError
CONSTRAINT Emit
CHECK_DEADLOCK FALSE
