--------------------------- MODULE BuildFileShape ---------------------------
(* C19 (YAML half): shapes of a build description for  BuildFile::load  (lib/BuildSystem/BuildFile.cpp,   *)
(* parseRootNode and the per-section parsers), with the verdict class the documented format               *)
(* (docs/buildsystem.rst, "Build File") fixes for each shape:                                              *)
(*    "loads"  the sections are present in the documented order with the documented node kinds             *)
(*    "error"  the order or a node kind violates the documented format: the loader must fail or report     *)
(*             through BuildFileDelegate::error - never silently accept, never crash                        *)
(*    "open"   tool-specific territory (unknown attributes, client properties): only termination and       *)
(*             "failure implies an error callback" are demanded                                             *)
(* A shape is a sequence of <<section, kind>>; tools/checks_parsers.py (SECTION_YAML) renders each pair to  *)
(* YAML text.  The domain is every order-preserving selection of the six sections (client always) with all  *)
(* kinds "ok", and everything up to Depth deviations away from one of them: another kind for one section,   *)
(* two neighbours swapped, a section duplicated, an unknown section inserted, the client section dropped.   *)
EXTENDS Integers, Sequences, TLC, Json, FiniteSets
CONSTANT Depth
VARIABLES shape, verdict

Canon == <<"client", "tools", "targets", "default", "nodes", "commands">>
Idx(s) == IF s = "bogus" THEN 7 ELSE CHOOSE i \in 1..6 : Canon[i] = s

(* <<kind, class>>: what the documented format says about a section written this way (ok / bad / open) *)
KindTable(s) ==
  CASE s = "client"   -> { <<"ok", "ok">>, <<"scalar", "bad">>, <<"seq", "bad">>, <<"emptymap", "bad">>, <<"badversion", "bad">>, <<"seqkey", "bad">>, <<"extra", "open">> }
    [] s = "tools"    -> { <<"ok", "ok">>, <<"scalar", "bad">>, <<"seq", "bad">>, <<"emptymap", "ok">>, <<"unknown-tool", "open">>, <<"unknown-attr", "open">>,
                           <<"tool-scalar", "bad">>, <<"attr-seq", "open">>, <<"attr-map", "open">> }
    [] s = "targets"  -> { <<"ok", "ok">>, <<"scalar", "bad">>, <<"seq", "bad">>, <<"emptymap", "ok">>, <<"value-scalar", "bad">>, <<"value-map", "bad">>, <<"nested-seq", "bad">> }
    [] s = "default"  -> { <<"ok", "ok">>, <<"seq", "bad">>, <<"map", "bad">>, <<"unknown-target", "bad">> }
    [] s = "nodes"    -> { <<"ok", "ok">>, <<"scalar", "bad">>, <<"seq", "bad">>, <<"emptymap", "ok">>, <<"unknown-attr", "open">>, <<"node-scalar", "bad">>, <<"attr-seq", "open">> }
    [] s = "commands" -> { <<"ok", "ok">>, <<"scalar", "bad">>, <<"seq", "bad">>, <<"emptymap", "ok">>, <<"no-tool-first", "bad">>, <<"unknown-tool", "open">>,
                           <<"tool-seq", "bad">>, <<"cmd-scalar", "bad">>, <<"empty-cmd", "bad">>, <<"inputs-scalar", "bad">>, <<"inputs-nested", "bad">>,
                           <<"outputs-map", "bad">>, <<"description-seq", "bad">>, <<"unknown-attr", "open">>, <<"attr-map", "open">>, <<"no-args", "open">>,
                           <<"dup", "bad">>, <<"two-producers", "open">> }
    [] OTHER          -> { <<"ok", "bad">> }
KindsOf(s) == { e[1] : e \in KindTable(s) }
ClassOf(s, k) == (CHOOSE e \in KindTable(s) : e[1] = k)[2]

(* order-preserving selections of the canonical sections, client always first, all kinds "ok" *)
Pick(M) == LET idx == SelectSeq(<<1, 2, 3, 4, 5, 6>>, LAMBDA i : i = 1 \/ i \in M)
           IN [j \in 1..Len(idx) |-> <<Canon[idx[j]], "ok">>]
Base == { Pick(M) : M \in SUBSET (2..6) }

InsertAt(sh, i, e) == SubSeq(sh, 1, i) \o <<e>> \o SubSeq(sh, i + 1, Len(sh))      \* after position i
Deviations(sh) ==
       { [sh EXCEPT ![j] = <<sh[j][1], k>>] : j \in 1..Len(sh), k \in KindsOf(IF Len(sh) = 0 THEN "client" ELSE sh[1][1]) \cup UNION { KindsOf(sh[x][1]) : x \in 1..Len(sh) } }
  \cup { [sh EXCEPT ![j] = sh[j + 1], ![j + 1] = sh[j]] : j \in 1..(Len(sh) - 1) }
  \cup { InsertAt(sh, j, sh[j]) : j \in 1..Len(sh) } \cup { InsertAt(sh, Len(sh), sh[j]) : j \in 1..Len(sh) }
  \cup { InsertAt(sh, i, <<"bogus", "ok">>) : i \in 0..Len(sh) }
  \cup (IF Len(sh) >= 1 THEN { Tail(sh) } ELSE {})
WellKinded(sh) == \A j \in 1..Len(sh) : sh[j][2] \in KindsOf(sh[j][1])
RECURSIVE Within(_, _)
Within(S, d) == IF d = 0 THEN S ELSE Within(S \cup { x \in UNION { Deviations(sh) : sh \in S } : WellKinded(x) }, d - 1)
(* Depth 1: one deviation from every base shape; Depth 2: additionally two deviations from the full document *)
Domain == Within(Base, 1) \cup (IF Depth >= 2 THEN Within({Pick(2..6)}, 2) ELSE {})

(* the verdict of the documented format *)
OrderOK(sh) == /\ Len(sh) >= 1
               /\ sh[1][1] = "client"
               /\ \A j \in 1..(Len(sh) - 1) : Idx(sh[j][1]) < Idx(sh[j + 1][1])
               /\ \A j \in 1..Len(sh) : sh[j][1] # "bogus"
(* "default: all" names a target: it needs a targets section that defines it *)
DefaultOK(sh) == \A j \in 1..Len(sh) : (sh[j] = <<"default", "ok">>) => \E i \in 1..(j - 1) : sh[i] = <<"targets", "ok">>
Verdict(sh) ==
  IF ~OrderOK(sh) \/ ~DefaultOK(sh) \/ \E j \in 1..Len(sh) : ClassOf(sh[j][1], sh[j][2]) = "bad" THEN "error"
  ELSE IF \E j \in 1..Len(sh) : ClassOf(sh[j][1], sh[j][2]) = "open" THEN "open"
  ELSE "loads"

Init == shape \in Domain /\ verdict = Verdict(shape)
Next == FALSE /\ UNCHANGED <<shape, verdict>>
Emit == PrintT(<<"CASE", ToJson([shape |-> shape, verdict |-> verdict])>>)

(* properties of the specification: the documented example layout loads; a document that loads has every    *)
(* section at most once and in the documented order; a document without a leading client section is an error *)
FullDocumentLoads == Verdict(Pick(2..6)) = "loads" /\ Verdict(Pick({})) = "loads"
LoadsImpliesCanonical ==
  verdict = "loads" => /\ shape[1][1] = "client"
                       /\ \A i, j \in 1..Len(shape) : i < j => Idx(shape[i][1]) < Idx(shape[j][1])
ClientRequired == (Len(shape) = 0 \/ shape[1] # <<"client", "ok">>) => verdict \in {"error", "open"}
=============================================================================
