--------------------------- MODULE BuildFileShape ---------------------------
(* C19 (YAML half): shapes of a build description for  BuildFile::load  (lib/BuildSystem/BuildFile.cpp,   *)
(* parseRootNode and the per-section parsers), with the verdict class the documented format               *)
(* (docs/buildsystem.rst, "Build File") fixes for each shape:                                              *)
(*    "loads"  the sections are present in the documented order with the documented node kinds             *)
(*    "error"  the order or a node kind violates the documented format: the loader must fail or report     *)
(*             through BuildFileDelegate::error - never silently accept, never crash                        *)
(*    "open"   tool-specific territory (unknown attributes, client properties): only termination and       *)
(*             "failure implies an error callback" are demanded                                             *)
(* A shape is a sequence of <<section, kind>>; tools/checks_parsers.py (SECTION_YAML) renders each pair to  *)
(* YAML text.  The domain is every order-preserving selection of the six sections (client always) with all  *)
(* kinds "ok", and everything up to Depth deviations away from one of them: another kind for one section,   *)
(* two neighbours swapped, a section duplicated, an unknown section inserted, the client section dropped.   *)
(*                                                                                                         *)
(* Family "values" goes below the section level: for every place where the per-section parsers inspect a   *)
(* node kind - the value of a command / tool / node attribute, the elements of a sequence-valued            *)
(* attribute, the keys and the values of a map-valued attribute, the node list of a target, the key of an   *)
(* entry and of an attribute - it enumerates the node kinds that can stand there (scalar, null, sequence,   *)
(* mapping, empty or not, nested one level deeper) with the verdict class:                                  *)
(*   a sequence / mapping / null where the loader demands a scalar (or a node list) is an "error";          *)
(*   what a correctly kinded value MEANS to the tool is the tool's business ("open"), except for the        *)
(*   documented uses (args as string or list, env as map, inputs / outputs / target node lists,              *)
(*   description as string), which must load.                                                               *)
EXTENDS Integers, Sequences, TLC, Json, FiniteSets
CONSTANTS Depth,       \* family "sections": deviations from a canonical document
          Family       \* "sections" | "values"
VARIABLES shape, verdict

Canon == <<"client", "tools", "targets", "default", "nodes", "commands">>
Idx(s) == IF s = "bogus" THEN 7 ELSE CHOOSE i \in 1..6 : Canon[i] = s

(* <<kind, class>>: what the documented format says about a section written this way (ok / bad / open) *)
KindTable(s) ==
  CASE s = "client"   -> { <<"ok", "ok">>, <<"scalar", "bad">>, <<"seq", "bad">>, <<"emptymap", "bad">>, <<"badversion", "bad">>, <<"seqkey", "bad">>, <<"extra", "open">> }
    [] s = "tools"    -> { <<"ok", "ok">>, <<"scalar", "bad">>, <<"seq", "bad">>, <<"emptymap", "ok">>, <<"unknown-tool", "open">>, <<"unknown-attr", "open">>,
                           <<"tool-scalar", "bad">>, <<"attr-seq", "open">>, <<"attr-map", "open">> }
    [] s = "targets"  -> { <<"ok", "ok">>, <<"scalar", "bad">>, <<"seq", "bad">>, <<"emptymap", "ok">>, <<"value-scalar", "bad">>, <<"value-map", "bad">>, <<"nested-seq", "bad">> }
    [] s = "default"  -> { <<"ok", "ok">>, <<"seq", "bad">>, <<"map", "bad">>, <<"unknown-target", "bad">> }
    [] s = "nodes"    -> { <<"ok", "ok">>, <<"scalar", "bad">>, <<"seq", "bad">>, <<"emptymap", "ok">>, <<"unknown-attr", "open">>, <<"node-scalar", "bad">>, <<"attr-seq", "open">> }
    [] s = "commands" -> { <<"ok", "ok">>, <<"scalar", "bad">>, <<"seq", "bad">>, <<"emptymap", "ok">>, <<"no-tool-first", "bad">>, <<"unknown-tool", "open">>,
                           <<"tool-seq", "bad">>, <<"cmd-scalar", "bad">>, <<"empty-cmd", "bad">>, <<"inputs-scalar", "bad">>, <<"inputs-nested", "bad">>,
                           <<"outputs-map", "bad">>, <<"description-seq", "bad">>, <<"unknown-attr", "open">>, <<"attr-map", "open">>, <<"no-args", "open">>,
                           <<"dup", "bad">>, <<"two-producers", "open">> }
    [] OTHER          -> { <<"ok", "bad">> }
KindsOf(s) == { e[1] : e \in KindTable(s) }
ClassOf(s, k) == (CHOOSE e \in KindTable(s) : e[1] = k)[2]

(* order-preserving selections of the canonical sections, client always first, all kinds "ok" *)
Pick(M) == LET idx == SelectSeq(<<1, 2, 3, 4, 5, 6>>, LAMBDA i : i = 1 \/ i \in M)
           IN [j \in 1..Len(idx) |-> <<Canon[idx[j]], "ok">>]
Base == { Pick(M) : M \in SUBSET (2..6) }

InsertAt(sh, i, e) == SubSeq(sh, 1, i) \o <<e>> \o SubSeq(sh, i + 1, Len(sh))      \* after position i
Deviations(sh) ==
       { [sh EXCEPT ![j] = <<sh[j][1], k>>] : j \in 1..Len(sh), k \in KindsOf(IF Len(sh) = 0 THEN "client" ELSE sh[1][1]) \cup UNION { KindsOf(sh[x][1]) : x \in 1..Len(sh) } }
  \cup { [sh EXCEPT ![j] = sh[j + 1], ![j + 1] = sh[j]] : j \in 1..(Len(sh) - 1) }
  \cup { InsertAt(sh, j, sh[j]) : j \in 1..Len(sh) } \cup { InsertAt(sh, Len(sh), sh[j]) : j \in 1..Len(sh) }
  \cup { InsertAt(sh, i, <<"bogus", "ok">>) : i \in 0..Len(sh) }
  \cup (IF Len(sh) >= 1 THEN { Tail(sh) } ELSE {})
WellKinded(sh) == \A j \in 1..Len(sh) : sh[j][2] \in KindsOf(sh[j][1])
RECURSIVE Within(_, _)
Within(S, d) == IF d = 0 THEN S ELSE Within(S \cup { x \in UNION { Deviations(sh) : sh \in S } : WellKinded(x) }, d - 1)
(* Depth 1: one deviation from every base shape; Depth 2: additionally two deviations from the full document *)
Domain == Within(Base, 1) \cup (IF Depth >= 2 THEN Within({Pick(2..6)}, 2) ELSE {})

(* the verdict of the documented format *)
OrderOK(sh) == /\ Len(sh) >= 1
               /\ sh[1][1] = "client"
               /\ \A j \in 1..(Len(sh) - 1) : Idx(sh[j][1]) < Idx(sh[j + 1][1])
               /\ \A j \in 1..Len(sh) : sh[j][1] # "bogus"
(* "default: all" names a target: it needs a targets section that defines it *)
DefaultOK(sh) == \A j \in 1..Len(sh) : (sh[j] = <<"default", "ok">>) => \E i \in 1..(j - 1) : sh[i] = <<"targets", "ok">>
Verdict(sh) ==
  IF ~OrderOK(sh) \/ ~DefaultOK(sh) \/ \E j \in 1..Len(sh) : ClassOf(sh[j][1], sh[j][2]) = "bad" THEN "error"
  ELSE IF \E j \in 1..Len(sh) : ClassOf(sh[j][1], sh[j][2]) = "open" THEN "open"
  ELSE "loads"

-----------------------------------------------------------------------------
(* family "values" *)
(* what can stand where a scalar is expected inside a collection:                                            *)
(*   "s" scalar   "n" null (an empty value; llvm::yaml reads "~" as a plain scalar)   "q" [a]   "eq" []   "m" {a: b}   "em" {}  *)
(* (a flow sequence cannot hold an empty element, so "n" appears as a map value and as a whole attribute value only)    *)
ElemKinds == {"s", "n", "q", "eq", "m", "em"}
SeqElemKinds == ElemKinds \ {"n"}
KeyKinds  == {"s", "q", "m"}                                   \* key of an inner mapping: scalar, [a], {a: b}
SeqEls == UNION { [1..n -> SeqElemKinds] : n \in 0..2 }
MapEntry == KeyKinds \X ElemKinds
MapEls == {<<>>} \cup { <<x>> : x \in MapEntry } \cup { << <<"s", "s">>, x >> : x \in MapEntry } \cup { << x, <<"s", "s">> >> : x \in MapEntry }
Values == { [top |-> "scalar", el |-> <<>>], [top |-> "null", el |-> <<>>] }
          \cup { [top |-> "seq", el |-> e] : e \in SeqEls } \cup { [top |-> "map", el |-> e] : e \in MapEls }

(* the places: <<section, attribute>>; "x-attr" is an attribute no tool knows; "#entry" / "#attr" are the KEY of *)
(* an entry of the section / of an attribute inside an entry (value shapes: only the key kinds q, m)            *)
AttrSites == { <<"commands", a>> : a \in {"args", "env", "deps", "description", "inputs", "outputs", "x-attr"} }
        \cup { <<"tools", "x-attr">> }
        \cup { <<"nodes", a>> : a \in {"is-virtual", "content-exclusion-patterns", "must-scan-after-paths", "x-attr"} }
        \cup { <<"targets", "#nodes">> }
KeySites == { <<sec, "#entry">> : sec \in {"commands", "tools", "nodes", "targets"} } \cup { <<sec, "#attr">> : sec \in {"commands", "tools", "nodes"} }
KeyValues == { [top |-> "seq", el |-> <<>>], [top |-> "map", el |-> <<>>] }

NodeList(site) == site \in { <<"commands", "inputs">>, <<"commands", "outputs">>, <<"targets", "#nodes">> }
ScalarOnly(site) == site = <<"commands", "description">>
AllScalar(v) == /\ v.top # "null"
                /\ (v.top = "seq" => \A i \in 1..Len(v.el) : v.el[i] = "s")
                /\ (v.top = "map" => \A i \in 1..Len(v.el) : v.el[i] = <<"s", "s">>)
(* documented uses that must load *)
Documented(site, v) == \/ (site = <<"commands", "args">> /\ (v.top = "scalar" \/ (v.top = "seq" /\ Len(v.el) >= 1)))
                       \/ (site = <<"commands", "env">> /\ v.top = "map")
ValueVerdict(site, v) ==
  IF site \in KeySites THEN "error"                                           \* a key that is not a scalar
  ELSE IF NodeList(site) THEN (IF v.top = "seq" /\ AllScalar(v) THEN "loads" ELSE "error")
  ELSE IF ScalarOnly(site) THEN (IF v.top = "scalar" THEN "loads" ELSE "error")
  ELSE IF ~AllScalar(v) THEN "error"                                         \* a collection / null where a scalar must stand
  ELSE IF Documented(site, v) THEN "loads"
  ELSE "open"
ValueDomain == { <<site, v>> : site \in AttrSites, v \in Values } \cup { <<site, v>> : site \in KeySites, v \in KeyValues }

Init == \/ /\ Family = "sections"
           /\ shape \in Domain
           /\ verdict = Verdict(shape)
        \/ /\ Family = "values"
           /\ shape \in ValueDomain
           /\ verdict = ValueVerdict(shape[1], shape[2])
Next == FALSE /\ UNCHANGED <<shape, verdict>>
Emit == PrintT(<<"CASE", ToJson(IF Family = "sections" THEN [shape |-> shape, verdict |-> verdict]
                                ELSE [sec |-> shape[1][1], attr |-> shape[1][2], v |-> shape[2], verdict |-> verdict])>>)

(* properties of the specification: the documented example layout loads; a document that loads has every    *)
(* section at most once and in the documented order; a document without a leading client section is an error *)
FullDocumentLoads == Verdict(Pick(2..6)) = "loads" /\ Verdict(Pick({})) = "loads"
LoadsImpliesCanonical ==
  (Family = "sections" /\ verdict = "loads") => /\ shape[1][1] = "client"
                       /\ \A i, j \in 1..Len(shape) : i < j => Idx(shape[i][1]) < Idx(shape[j][1])
ClientRequired == (Family = "sections" /\ (Len(shape) = 0 \/ shape[1] # <<"client", "ok">>)) => verdict \in {"error", "open"}

(* family "values": a collection or null nested where the loader demands a scalar is an error at EVERY place;     *)
(* every place has shapes of each verdict it can have (the enumeration is not vacuous)                           *)
NestedWrongKindIsError ==
  (Family = "values" /\ shape[1] \in AttrSites) =>
     LET v == shape[2] IN
      ((v.top = "seq" /\ \E i \in 1..Len(v.el) : v.el[i] # "s") \/ (v.top = "map" /\ \E i \in 1..Len(v.el) : v.el[i] # <<"s", "s">>) \/ v.top = "null")
        => verdict = "error"
EveryPlaceJudged ==
  /\ \A site \in AttrSites : \E v \in Values : ValueVerdict(site, v) = "error"
  /\ \A site \in AttrSites : \E v \in Values : ValueVerdict(site, v) # "error"
ASSUME EveryPlaceJudged
=============================================================================
