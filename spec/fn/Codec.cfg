INIT Init
NEXT Next
INVARIANT RoundTrip
INVARIANT TagsDistinct
CONSTRAINT Emit
CHECK_DEADLOCK FALSE
