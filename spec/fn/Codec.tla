------------------------------- MODULE Codec -------------------------------
(* C15: wire formats of BuildValue (include/llbuild/BuildSystem/BuildValue.h), BuildKey      *)
(* (BuildKey.h), StringList, FileInfo and the BinaryEncoder primitives, as byte sequences.    *)
(* 64-bit fields are modelled as their 8 little-endian bytes (TLC integers are 32 bit), so    *)
(* the specification is about STRUCTURE: which fields, in which order, with which prefixes    *)
(* and tags.  TLC checks Decode(Encode(x)) = x on the whole bounded domain (which implies     *)
(* injectivity of Encode) and tag distinctness; the enumerated (x, Encode(x)) pairs are       *)
(* compared with the bytes the implementation produces.                                       *)
EXTENDS Naturals, Sequences, FiniteSets, TLC, Json, SequencesExt

Byte == 0..255
Z8 == <<0,0,0,0,0,0,0,0>>
U64Edge == { Z8, <<1,0,0,0,0,0,0,0>>, <<255,0,0,0,0,0,0,0>>, <<0,1,0,0,0,0,0,0>>, <<0,0,0,0,1,0,0,0>>,
             <<255,255,255,255,255,255,255,255>> }
Sum0 == [i \in 1..32 |-> 0]
Sum1 == [i \in 1..32 |-> IF i = 1 THEN 1 ELSE IF i = 32 THEN 254 ELSE 0]
(* FileInfo: device inode mode size seconds nanoseconds checksum *)
BaseInfo == [device |-> <<1,0,0,0,0,0,0,0>>, inode |-> <<0,1,0,0,0,0,0,0>>, mode |-> <<255,0,0,0,0,0,0,0>>,
             size |-> <<0,0,0,0,1,0,0,0>>, sec |-> <<1,0,0,0,0,0,0,0>>, nsec |-> Z8, sum |-> Sum0]
Fields == {"device", "inode", "mode", "size", "sec", "nsec"}
InfoVariants == {BaseInfo} \cup { [BaseInfo EXCEPT ![f] = v] : f \in Fields, v \in U64Edge } \cup {[BaseInfo EXCEPT !.sum = Sum1]}
FewInfos == {BaseInfo, [BaseInfo EXCEPT !.inode = Z8], [BaseInfo EXCEPT !.sum = Sum1]}
EncInfo(i) == i.device \o i.inode \o i.mode \o i.size \o i.sec \o i.nsec \o i.sum

U32(n) == <<n % 256, (n \div 256) % 256, (n \div 65536) % 256, 0>>     \* n < 2^24 here
U64n(n) == U32(n) \o <<0,0,0,0>>

(* StringList: u64 total size, then every string followed by a NUL *)
StrAlphabet == {97, 47, 255}                               \* 'a' '/' 0xFF   (no NUL inside list elements)
Strs(n) == UNION { [1..k -> StrAlphabet] : k \in 0..n }
RECURSIVE Flat(_)
Flat(l) == IF l = <<>> THEN <<>> ELSE Head(l) \o <<0>> \o Flat(Tail(l))
EncStrList(l) == U64n(Len(Flat(l))) \o Flat(l)
\* the strings between the NUL terminators (written without recursion: one level per byte overflowed TLC's stack at 255 bytes)
SplitNul(bs, cur) ==
  LET Z  == {i \in 1..Len(bs) : bs[i] = 0}
      n  == Cardinality(Z)
      zs == [k \in 1..n |-> CHOOSE z \in Z : Cardinality({y \in Z : y < z}) = k - 1]
  IN [k \in 1..n |-> SubSeq(bs, IF k = 1 THEN 1 ELSE zs[k-1] + 1, zs[k] - 1)]
FromU32(b) == b[1] + 256 * b[2] + 65536 * b[3]
FromU64(b) == b[1] + 256 * b[2] + 65536 * b[3]
(* lengths at which a byte of the little-endian length prefix crosses 0x7F/0x80, 0xFF/0x100, and the second and third byte   *)
(* come into play (seed C15_7: a length byte >= 0x80 was sign-extended by the decoder)                                        *)
LongLens == {127, 128, 129, 255, 256, 257, 384, 32767, 32768, 65535, 65536}
LongStrs == { [i \in 1..n |-> IF i = n THEN 47 ELSE 97] : n \in LongLens }
MidStrs == { ls \in LongStrs : Len(ls) < 1000 }            \* inside value string lists

(* ---------------- BuildValue ---------------- *)
KindNames == <<"Invalid", "VirtualInput", "ExistingInput", "MissingInput", "DirectoryContents", "DirectoryTreeSignature",
               "DirectoryTreeStructureSignature", "StaleFileRemoval", "MissingOutput", "FailedInput", "SuccessfulCommand",
               "FailedCommand", "PropagatedFailureCommand", "CancelledCommand", "SkippedCommand", "Target",
               "FilteredDirectoryContents", "SuccessfulCommandWithOutputSignature">>
Tag(k) == CHOOSE i \in 1..Len(KindNames) : KindNames[i] = k
HasSig(k) == k \in {"DirectoryTreeSignature", "DirectoryTreeStructureSignature", "SuccessfulCommandWithOutputSignature"}
HasInfo(k) == k \in {"ExistingInput", "SuccessfulCommand", "SuccessfulCommandWithOutputSignature", "DirectoryContents"}
HasStrs(k) == k \in {"DirectoryContents", "FilteredDirectoryContents", "StaleFileRemoval"}
NoSig == Z8
InfoSeqs == UNION { [1..n -> FewInfos] : n \in 1..3 }      \* the constructors require at least one output info
StrLists == UNION { [1..n -> Strs(2)] : n \in 0..2 }
Values ==
  { [kind |-> k, sig |-> NoSig, infos |-> <<>>, strs |-> <<>>] : k \in {KindNames[i] : i \in 1..Len(KindNames)} \ {k2 \in {KindNames[i] : i \in 1..Len(KindNames)} : HasSig(k2) \/ HasInfo(k2) \/ HasStrs(k2)} }
  \cup { [kind |-> k, sig |-> s, infos |-> <<>>, strs |-> <<>>] : k \in {"DirectoryTreeSignature", "DirectoryTreeStructureSignature"}, s \in U64Edge }
  \cup { [kind |-> "ExistingInput", sig |-> NoSig, infos |-> <<i>>, strs |-> <<>>] : i \in InfoVariants }
  \cup { [kind |-> "SuccessfulCommand", sig |-> NoSig, infos |-> is, strs |-> <<>>] : is \in InfoSeqs }
  \cup { [kind |-> "SuccessfulCommandWithOutputSignature", sig |-> s, infos |-> is, strs |-> <<>>] : s \in {Z8, <<0,0,0,0,1,0,0,0>>}, is \in InfoSeqs }
  \cup { [kind |-> "DirectoryContents", sig |-> NoSig, infos |-> <<i>>, strs |-> l] : i \in FewInfos, l \in StrLists }
  \cup { [kind |-> k, sig |-> NoSig, infos |-> <<>>, strs |-> l] : k \in {"FilteredDirectoryContents", "StaleFileRemoval"}, l \in StrLists }
  \cup { [kind |-> k, sig |-> NoSig, infos |-> <<>>, strs |-> l] : k \in {"FilteredDirectoryContents", "StaleFileRemoval"},
                                                                  l \in UNION { {<<ls>>, <<<<97>>, ls>>} : ls \in MidStrs } }

RECURSIVE EncInfos(_)
EncInfos(is) == IF is = <<>> THEN <<>> ELSE EncInfo(Head(is)) \o EncInfos(Tail(is))
EncodeValue(v) ==
  <<Tag(v.kind) - 1>>
  \o (IF HasSig(v.kind) THEN v.sig ELSE <<>>)
  \o (IF HasInfo(v.kind) THEN U32(Len(v.infos)) \o EncInfos(v.infos) ELSE <<>>)
  \o (IF HasStrs(v.kind) THEN EncStrList(v.strs) ELSE <<>>)

DecInfo(b) == [device |-> SubSeq(b, 1, 8), inode |-> SubSeq(b, 9, 16), mode |-> SubSeq(b, 17, 24), size |-> SubSeq(b, 25, 32),
               sec |-> SubSeq(b, 33, 40), nsec |-> SubSeq(b, 41, 48), sum |-> SubSeq(b, 49, 80)]
DecodeValue(b) ==
  IF b = <<>> THEN [kind |-> "Invalid", sig |-> NoSig, infos |-> <<>>, strs |-> <<>>]
  ELSE LET k == KindNames[b[1] + 1]
           p1 == 2
           sg == IF HasSig(k) THEN SubSeq(b, p1, p1 + 7) ELSE NoSig
           p2 == IF HasSig(k) THEN p1 + 8 ELSE p1
           n  == IF HasInfo(k) THEN FromU32(SubSeq(b, p2, p2 + 3)) ELSE 0
           p3 == IF HasInfo(k) THEN p2 + 4 ELSE p2
           is == [i \in 1..n |-> DecInfo(SubSeq(b, p3 + 80 * (i - 1), p3 + 80 * i - 1))]
           p4 == p3 + 80 * n
           sz == IF HasStrs(k) THEN FromU64(SubSeq(b, p4, p4 + 7)) ELSE 0
           ls == IF HasStrs(k) THEN SplitNul(SubSeq(b, p4 + 8, p4 + 7 + sz), <<>>) ELSE <<>>
       IN [kind |-> k, sig |-> sg, infos |-> is, strs |-> ls]

(* ---------------- BuildKey ---------------- *)
NameAlphabet == {97, 0, 47, 255}                          \* names and paths may contain NUL
Names == UNION { [1..k -> NameAlphabet] : k \in 0..2 }
SimpleKinds == [Command |-> 67, DirectoryContents |-> 68, Node |-> 78, Stat |-> 73, Target |-> 84]   \* C D N I T
FilterKinds == [FilteredDirectoryContents |-> 100, DirectoryTreeSignature |-> 83, DirectoryTreeStructureSignature |-> 115]  \* d S s
CustomCode == 88                                                                                     \* X
KeyLists == UNION { [1..n -> Strs(1)] : n \in 0..2 }
KeysDom ==
  { [kind |-> k, name |-> nm, filters |-> <<>>, data |-> <<>>] : k \in DOMAIN SimpleKinds, nm \in Names }
  \cup { [kind |-> k, name |-> nm, filters |-> f, data |-> <<>>] : k \in DOMAIN FilterKinds, nm \in Names, f \in KeyLists }
  \cup { [kind |-> "CustomTask", name |-> nm, filters |-> <<>>, data |-> d] : nm \in Names, d \in Names }
  \cup { [kind |-> k, name |-> nm, filters |-> <<>>, data |-> <<>>] : k \in {"Node", "Command"}, nm \in LongStrs }
  \cup { [kind |-> k, name |-> nm, filters |-> f, data |-> <<>>] : k \in DOMAIN FilterKinds, nm \in LongStrs, f \in {<<>>, <<<<97>>, <<>> >>} }
  \cup { [kind |-> "CustomTask", name |-> nm, filters |-> <<>>, data |-> d] : nm \in LongStrs, d \in {<<>>, <<97, 0>>} }
EncodeKey(k) ==
  IF k.kind \in DOMAIN SimpleKinds THEN <<SimpleKinds[k.kind]>> \o k.name
  ELSE IF k.kind \in DOMAIN FilterKinds THEN <<FilterKinds[k.kind]>> \o U32(Len(k.name)) \o k.name \o EncStrList(k.filters)
  ELSE <<CustomCode>> \o U32(Len(k.name)) \o k.name \o k.data
KindOfCode(c) ==
  IF \E s \in DOMAIN SimpleKinds : SimpleKinds[s] = c THEN CHOOSE s \in DOMAIN SimpleKinds : SimpleKinds[s] = c
  ELSE IF \E s \in DOMAIN FilterKinds : FilterKinds[s] = c THEN CHOOSE s \in DOMAIN FilterKinds : FilterKinds[s] = c
  ELSE IF c = CustomCode THEN "CustomTask" ELSE "Unknown"
DecodeKey(b) ==
  LET k == KindOfCode(b[1]) IN
  IF k \in DOMAIN SimpleKinds THEN [kind |-> k, name |-> SubSeq(b, 2, Len(b)), filters |-> <<>>, data |-> <<>>]
  ELSE LET n == FromU32(SubSeq(b, 2, 5))
           nm == SubSeq(b, 6, 5 + n)
           rest == SubSeq(b, 6 + n, Len(b))
       IN IF k = "CustomTask" THEN [kind |-> k, name |-> nm, filters |-> <<>>, data |-> rest]
          ELSE [kind |-> k, name |-> nm, filters |-> SplitNul(SubSeq(rest, 9, 8 + FromU64(SubSeq(rest, 1, 8))), <<>>), data |-> <<>>]

(* ---------------- enumeration and properties ---------------- *)
VARIABLES what, x
Init == (what = "value" /\ x \in Values) \/ (what = "key" /\ x \in KeysDom)
Next == UNCHANGED <<what, x>>
Bytes == IF what = "value" THEN EncodeValue(x) ELSE EncodeKey(x)
RoundTrip == IF what = "value" THEN DecodeValue(EncodeValue(x)) = x ELSE DecodeKey(EncodeKey(x)) = x
TagsDistinct == /\ \A i, j \in 1..Len(KindNames) : i # j => KindNames[i] # KindNames[j]
                /\ Cardinality({SimpleKinds[s] : s \in DOMAIN SimpleKinds} \cup {FilterKinds[s] : s \in DOMAIN FilterKinds} \cup {CustomCode}) = 9
Emit == PrintT(<<"CASE", ToJson([what |-> what, x |-> x, bytes |-> Bytes])>>)
=============================================================================
