CONSTANT MaxLen = 5
CONSTANT Alphabet = {0,16,17,64,127,97}
CONSTANT First = {0,16,17,64,127,97,256}
INIT Init
NEXT Next
INVARIANT BadInputIsError
INVARIANT OperandsWithinBuffer
CONSTRAINT Emit
CHECK_DEADLOCK FALSE
