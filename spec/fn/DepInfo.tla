------------------------------ MODULE DepInfo ------------------------------
(* C19 (and the parsing half of C11): function-level specification of                          *)
(*   llbuild::core::DependencyInfoParser::parse  (lib/Core/DependencyInfoParser.cpp)           *)
(* the ld64 "dependency info" format: a sequence of records <opcode byte> <NUL-terminated       *)
(* non-empty operand>; the first record must be the version record (opcode 0x00).              *)
(* Parse is the INTENDED function with the code's case analysis; its value is the callback     *)
(* sequence  <<"V"|"I"|"M"|"O", operand>>  /  <<"E">> (error).                                  *)
(* S11: the code validates only that the LAST byte is NUL.  When that NUL is consumed as the    *)
(* opcode of a record (the file ends "...\0\0", or is just "\0") the operand scan starts AT      *)
(* `end`.  The intended function reports an error there (a record without operand).             *)
(* Every byte access goes through At(), which asserts the index lies inside the buffer.        *)
EXTENDS Integers, Sequences, TLC, Json, FiniteSets
CONSTANTS MaxLen, Alphabet, First
VARIABLES buf, out

OpVersion == 0  OpInput == 16  OpMissing == 17  OpOutput == 64

At(s, i) == IF i \in 1..Len(s) THEN s[i] ELSE Assert(FALSE, <<"NoReadPastEnd", s, i>>)

(* position of the first NUL at or after index i (1-based); the caller guarantees there is one *)
RECURSIVE NulFrom(_, _)
NulFrom(s, i) == IF At(s, i) = 0 THEN i ELSE NulFrom(s, i + 1)

RECURSIVE Records(_, _, _)
Records(s, p, ev) ==                      \* p = bytes consumed
  IF p = Len(s) THEN ev
  ELSE LET op == At(s, p + 1) IN
       IF p + 1 = Len(s) THEN Append(ev, <<"E">>)                 \* an opcode with nothing behind it (it is the final NUL)
       ELSE LET z == NulFrom(s, p + 2)                            \* exists: the last byte is NUL and p + 2 <= Len(s)
                operand == [i \in 1..(z - p - 2) |-> At(s, p + 1 + i)]
            IN IF operand = <<>> THEN Append(ev, <<"E">>)         \* "empty operand": parsing stops
               ELSE Records(s, z,
                      IF op = OpVersion THEN (IF p # 0 THEN Append(ev, <<"E">>) ELSE Append(ev, <<"V", operand>>))
                      ELSE IF op = OpInput THEN Append(ev, <<"I", operand>>)
                      ELSE IF op = OpMissing THEN Append(ev, <<"M", operand>>)
                      ELSE IF op = OpOutput THEN Append(ev, <<"O", operand>>)
                      ELSE Append(ev, <<"E">>))                   \* "unknown opcode in file": parsing continues

Parse(s) ==
  IF s = <<>> \/ s[Len(s)] # 0 THEN << <<"E">> >>                 \* "missing null terminator"
  ELSE IF s[1] # OpVersion THEN << <<"E">> >>                     \* "missing version record"
  ELSE Records(s, 0, <<>>)

HasErr(ev) == \E i \in 1..Len(ev) : ev[i][1] = "E"
OutOf(s) == LET ev == Parse(s) IN [i |-> s, ev |-> ev, cls |-> IF HasErr(ev) THEN "err" ELSE "wf"]

StrsUpTo(k) == UNION { [1..n -> Alphabet] : n \in 0..k }
Part == (IF 256 \in First THEN {<<>>} ELSE {}) \cup { <<a>> \o t : a \in First \ {256}, t \in StrsUpTo(MaxLen - 1) }   \* partition on the first byte (256 = the empty string)
Init == buf \in Part /\ out = OutOf(buf)
Next == FALSE /\ UNCHANGED <<buf, out>>
Emit == PrintT(<<"CASE", ToJson(out)>>)

-----------------------------------------------------------------------------
(* an independent, declarative reading of "well-formed": the buffer splits into records           *)
(* op (non-NUL)+ NUL with op = version exactly for the first record and a known opcode otherwise  *)
RECURSIVE WF(_, _)
WF(s, p) ==
  IF p = Len(s) THEN p > 0
  ELSE /\ p + 2 <= Len(s)
       /\ s[p + 2] # 0
       /\ (p = 0 => s[p + 1] = OpVersion)
       /\ (p > 0 => s[p + 1] \in {OpInput, OpMissing, OpOutput})
       /\ \E z \in (p + 3)..Len(s) : /\ s[z] = 0
                                     /\ \A j \in (p + 2)..(z - 1) : s[j] # 0
                                     /\ WF(s, z)
BadInputIsError == WF(buf, 0) <=> ~HasErr(out.ev)

(* operands lie inside the buffer, contain no NUL and are followed by their terminator:            *)
(* the operands of an accepted file, with their opcodes and terminators, re-assemble the file       *)
RECURSIVE Reassemble(_, _)
Reassemble(ev, i) ==
  IF i > Len(ev) THEN <<>>
  ELSE << CASE ev[i][1] = "V" -> OpVersion [] ev[i][1] = "I" -> OpInput [] ev[i][1] = "M" -> OpMissing [] OTHER -> OpOutput >>
       \o ev[i][2] \o <<0>> \o Reassemble(ev, i + 1)
OperandsWithinBuffer ==
  /\ \A e \in {out.ev[i] : i \in 1..Len(out.ev)} : e[1] # "E" => (Len(e[2]) > 0 /\ \A j \in 1..Len(e[2]) : e[2][j] # 0)
  /\ (out.cls = "wf" => Reassemble(out.ev, 1) = buf)
=============================================================================
