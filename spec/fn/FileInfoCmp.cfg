INIT Init
NEXT Next
CONSTRAINT Emit
CHECK_DEADLOCK FALSE
