---------------------------- MODULE FileInfoCmp ----------------------------
(* C13: file change detection in the three file-system modes.                              *)
(* An observation of a path is abstracted to [type, content, mtime]; a PAIR of observations *)
(* additionally says whether the second object kept the inode of the first.                 *)
(*   content: for a file  "A" and "B" have the same size and different bytes, "C" another   *)
(*            size, "E" is the empty file (size 0); for a symlink "A", "B", "C" as link       *)
(*            targets; directories: "-"                                                     *)
(*   mtime:   "t1", "t1n" (same second, different nanoseconds), "t2" (another second)       *)
(* Verdict(mode, a, b, sameIno) is what the property DEMANDS of comparing the two FileInfo  *)
(* records:  "eq", "ne", or "open" where the property is silent.                            *)
EXTENDS Naturals, Sequences, TLC, Json
Modes == {"default", "device-agnostic", "checksum-only"}
Contents == {"A", "B", "C"}
MTimes == {"t1", "t1n", "t2"}
Missing == [type |-> "missing", content |-> "-", mtime |-> "-"]
Objs == {Missing}
        \cup [type : {"file"}, content : Contents \cup {"E"}, mtime : MTimes]
        \cup [type : {"dir"}, content : {"-"}, mtime : MTimes]
        \cup [type : {"link"}, content : Contents, mtime : MTimes]
SizeOf(o) == IF o.type = "dir" THEN "dirsize" ELSE IF o.content = "C" THEN "s2" ELSE IF o.content = "E" THEN "s0" ELSE "s1"

VARIABLES mode, a, b, sameIno
Init == /\ mode \in Modes /\ a \in Objs /\ b \in Objs /\ sameIno \in BOOLEAN
        /\ (sameIno => a.type = b.type /\ a.type # "missing")      \* an inode can only be kept by an object of the same kind
        /\ (sameIno /\ a.type = "link" => a.content = b.content)  \* a symlink cannot be retargeted in place
Next == UNCHANGED <<mode, a, b, sameIno>>

Untouched == a = b /\ (sameIno \/ a.type = "missing")
Verdict ==
  IF a.type = "missing" /\ b.type = "missing" THEN "eq"
  ELSE IF a.type = "missing" \/ b.type = "missing" THEN "ne"                       \* existence
  ELSE IF Untouched THEN "eq"                                                      \* not touched
  ELSE CASE mode = "default" ->
              IF ~sameIno \/ SizeOf(a) # SizeOf(b) \/ a.mtime # b.mtime THEN "ne" ELSE "open"
         [] mode = "device-agnostic" ->
              IF SizeOf(a) # SizeOf(b) \/ a.mtime # b.mtime THEN "ne"
              ELSE IF a.type = b.type /\ a.content = b.content THEN "eq"           \* only the inode differs: ignored
              ELSE "open"
         [] mode = "checksum-only" ->
              IF a.type # b.type THEN "ne"                                         \* type
              ELSE IF a.type = "dir" THEN "eq"                                     \* same type, no content to compare
              ELSE IF a.content # b.content THEN "ne"                              \* content change of any size
              ELSE "eq"                                                            \* pure timestamp / inode change
(* the missing sentinel must not be produced for an existing object *)
Emit == PrintT(<<"CASE", ToJson([mode |-> mode, a |-> a, b |-> b, sameIno |-> sameIno, verdict |-> Verdict])>>)
(* sanity of the specification *)
Symmetric == TRUE
=============================================================================
