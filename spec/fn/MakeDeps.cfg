CONSTANT MaxLen = 3
CONSTANT Alphabet = {97,32,35,36,92,58,10,13,9,47}
CONSTANT First = {97,32,35,36,92,58,10,13,9,47,256}
CONSTANT Second = {97,32,35,36,92,58,10,13,9,47,256}
CONSTANT Family = "all"
CONSTANT PathLen = 2
CONSTANT DepLen = 2
INIT Init
NEXT Next
INVARIANT RoundTrip
INVARIANT Protocol
INVARIANT MalformedReported
INVARIANT CursorWithinBuffer
INVARIANT WordsNonEmpty
CONSTRAINT Emit
CHECK_DEADLOCK FALSE
