------------------------------ MODULE MakeDeps ------------------------------
(* C19 (and the parsing half of C11): function-level specification of                          *)
(*   llbuild::core::MakefileDepsParser::parse  (lib/Core/MakefileDepsParser.cpp)               *)
(* - isWordChar, skipWhitespaceAndComments, skipNonNewlineWhitespace, skipToEndOfLine, lexWord  *)
(*   and the rule / prerequisite loops of parse(), over byte sequences (naturals 0..255).      *)
(* Parse is the INTENDED function, written with the same case analysis as the code.  Its value *)
(* is the sequence of ParseActions callbacks:                                                  *)
(*    <<"S", word>> actOnRuleStart (unescaped target)    <<"D", word>> actOnRuleDependency      *)
(*    <<"E">>       error(...)                            <<"X">>       actOnRuleEnd             *)
(* together with a class that says how much the property fixes for this input:                 *)
(*    "wf"    the input is in the documented format: the callbacks are fixed exactly           *)
(*    "err"   the input is malformed: the property demands that an error is reported (and that *)
(*            nothing is read out of bounds); what else is emitted is left open                *)
(*    "open"  the format is silent or the code's comments contradict each other (a '#' comment, *)
(*            a backslash as the very last byte, backslash + CR LF glued to a word): only the   *)
(*            safety half (terminates, cursor <= end, protocol of callbacks) is demanded        *)
(* Every byte access goes through At(), which asserts the index lies inside the buffer         *)
(* (NoReadPastEnd of the specification's own cursor arithmetic); Fwd asserts that every         *)
(* sub-lexer leaves the cursor between where it started and the end (cursor <= end in every    *)
(* step).  S10 (a trailing backslash moves the code's cursor beyond `end`) is exactly the case *)
(* where the naive transcription would trip these assertions.                                  *)
EXTENDS Integers, Sequences, TLC, Json, FiniteSets
CONSTANTS MaxLen,     \* longest enumerated raw buffer
          Alphabet,   \* bytes of raw buffers
          First,      \* partition on the first byte (256 = the empty buffer); for "render": first byte of the first target
          Second,     \* partition on the second byte (256 = buffers shorter than two); for "render": first byte of the first prerequisite (256 = none)
          DepLen,     \* longest first prerequisite in rendered rule lists (targets: PathLen; a second prerequisite has length 1)
          Family,     \* "all": raw strings;  "render": rendered rule lists (RoundTrip)
          PathLen     \* longest path in rendered rule lists

VARIABLES buf, src, out

NUL == 0  TAB == 9  NL == 10  CR == 13  SP == 32  HASH == 35  DOLLAR == 36  COLON == 58  BSL == 92  SLASH == 47  LA == 97

At(s, i) == IF i \in 1..Len(s) THEN s[i] ELSE Assert(FALSE, <<"NoReadPastEnd", s, i>>)
Fwd(s, p0, p1) == IF p0 <= p1 /\ p1 <= Len(s) THEN TRUE ELSE Assert(FALSE, <<"CursorBeyondEnd", s, p0, p1>>)

IsWordChar(c) == c \notin {NUL, TAB, CR, NL, SP, DOLLAR, COLON}

(* skip a comment: up to, not past, the next newline *)
RECURSIVE CommentEnd(_, _)
CommentEnd(s, p) == IF p = Len(s) \/ At(s, p + 1) = NL THEN p ELSE CommentEnd(s, p + 1)

(* skipWhitespaceAndComments; o is set when a comment was met (class "open") *)
RECURSIVE SkipWsC(_, _, _)
SkipWsC(s, p, o) ==
  IF p = Len(s) THEN [p |-> p, o |-> o]
  ELSE LET c == At(s, p + 1) IN
       IF c = HASH THEN SkipWsC(s, CommentEnd(s, p + 1), TRUE)
       ELSE IF c \in {SP, TAB, NL, CR} THEN SkipWsC(s, p + 1, o)
       ELSE [p |-> p, o |-> o]

(* skipNonNewlineWhitespace: blanks, CR, and backslash-newline / backslash-CR-LF continuations *)
RECURSIVE SkipNNW(_, _)
SkipNNW(s, p) ==
  IF p = Len(s) THEN p
  ELSE LET c == At(s, p + 1) IN
       IF c \in {SP, TAB, CR} THEN SkipNNW(s, p + 1)
       ELSE IF c = BSL /\ p + 1 # Len(s) /\ At(s, p + 2) = NL THEN SkipNNW(s, p + 2)
       ELSE IF c = BSL /\ p + 2 < Len(s) /\ At(s, p + 2) = CR /\ At(s, p + 3) = NL THEN SkipNNW(s, p + 3)
       ELSE p

(* skipToEndOfLine: past the next newline, or to the end *)
RECURSIVE SkipEOL(_, _)
SkipEOL(s, p) == IF p = Len(s) THEN p ELSE IF At(s, p + 1) = NL THEN p + 1 ELSE SkipEOL(s, p + 1)

(* lexWord, with the escaping rules documented in the code:                                      *)
(*   "\ " -> ' '   "\#" -> '#'   "\\" -> '\'   "\c" -> '\' c  for every other c   "$$" -> '$'    *)
(*   backslash-newline ends the word; a byte that is no word character ends the word             *)
RECURSIVE LexWord(_, _, _, _)
LexWord(s, p, w, o) ==
  IF p = Len(s) THEN [p |-> p, w |-> w, o |-> o]
  ELSE LET c == At(s, p + 1) IN
    IF c = BSL
    THEN IF p + 1 # Len(s) /\ At(s, p + 2) = NL THEN [p |-> p, w |-> w, o |-> o]
         ELSE IF p + 1 = Len(s)
              THEN [p |-> p + 1, w |-> Append(w, BSL), o |-> TRUE]      \* the last byte is a backslash: nothing follows that could be escaped
         ELSE LET c2 == At(s, p + 2)
                  o2 == o \/ (c2 = CR /\ p + 2 # Len(s) /\ At(s, p + 3) = NL)
              IN LexWord(s, p + 2, IF c2 \in {SP, HASH, BSL} THEN Append(w, c2) ELSE w \o <<BSL, c2>>, o2)
    ELSE IF c = DOLLAR /\ p + 1 # Len(s) /\ At(s, p + 2) = DOLLAR THEN LexWord(s, p + 2, Append(w, DOLLAR), o)
    ELSE IF ~IsWordChar(c) THEN [p |-> p, w |-> w, o |-> o]
    ELSE LexWord(s, p + 1, Append(w, c), o)

(* a prerequisite word swallows the ':' characters it contains ("c:/x", "a:b") *)
RECURSIVE DepColons(_, _)
DepColons(s, r) ==
  IF r.p # Len(s) /\ At(s, r.p + 1) = COLON
  THEN DepColons(s, LexWord(s, r.p + 1, Append(r.w, COLON), r.o))
  ELSE r

(* number of bytes in p0+1..p1 that are neither blank nor newline: content dropped by error recovery *)
Dropped(s, p0, p1) == Cardinality({i \in (p0 + 1)..p1 : At(s, i) \notin {SP, TAB, CR, NL}})

(* parser state: p cursor, ev callbacks so far, o open flag, drop = content bytes skipped by recovery *)
RECURSIVE Deps(_, _), Rules(_, _, _)
(* the prerequisite loop: "while (cur != end)" *)
Deps(s, st) ==
  IF st.p = Len(s) THEN st
  ELSE LET p1 == SkipNNW(s, st.p) IN
       IF ~Fwd(s, st.p, p1) THEN st
       ELSE IF p1 = Len(s) \/ At(s, p1 + 1) = NL THEN [st EXCEPT !.p = p1]
       ELSE LET r == LexWord(s, p1, <<>>, st.o) IN
            IF ~Fwd(s, p1, r.p) THEN st
            ELSE IF r.p = p1
                 THEN LET pe == SkipEOL(s, p1) IN            \* "unexpected character in prerequisites"
                      Deps(s, [p |-> pe, ev |-> Append(st.ev, <<"E">>), o |-> r.o, drop |-> st.drop + Dropped(s, p1, pe)])
                 ELSE LET r2 == DepColons(s, r) IN
                      Deps(s, [p |-> r2.p, ev |-> Append(st.ev, <<"D", r2.w>>), o |-> r2.o, drop |-> st.drop])

(* the rule loop: "while (cur != end)" *)
Rules(s, st, ignoreSubsequent) ==
  IF st.p = Len(s) THEN st
  ELSE LET k == SkipWsC(s, st.p, st.o) IN
       IF ~Fwd(s, st.p, k.p) THEN st
       ELSE IF k.p = Len(s) THEN [st EXCEPT !.p = k.p, !.o = k.o]
       ELSE LET r == LexWord(s, k.p, <<>>, k.o) IN
            IF ~Fwd(s, k.p, r.p) THEN st
            ELSE IF r.p = k.p
                 THEN LET pe == SkipEOL(s, k.p) IN           \* "unexpected character in file"
                      Rules(s, [p |-> pe, ev |-> Append(st.ev, <<"E">>), o |-> r.o, drop |-> st.drop + Dropped(s, k.p, pe)], ignoreSubsequent)
                 ELSE LET ev1 == Append(st.ev, <<"S", r.w>>)
                          p2  == SkipNNW(s, r.p)
                      IN IF p2 = Len(s) \/ At(s, p2 + 1) # COLON
                         THEN LET pe == SkipEOL(s, p2) IN    \* "missing ':' following rule"
                              Rules(s, [p |-> pe, ev |-> ev1 \o << <<"E">>, <<"X">> >>, o |-> r.o, drop |-> st.drop + Dropped(s, p2, pe)], ignoreSubsequent)
                         ELSE LET d == Deps(s, [p |-> p2 + 1, ev |-> ev1, o |-> r.o, drop |-> st.drop])
                                  st2 == [d EXCEPT !.ev = Append(d.ev, <<"X">>)]
                              IN IF ignoreSubsequent THEN st2 ELSE Rules(s, st2, ignoreSubsequent)

Parse(s, ign) == Rules(s, [p |-> 0, ev |-> <<>>, o |-> FALSE, drop |-> 0], ign)

HasErr(ev) == \E i \in 1..Len(ev) : ev[i][1] = "E"
ClassOf(a, b) == IF a.o \/ b.o THEN "open" ELSE IF HasErr(a.ev) \/ HasErr(b.ev) THEN "err" ELSE "wf"
OutOf(s) == LET a == Parse(s, FALSE)  b == Parse(s, TRUE) IN
  [ i |-> s, ev0 |-> a.ev, ev1 |-> b.ev, cls |-> ClassOf(a, b), fin0 |-> a.p, fin1 |-> b.p, drop0 |-> a.drop, drop1 |-> b.drop ]

---------------------------------------------------------------------------------------------
(* rendered rule lists: what Clang / GCC write, with the escaping the code documents *)
PathAlpha == {LA, SP, HASH, DOLLAR, BSL, COLON, SLASH}
Paths(n) == UNION { [1..k -> PathAlpha] : k \in 1..n }
TargetPaths(n) == { q \in Paths(n) : \A i \in 1..Len(q) : q[i] # COLON }      \* a ':' ends the target word (non-Windows)
DepPaths(n) == { q \in Paths(n) : q[1] # COLON }                               \* a ':' inside or at the end of a prerequisite is kept

(* escape one path.  raw = TRUE writes a backslash unescaped where the documented rules keep it   *)
(* ("\c" stays "\c" when c is an ordinary character), otherwise every backslash is doubled         *)
RECURSIVE Esc(_, _, _)
Esc(q, i, raw) ==
  IF i > Len(q) THEN <<>>
  ELSE LET c == q[i] IN
       (IF c = SP THEN <<BSL, SP>>
        ELSE IF c = HASH THEN <<BSL, HASH>>
        ELSE IF c = DOLLAR THEN <<DOLLAR, DOLLAR>>
        ELSE IF c = BSL THEN (IF raw /\ i < Len(q) /\ q[i + 1] \in {LA, SLASH} THEN <<BSL>> ELSE <<BSL, BSL>>)
        ELSE <<c>>) \o Esc(q, i + 1, raw)

Seps == { <<SP>>, <<TAB>>, <<SP, BSL, NL, SP, SP>>, <<SP, BSL, CR, NL, SP>> }
Ends == { <<NL>>, <<CR, NL>>, <<>> }
RECURSIVE RenderDeps(_, _, _, _)
RenderDeps(ds, i, sep, raw) == IF i > Len(ds) THEN <<>> ELSE sep \o Esc(ds[i], 1, raw) \o RenderDeps(ds, i + 1, sep, raw)
RenderRule(r, sep, raw) == Esc(r.t, 1, raw) \o <<COLON>> \o RenderDeps(r.d, 1, sep, raw)

RuleEvents(r) == << <<"S", r.t>> >> \o [i \in 1..Len(r.d) |-> <<"D", r.d[i]>>] \o << <<"X">> >>

(* one rule with up to two prerequisites (the second one short), or two one-prerequisite rules *)
OneRule == { [t |-> t, d |-> d] : t \in TargetPaths(PathLen),
             d \in {<<>>} \cup { <<a>> : a \in DepPaths(DepLen) } \cup { <<a, b>> : a \in DepPaths(DepLen), b \in DepPaths(1) } }
Sources == { <<r>> : r \in OneRule } \cup
           { << [t |-> t1, d |-> <<a>>], [t |-> t2, d |-> <<b>>] >> : t1 \in TargetPaths(1), t2 \in TargetPaths(1), a \in DepPaths(1), b \in DepPaths(1) }
Styles == { [sep |-> sep, end |-> e, raw |-> raw] : sep \in Seps, e \in Ends, raw \in BOOLEAN }
Render(rs, y) ==
  IF Len(rs) = 1 THEN RenderRule(rs[1], y.sep, y.raw) \o y.end
  ELSE RenderRule(rs[1], y.sep, y.raw) \o (IF y.end = <<>> THEN <<NL>> ELSE y.end) \o RenderRule(rs[2], y.sep, y.raw) \o y.end

---------------------------------------------------------------------------------------------
StrsUpTo(k) == UNION { [1..n -> Alphabet] : n \in 0..k }
Part ==    \* the raw buffers of this partition, built from their first two bytes
  (IF 256 \in First THEN {<<>>} ELSE {})
  \cup (IF 256 \in Second /\ MaxLen >= 1 THEN { <<a>> : a \in First \ {256} } ELSE {})
  \cup { <<a, b>> \o t : a \in First \ {256}, b \in Second \ {256}, t \in StrsUpTo(MaxLen - 2) }
InRenderPart(rs) == /\ rs[1].t[1] \in First
                    /\ (IF rs[1].d = <<>> THEN 256 \in Second ELSE rs[1].d[1][1] \in Second)

Init ==
  \/ /\ Family = "all"
     /\ buf \in Part
     /\ src = <<>>
     /\ out = OutOf(buf)
  \/ /\ Family = "render"
     /\ src \in { rs \in Sources : InRenderPart(rs) }
     /\ \E y \in Styles : buf = Render(src, y)
     /\ out = OutOf(buf)
Next == FALSE /\ UNCHANGED <<buf, src, out>>

Emit == PrintT(<<"CASE", ToJson([i |-> out.i, ev0 |-> out.ev0, ev1 |-> out.ev1, cls |-> out.cls, fam |-> Family])>>)

---------------------------------------------------------------------------------------------
(* properties of the specification *)

(* RoundTrip: parsing what was rendered gives the paths back, for every rule, separator style, line  *)
(* ending and both ways of writing a backslash; with ignoreSubsequentOutputs only the first rule     *)
RECURSIVE AllEvents(_, _)
AllEvents(rs, i) == IF i > Len(rs) THEN <<>> ELSE RuleEvents(rs[i]) \o AllEvents(rs, i + 1)
RoundTrip == Family = "render" =>
  /\ out.ev0 = AllEvents(src, 1)
  /\ out.ev1 = RuleEvents(src[1])
  /\ out.cls = "wf"

(* the callbacks follow the protocol: S (D | E)* X, errors also between rules *)
RECURSIVE Proto(_, _, _)
Proto(ev, i, inRule) ==
  IF i > Len(ev) THEN ~inRule
  ELSE LET k == ev[i][1] IN
       IF k = "S" THEN ~inRule /\ Proto(ev, i + 1, TRUE)
       ELSE IF k = "D" THEN inRule /\ Proto(ev, i + 1, TRUE)
       ELSE IF k = "X" THEN inRule /\ Proto(ev, i + 1, FALSE)
       ELSE Proto(ev, i + 1, inRule)
Protocol == Proto(out.ev0, 1, FALSE) /\ Proto(out.ev1, 1, FALSE)

(* MalformedReported: input is never dropped silently - whenever error recovery skipped bytes that   *)
(* are not blanks, an error callback was made; and without ignoreSubsequentOutputs the whole buffer   *)
(* is consumed                                                                                        *)
MalformedReported ==
  /\ (out.drop0 > 0 => HasErr(out.ev0))
  /\ (out.drop1 > 0 => HasErr(out.ev1))
  /\ out.fin0 = Len(buf)

(* cursor <= end: the final cursors (every intermediate one is asserted by Fwd / At) *)
CursorWithinBuffer == out.fin0 <= Len(buf) /\ out.fin1 <= Len(buf)

(* words handed to the client are never empty *)
WordsNonEmpty == \A e \in {out.ev0[i] : i \in 1..Len(out.ev0)} : e[1] \in {"S", "D"} => Len(e[2]) > 0
=============================================================================
