\* The 'nest' slice of the bounded family (include / subninja trees); tools/checks_c17.py generates one such
\* configuration per slice (SLICES_QUICK / SLICES_THOROUGH) and per simulation run (random sub-alphabets of FULL).
\*   tlc -workers 4 -config NinjaEval.cfg NinjaEval.tla          (exhaustive)
\*   tlc -simulate num=100 -depth 10 -seed 1 -config NinjaEval_full.cfg NinjaEval.tla
CONSTANTS
  MaxStmts = 5
  MaxBinds = 2
  MaxRules = 1
  MaxBuilds = 1
  MaxNest = 2
  MaxMisc = 0
  FBSel = {1,2}
  RCSel = {2}
  RDSel = {1}
  RESel = {1}
  RNSel = {1}
  BBSel = {1}
  OutSel = {1}
  InSel = {2}
  BRSel = {1}
  NestKinds = {"include","subninja"}
  EmitAll = FALSE
INIT Init
NEXT Next
INVARIANT BuildShadowsAll
INVARIANT RuleOverFileLazy
INVARIANT FileFallback
INVARIANT EmptyShadows
INVARIANT InOut
INVARIANT BuildValuesInFileScope
INVARIANT PathsSeeBuildBindings
INVARIANT ScopeTree
PROPERTY OnlyCurrentScope
PROPERTY CmdsFinal
PROPERTY ExitRestores
CONSTRAINT Emit
CHECK_DEADLOCK FALSE
