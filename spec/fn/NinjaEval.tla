----------------------------- MODULE NinjaEval -----------------------------
(* C17 "Ninja manifests mean what Ninja says they mean": the EVALUATION rules of the Ninja   *)
(* manifest language (manual, "Ninja file reference": Variables, Evaluation and scoping),     *)
(* written as the state machine of a loader that consumes one statement at a time.            *)
(*                                                                                            *)
(* The state holds the manifest read so far as an AST (`files`: one statement list per file)  *)
(* together with what the loader has built from it: a tree of scopes (bindings and rules), the*)
(* include stack, and the loaded build statements (`cmds`).  Every reachable state is a       *)
(* complete manifest (files still open simply end there), so TLC's breadth-first search       *)
(* enumerates every AST of the bounded family and `-simulate` samples the larger one; each    *)
(* state is printed as a CASE record <<AST, expected loaded statements>> (Emit) and the       *)
(* driver tools/checks_c17.py renders it to text and compares `llbuild ninja load-manifest`.  *)
(*                                                                                            *)
(* Text is abstract: a template is a sequence of pieces                                       *)
(*     lit  s      literal text (the renderer escapes it as the context demands)              *)
(*     esc  c      the escape `$c`, c one of space, colon, dollar: evaluates to c            *)
(*     cont        `$` newline (+ leading blanks of the next line): evaluates to nothing      *)
(*     var  n, br  `$n` or `${n}`                                                             *)
(* and literal text mentions opaque atoms `@k@` for which the renderer substitutes arbitrary *)
(* byte strings (spaces, quotes, `$`, `:`, bytes 0x80-0xFF); the rules never look inside.     *)
(* `$in`, `$in_newline`, `$out` evaluate to a PATH-LIST segment (separator, paths): how the   *)
(* paths are shell-quoted is left open here (fn/ShellQuote states that), the driver accepts   *)
(* any rendering that a POSIX shell unquotes to exactly those paths.                          *)
(*                                                                                            *)
(* Two evaluation modes.  "manual" is the property: everything is expanded when it is read,   *)
(* rule variables when the rule is used, lookup order build > rule > file > including files.  *)
(* "ninja" reproduces the two places where the reference implementation (1.11.1) departs from *)
(* its manual - it expands rule variables after the whole manifest is read, so a file-level   *)
(* variable re-bound after a build statement is seen with its last value (the case the        *)
(* property excludes: `Excluded`), and for a build statement without bindings of its own it   *)
(* consults the file's own bindings before the rule's.  It is only used to validate this      *)
(* specification against the `ninja` binary.                                                  *)
EXTENDS Naturals, Sequences, FiniteSets, TLC, Json

CONSTANTS MaxStmts,      \* statements in all files together
          MaxBinds,      \* file-level bindings               (<= 3)
          MaxRules,      \* rule declarations                 (<= 2)
          MaxBuilds,     \* build statements                  (<= 2)
          MaxNest,       \* include / subninja statements     (<= 2; nested or siblings)
          MaxMisc,       \* default / pool statements
          FBSel, RCSel, RDSel, RESel, RNSel, BBSel, OutSel, InSel, BRSel,   \* index sets into the alphabets below
          NestKinds,     \* subset of {"include", "subninja"}
          EmitAll        \* TRUE: print every state; FALSE: only manifests with a build statement

VARIABLES files,   \* [main, f1, f2 |-> sequence of statements]             the AST
          stack,   \* include stack: sequence of [f |-> file, sc |-> scope id]
          scopes,  \* sequence of [parent |-> scope id or 0, vars |-> assoc list, rules |-> assoc list]; 1 = root
          cmds,    \* loaded build statements, in order of appearance
          defaults,\* default targets (paths)
          pools,   \* declared pools: sequence of [n, depth]
          last     \* kind of the last statement (or "exit"/"init")
vars == <<files, stack, scopes, cmds, defaults, pools, last>>

---------------------------------------------------------------------------
(* Pieces, segments, association lists *)
L(s)  == [t |-> "lit",  s |-> s,  br |-> FALSE]
E(c)  == [t |-> "esc",  s |-> c,  br |-> FALSE]
V(n)  == [t |-> "var",  s |-> n,  br |-> FALSE]
VB(n) == [t |-> "var",  s |-> n,  br |-> TRUE]
K     == [t |-> "cont", s |-> "", br |-> FALSE]

S(s)       == [t |-> "s", s |-> s,   ps |-> <<>>]      \* string segment
P(sep, ps) == [t |-> "p", s |-> sep, ps |-> ps]        \* path list segment: sep "sp" | "nl"

Has(al, n) == \E i \in 1..Len(al) : al[i].n = n
Get(al, n) == LET I == {i \in 1..Len(al) : al[i].n = n}          \* the LAST binding wins
              IN  al[CHOOSE i \in I : \A j \in I : j <= i].v
Names(al)  == {al[i].n : i \in 1..Len(al)}
Top        == stack[Len(stack)]

---------------------------------------------------------------------------
(* Evaluation *)

\* file-level lookup: the scope of the file, then the scopes of the files that `subninja`d it; unbound = ""
RECURSIVE FileLookup(_, _, _)
FileLookup(scs, sc, n) ==
  IF sc = 0 THEN ""
  ELSE IF Has(scs[sc].vars, n) THEN Get(scs[sc].vars, n)
  ELSE FileLookup(scs, scs[sc].parent, n)

\* immediate expansion (file-level values, build-level values, paths): `env` are extra bindings consulted first
RECURSIVE EvalNow(_, _, _, _)
EvalNow(tm, env, scs, sc) ==
  IF tm = <<>> THEN ""
  ELSE LET p == Head(tm)
           v == CASE p.t = "lit"  -> p.s
                  [] p.t = "esc"  -> p.s
                  [] p.t = "cont" -> ""
                  [] p.t = "var"  -> IF Has(env, p.s) THEN Get(env, p.s) ELSE FileLookup(scs, sc, p.s)
       IN  v \o EvalNow(Tail(tm), env, scs, sc)

\* a rule is looked up in the scope of the file and then in the including files' scopes
RECURSIVE HasRule(_, _, _), FindRule(_, _, _)
HasRule(scs, sc, n)  == IF sc = 0 THEN FALSE ELSE Has(scs[sc].rules, n) \/ HasRule(scs, scs[sc].parent, n)
FindRule(scs, sc, n) == IF Has(scs[sc].rules, n) THEN Get(scs[sc].rules, n) ELSE FindRule(scs, scs[sc].parent, n)
PhonyRule == [n |-> "phony", vars |-> <<>>]

\* expansion of a variable for a loaded build statement c = [binds, rule, sc, ins, outs, ...]:
\*   1. built-ins  2. build-level  3. rule-level, expanded now with the same lookup  4. file-level chain
RECURSIVE LookupB(_, _, _, _), EvalRuleT(_, _, _, _)
LookupB(n, c, scs, mode) ==
  IF n = "in"         THEN <<P("sp", c.ins)>>
  ELSE IF n = "in_newline" THEN <<P("nl", c.ins)>>
  ELSE IF n = "out"   THEN <<P("sp", c.outs)>>
  ELSE IF Has(c.binds, n) THEN <<S(Get(c.binds, n))>>
  ELSE IF mode = "ninja" /\ c.binds = <<>> /\ Has(scs[c.sc].vars, n) THEN <<S(Get(scs[c.sc].vars, n))>>
  ELSE IF Has(c.rule.vars, n) THEN EvalRuleT(Get(c.rule.vars, n), c, scs, mode)
  ELSE <<S(FileLookup(scs, c.sc, n))>>
EvalRuleT(tm, c, scs, mode) ==
  IF tm = <<>> THEN <<>>
  ELSE LET p == Head(tm)
           v == CASE p.t = "lit"  -> <<S(p.s)>>
                  [] p.t = "esc"  -> <<S(p.s)>>
                  [] p.t = "cont" -> <<>>
                  [] p.t = "var"  -> LookupB(p.s, c, scs, mode)
       IN  v \o EvalRuleT(Tail(tm), c, scs, mode)

\* canonical form of a segment list: adjacent strings merged, empty strings and empty path lists dropped
RECURSIVE Norm(_)
Norm(sg) ==
  IF sg = <<>> THEN <<>>
  ELSE LET h == Head(sg)  r == Norm(Tail(sg)) IN
       IF h.t = "s" /\ h.s = "" THEN r
       ELSE IF h.t = "p" /\ h.ps = <<>> THEN r
       ELSE IF h.t = "s" /\ r # <<>> /\ Head(r).t = "s" THEN <<S(h.s \o Head(r).s)>> \o Tail(r)
       ELSE <<h>> \o r
Str(sg) == IF sg = <<>> THEN "" ELSE IF Len(sg) = 1 /\ sg[1].t = "s" THEN sg[1].s ELSE "?"   \* plain strings only

EvalAll(c, scs, mode) ==
  [command         |-> Norm(LookupB("command", c, scs, mode)),
   description     |-> Norm(LookupB("description", c, scs, mode)),
   depfile         |-> Norm(LookupB("depfile", c, scs, mode)),
   deps            |-> Norm(LookupB("deps", c, scs, mode)),
   rspfile         |-> Norm(LookupB("rspfile", c, scs, mode)),
   rspfile_content |-> Norm(LookupB("rspfile_content", c, scs, mode)),
   generator       |-> Norm(LookupB("generator", c, scs, mode)),
   restat          |-> Norm(LookupB("restat", c, scs, mode)),
   pool            |-> Norm(LookupB("pool", c, scs, mode))]

---------------------------------------------------------------------------
(* The bounded family: alphabets of statements, selected by the index-set constants *)
FBAlpha == <<
  [n |-> "x", v |-> <<L("@a@")>>],                                   \* 1  x = @a@
  [n |-> "x", v |-> <<VB("x"), L("@b@")>>],                          \* 2  x = ${x}@b@       re-binding, reads itself
  [n |-> "y", v |-> <<V("x"), E(" "), L("@c@")>>],                   \* 3  y = $x$ @c@
  [n |-> "y", v |-> <<L("@d@"), E(":"), E("$"), L("x")>>],           \* 4  y = @d@$:$$x      escapes, no reference
  [n |-> "description", v |-> <<L("F"), V("y")>>],                   \* 5  description = F$y a rule-variable name at file level
  [n |-> "x", v |-> <<L("@e@"), K, L("@f@")>>],                      \* 6  x = @e@$<nl>@f@
  [n |-> "z", v |-> <<VB("y"), L("-"), VB("x")>>],                   \* 7  z = ${y}-${x}     nesting depth 2 through y
  [n |-> "x", v |-> <<>>],                                           \* 8  x =               empty value shadows
  [n |-> "y", v |-> <<V("z"), VB("undefined"), L("@g@")>>],          \* 9  y = $z${undefined}@g@
  [n |-> "x", v |-> <<VB("undefined")>>],                            \* 10 x = ${undefined}  expands to nothing: bound, and empty
  [n |-> "description", v |-> <<>>]                                  \* 11 description =     empty, under a rule-variable name
>>
RCAlpha == <<
  <<L("cc "), V("in"), L(" -o "), V("out")>>,                                        \* 1 cc $in -o $out
  <<V("x"), L(" "), VB("in_newline"), E(" "), V("y"), L(">"), V("out")>>,            \* 2 $x ${in_newline}$ $y>$out
  <<L("@h@ "), V("description"), L(" "), V("z")>>,                                   \* 3 @h@ $description $z     rule variable reads rule variable
  <<VB("x"), E(":"), E("$"), E(" "), V("out"), L(".d"), K, V("y")>>,                 \* 4 ${x}$:$$$ $out.d$<nl>$y
  <<VB("out"), L("<"), VB("in"), L("<"), V("depfile"), L("<"), V("rspfile")>>,      \* 5 ${out}<${in}<$depfile<$rspfile
  <<V("depfile"), L(" "), V("description"), L(" && fix "), V("depfile"), V("x")>>    \* 6 $depfile $description && fix $depfile$x   one rule variable read TWICE in one expansion
>>
RDAlpha == <<
  <<>>,                                                              \* 1 (absent)
  <<L("D "), V("out"), L(" "), V("x")>>,                             \* 2 description = D $out $x
  <<V("command"), L("|"), V("y")>>,                                  \* 3 description = $command|$y
  <<V("depfile"), L("+"), V("depfile"), L("+"), V("rspfile")>>       \* 4 description = $depfile+$depfile+$rspfile   read twice, one level down
>>
REAlpha == <<
  <<>>,                                                                                               \* 1
  <<[n |-> "depfile", v |-> <<V("out"), L(".d")>>]>>,                                                  \* 2 depfile = $out.d
  <<[n |-> "depfile", v |-> <<V("x"), L("@k@.d")>>], [n |-> "deps", v |-> <<L("gcc")>>]>>,             \* 3 depfile = $x@k@.d / deps = gcc
  <<[n |-> "rspfile", v |-> <<V("out"), L(".rsp")>>],
    [n |-> "rspfile_content", v |-> <<V("in_newline"), L(" "), V("y")>>]>>,                            \* 4 rspfile / rspfile_content
  <<[n |-> "generator", v |-> <<L("1")>>], [n |-> "restat", v |-> <<V("x")>>]>>,                       \* 5 generator = 1 / restat = $x
  <<[n |-> "pool", v |-> <<L("pl")>>]>>,                                                               \* 6 pool = pl
  <<[n |-> "deps", v |-> <<L("msvc")>>]>>,                                                             \* 7 deps = msvc
  <<[n |-> "description", v |-> <<>>], [n |-> "depfile", v |-> <<>>]>>                                 \* 8 description = / depfile =   EMPTY rule variables (shadow file-level ones; a second `description` wins)
>>
RNAlpha == <<"r", "q">>
RuleAlpha ==
  { [k |-> "rule", n |-> RNAlpha[ni],
     vars |-> <<[n |-> "command", v |-> RCAlpha[ci]]>>
              \o (IF RDAlpha[di] = <<>> THEN <<>> ELSE <<[n |-> "description", v |-> RDAlpha[di]]>>)
              \o REAlpha[ei]] : ni \in RNSel, ci \in RCSel, di \in RDSel, ei \in RESel }

BBAlpha == <<
  <<>>,                                                                                          \* 1
  <<[n |-> "x", v |-> <<L("@m@")>>]>>,                                                            \* 2 x = @m@
  <<[n |-> "x", v |-> <<L("@m@")>>], [n |-> "y", v |-> <<V("x"), L("@n@")>>]>>,                    \* 3 x = @m@ / y = $x@n@   ($x is the FILE's x)
  <<[n |-> "description", v |-> <<L("B"), V("x")>>]>>,                                            \* 4 description = B$x
  <<[n |-> "depfile", v |-> <<L("@q@.d")>>], [n |-> "x", v |-> <<VB("x"), L("+")>>]>>,            \* 5 depfile = @q@.d / x = ${x}+
  <<[n |-> "pool", v |-> <<>>], [n |-> "y", v |-> <<L("@n@"), E(" "), E(":")>>]>>,                \* 6 pool = / y = @n@$ $:
  <<[n |-> "command", v |-> <<L("over "), V("in"), V("x")>>],
    [n |-> "x", v |-> <<L("@m@")>>], [n |-> "z", v |-> <<L("@s@")>>]>>,                           \* 7 command = over $in$x / x / z
  <<[n |-> "z", v |-> <<L("1")>>], [n |-> "z", v |-> <<L("2"), K, V("y")>>]>>,                    \* 8 z = 1 / z = 2$<nl>$y   (last wins)
  <<[n |-> "x", v |-> <<>>]>>,                                                                    \* 9 x =                    EMPTY build-level value shadows rule and file
  <<[n |-> "description", v |-> <<>>], [n |-> "y", v |-> <<V("undefined")>>]>>                    \* 10 description = / y = $undefined
>>
\* output lists; the atoms of the second build statement are renamed (o -> p) so that outputs stay distinct
OutAlpha(k) == LET a(s) == IF k = 1 THEN "@o" \o s \o "@" ELSE "@p" \o s \o "@" IN <<
  <<<<L(a("1"))>>>>,                                                 \* 1 one plain output
  <<<<L(a("1"))>>, <<L(a("2"))>>>>,                                  \* 2 two outputs
  <<<<V("x"), L(a("3"))>>>>,                                         \* 3 $x@o3@
  <<<<L(a("4")), E(":"), VB("y")>>, <<L(a("1")), K, L(a("5"))>>>>    \* 4 @o4@$:${y}  @o1@$<nl>@o5@
>>
InAlpha == <<
  [ins |-> <<>>, imps |-> <<>>, oos |-> <<>>],                                                      \* 1
  [ins |-> <<<<L("@i1@")>>>>, imps |-> <<>>, oos |-> <<>>],                                          \* 2
  [ins |-> <<<<L("@i1@")>>, <<L("@i2@")>>>>, imps |-> <<<<L("@j1@")>>>>, oos |-> <<<<L("@k1@")>>>>], \* 3 every class
  [ins |-> <<<<VB("x"), L("@i3@")>>>>, imps |-> <<<<L("@j1@")>>, <<V("y"), L("@j2@")>>>>, oos |-> <<>>],           \* 4
  [ins |-> <<<<L("@i4@"), E(" "), V("y")>>, <<L("@o1@")>>>>, imps |-> <<>>, oos |-> <<<<L("@k1@")>>, <<V("x"), L("@k2@")>>>>], \* 5 depends on build 1
  [ins |-> <<>>, imps |-> <<<<L("@j1@")>>>>, oos |-> <<<<L("@k1@")>>>>]                              \* 6 no explicit input
>>
BRAlpha == <<"r", "q", "phony">>
BuildAlpha(k) ==
  { [k |-> "build", rule |-> BRAlpha[ri], outs |-> OutAlpha(k)[oi], ins |-> InAlpha[ii].ins,
     imps |-> InAlpha[ii].imps, oos |-> InAlpha[ii].oos,
     binds |-> IF BRAlpha[ri] = "phony" THEN <<>> ELSE BBAlpha[bi]]
    : ri \in BRSel, oi \in OutSel, ii \in InSel, bi \in BBSel }

---------------------------------------------------------------------------
(* Statement counts *)
Count(kinds) == LET n(f) == Cardinality({i \in 1..Len(files[f]) : files[f][i].k \in kinds})
                IN  n("main") + n("f1") + n("f2")
NStmts == Len(files.main) + Len(files.f1) + Len(files.f2)
NNest  == Count({"include", "subninja"})
AllOuts == UNION { {c.outs[i] : i \in 1..Len(c.outs)} : c \in {cmds[j] : j \in 1..Len(cmds)} }
Range(s) == {s[i] : i \in 1..Len(s)}

RuleRefs(r, n) == IF Has(r.vars, n) THEN {p.s : p \in {q \in Range(Get(r.vars, n)) : q.t = "var"}} \cap Names(r.vars) ELSE {}
Acyclic(r) ==   \* no rule variable reaches itself through other rule variables (at most 4 of them)
  LET step(R) == R \cup UNION {RuleRefs(r, m) : m \in R}
  IN  \A n \in Names(r.vars) : n \notin step(step(step(RuleRefs(r, n))))

---------------------------------------------------------------------------
(* The loader: one action per kind of statement *)
Init ==
  /\ files = [main |-> <<>>, f1 |-> <<>>, f2 |-> <<>>]
  /\ stack = <<[f |-> "main", sc |-> 1]>>
  /\ scopes = <<[parent |-> 0, vars |-> <<>>, rules |-> <<>>]>>
  /\ cmds = <<>>
  /\ defaults = <<>>
  /\ pools = <<>>
  /\ last = "init"

AddStmt(st) == files' = [files EXCEPT ![Top.f] = Append(@, st)]

\* name = value at file level: the value is expanded NOW in the current scope and bound there
Bind(b) ==
  /\ NStmts < MaxStmts
  /\ Count({"bind"}) < MaxBinds
  /\ AddStmt([k |-> "bind", n |-> b.n, v |-> b.v])
  /\ scopes' = [scopes EXCEPT ![Top.sc].vars = Append(@, [n |-> b.n, v |-> EvalNow(b.v, <<>>, scopes, Top.sc)])]
  /\ last' = "bind"
  /\ UNCHANGED <<stack, cmds, defaults, pools>>

\* rule: the variable texts are stored UNEXPANDED in the current scope
DefRule(r) ==
  /\ NStmts < MaxStmts
  /\ Count({"rule"}) < MaxRules
  /\ ~Has(scopes[Top.sc].rules, r.n)         \* a duplicate in one scope is an error; shadowing a parent's rule is legal
  /\ Acyclic(r)
  /\ AddStmt(r)
  /\ scopes' = [scopes EXCEPT ![Top.sc].rules = Append(@, [n |-> r.n, v |-> [n |-> r.n, vars |-> r.vars]])]
  /\ last' = "rule"
  /\ UNCHANGED <<stack, cmds, defaults, pools>>

EvalBinds(bs, sc) == [i \in 1..Len(bs) |-> [n |-> bs[i].n, v |-> EvalNow(bs[i].v, <<>>, scopes, sc)]]
MkCmd(b) ==
  LET env  == EvalBinds(b.binds, Top.sc)           \* build-level values: expanded now, in the FILE's scope
      ev(ts) == [i \in 1..Len(ts) |-> EvalNow(ts[i], env, scopes, Top.sc)]   \* paths: build-level first, then file
      c0   == [binds |-> env, rule |-> IF b.rule = "phony" THEN PhonyRule ELSE FindRule(scopes, Top.sc, b.rule),
               sc |-> Top.sc, outs |-> ev(b.outs), ins |-> ev(b.ins), imps |-> ev(b.imps), oos |-> ev(b.oos)]
      fs(ts) == [i \in 1..Len(ts) |-> EvalNow(ts[i], <<>>, scopes, Top.sc)]  \* (diagnosis only: the paths WITHOUT the build-level bindings)
  IN  [binds |-> c0.binds, rule |-> c0.rule, sc |-> c0.sc, outs |-> c0.outs, ins |-> c0.ins, imps |-> c0.imps,
       oos |-> c0.oos, vals |-> EvalAll(c0, scopes, "manual"),     \* rule variables: expanded now, at the point of use
       fsp |-> [outs |-> fs(b.outs), ins |-> fs(b.ins), imps |-> fs(b.imps), oos |-> fs(b.oos)],
       up |-> Top.sc # 1 /\ ~Has(scopes[Top.sc].rules, b.rule)]     \* (diagnosis only: the rule comes from an including file)
Build(b) ==
  /\ NStmts < MaxStmts
  /\ b.rule = "phony" \/ HasRule(scopes, Top.sc, b.rule)
  /\ LET c == MkCmd(b)
         allin == Range(c.ins) \cup Range(c.imps) \cup Range(c.oos)
         pool == Str(c.vals.pool)
         deps == Str(c.vals.deps)
     IN  /\ \A p \in Range(c.outs) \cup allin : p # ""
         /\ Cardinality(Range(c.outs)) = Len(c.outs)
         /\ Range(c.outs) \cap (AllOuts \cup allin) = {}
         /\ pool \in {"", "console"} \cup {pools[i].n : i \in 1..Len(pools)}
         /\ b.rule = "phony" \/ c.vals.command # <<>>
         /\ \/ deps = ""
            \/ deps = "gcc" /\ c.vals.depfile # <<>>
            \/ deps = "msvc" /\ c.vals.depfile = <<>>
         /\ cmds' = Append(cmds, c)
  /\ AddStmt(b)
  /\ last' = "build"
  /\ UNCHANGED <<stack, scopes, defaults, pools>>

\* include: the file is read in the CURRENT scope; subninja: in a fresh scope whose parent is the current one
Enter(kind) ==
  /\ NStmts < MaxStmts
  /\ NNest < MaxNest
  /\ LET f == IF NNest = 0 THEN "f1" ELSE "f2" IN
     /\ AddStmt([k |-> kind, f |-> f])
     /\ IF kind = "include"
        THEN /\ stack' = Append(stack, [f |-> f, sc |-> Top.sc])
             /\ scopes' = scopes
        ELSE /\ stack' = Append(stack, [f |-> f, sc |-> Len(scopes) + 1])
             /\ scopes' = Append(scopes, [parent |-> Top.sc, vars |-> <<>>, rules |-> <<>>])
  /\ last' = kind
  /\ UNCHANGED <<cmds, defaults, pools>>

\* end of an included file: back to the including file (its scope is whatever the frame says)
Exit ==
  /\ Len(stack) > 1
  /\ NStmts < MaxStmts          \* pointless when nothing can follow
  /\ stack' = SubSeq(stack, 1, Len(stack) - 1)
  /\ last' = "exit"
  /\ UNCHANGED <<files, scopes, cmds, defaults, pools>>

Default(p) ==
  /\ NStmts < MaxStmts
  /\ Count({"default", "pool"}) < MaxMisc
  /\ p \notin Range(defaults)
  /\ AddStmt([k |-> "default", t |-> <<<<L(p)>>>>])
  /\ defaults' = Append(defaults, p)
  /\ last' = "default"
  /\ UNCHANGED <<stack, scopes, cmds, pools>>

DefPool ==
  /\ NStmts < MaxStmts
  /\ Count({"default", "pool"}) < MaxMisc
  /\ pools = <<>>
  /\ AddStmt([k |-> "pool", n |-> "pl", depth |-> 2])
  /\ pools' = <<[n |-> "pl", depth |-> 2]>>
  /\ last' = "pool"
  /\ UNCHANGED <<stack, scopes, cmds, defaults>>

BuildStmt   == Count({"build"}) < MaxBuilds /\ \E b \in BuildAlpha(Count({"build"}) + 1) : Build(b)
DefaultStmt == \E p \in AllOuts : Default(p)
Next ==
  \/ \E i \in FBSel : Bind(FBAlpha[i])
  \/ \E r \in RuleAlpha : DefRule(r)
  \/ BuildStmt
  \/ \E kind \in NestKinds : Enter(kind)
  \/ Exit
  \/ DefaultStmt
  \/ DefPool
Spec == Init /\ [][Next]_vars

---------------------------------------------------------------------------
(* Where the REFERENCE declines: ninja 1.11.1 (EdgeEnv::LookupVariable) records every rule-level variable it starts to    *)
(* expand in `lookups_` and never removes it, so the second read of one rule variable below the top-level variable is      *)
(* reported as "cycle in rule variables" although nothing is cyclic (the manual: rule variables are expanded each time     *)
(* they are referenced).  This transcribes that walk for the top-level variable `command`, which is what                    *)
(* `ninja -t commands` evaluates; on statements where it is TRUE the specification cannot be validated against the          *)
(* reference and is compared with llbuild only.  (The variable is recorded when the RULE binds it, even if a build-level   *)
(* or - for statements without bindings - file-level value is the one used.)                                                *)
RECURSIVE NjWalk(_, _, _, _)
NjWalk(tm, c, scs, st) ==
  IF tm = <<>> \/ st.cyc THEN st
  ELSE LET p == Head(tm) IN
       IF p.t # "var" \/ p.s \in {"in", "in_newline", "out"} THEN NjWalk(Tail(tm), c, scs, st)
       ELSE IF p.s \in st.seen THEN [st EXCEPT !.cyc = TRUE]
       ELSE IF Has(c.rule.vars, p.s)
            THEN LET st1 == [st EXCEPT !.seen = @ \cup {p.s}]
                     st2 == IF Has(c.binds, p.s) \/ (c.binds = <<>> /\ Has(scs[c.sc].vars, p.s)) THEN st1
                            ELSE NjWalk(Get(c.rule.vars, p.s), c, scs, st1)
                 IN NjWalk(Tail(tm), c, scs, st2)
            ELSE NjWalk(Tail(tm), c, scs, st)
RefFalseCycle(c, scs) ==
  /\ Has(c.rule.vars, "command") /\ ~Has(c.binds, "command") /\ ~(c.binds = <<>> /\ Has(scs[c.sc].vars, "command"))
  /\ NjWalk(Get(c.rule.vars, "command"), c, scs, [seen |-> {}, cyc |-> FALSE]).cyc

---------------------------------------------------------------------------
(* What is printed for the driver *)
Late(c)  == EvalAll(c, scopes, "manual")      \* what the rule variables would give if expanded at the END of the manifest
Excluded == \E i \in 1..Len(cmds) : Late(cmds[i]) # cmds[i].vals          \* the case the property leaves out
View(c) == [outs |-> c.outs, ins |-> c.ins, imps |-> c.imps, oos |-> c.oos, rule |-> c.rule.n,
            nbinds |-> Len(c.binds), vals |-> c.vals, ninja |-> EvalAll(c, scopes, "ninja"),
            excl |-> Late(c) # c.vals, fsp |-> c.fsp, up |-> c.up, sc |-> c.sc, twice |-> RefFalseCycle(c, scopes)]
Expected == [bindings |-> scopes[1].vars, cmds |-> [i \in 1..Len(cmds) |-> View(cmds[i])],
             defaults |-> defaults, pools |-> pools, excluded |-> Excluded]
Emit == (last # "exit" /\ (EmitAll \/ cmds # <<>>)) => PrintT(<<"CASE", ToJson([ast |-> files, exp |-> Expected])>>)

---------------------------------------------------------------------------
(* Properties of the rules themselves, checked by TLC on every state.  They speak about the    *)
(* build statement loaded LAST, right after it was loaded (then `scopes` is what it saw).      *)
Fresh == last = "build"
NewCmd == cmds[Len(cmds)]
Lk(n) == LookupB(n, NewCmd, scopes, "manual")
BuiltIns == {"in", "in_newline", "out"}
ProbeNames == {"x", "y", "z", "description", "depfile", "command", "pool", "undefined"}

\* a build-level binding shadows the rule's and every file's binding of the same name
BuildShadowsAll == Fresh => \A n \in Names(NewCmd.binds) \ BuiltIns : Lk(n) = <<S(Get(NewCmd.binds, n))>>
\* a rule-level variable shadows file-level ones, and it is expanded at use with THIS build statement's scope:
\* wherever its text mentions a variable, the build statement's own lookup of that variable appears
RuleOverFileLazy == Fresh =>
  \A n \in Names(NewCmd.rule.vars) \ Names(NewCmd.binds) :
     LET tm == Get(NewCmd.rule.vars, n) IN
     /\ Lk(n) = EvalRuleT(tm, NewCmd, scopes, "manual")
     /\ \A i \in 1..Len(tm) : tm[i].t = "var" /\ Has(NewCmd.binds, tm[i].s) /\ tm[i].s \notin BuiltIns =>
           \E j \in 1..Len(Lk(n)) : Lk(n)[j] = S(Get(NewCmd.binds, tm[i].s))
\* everything else comes from the innermost enclosing file scope that binds it, "" when none does
RECURSIVE Chain(_)
Chain(sc) == IF sc = 0 THEN <<>> ELSE <<sc>> \o Chain(scopes[sc].parent)
FileFallback == Fresh =>
  \A n \in ProbeNames \ (Names(NewCmd.binds) \cup Names(NewCmd.rule.vars)) :
     LET ch == Chain(NewCmd.sc)
         I  == {i \in 1..Len(ch) : Has(scopes[ch[i]].vars, n)}
     IN  Lk(n) = <<S(IF I = {} THEN "" ELSE Get(scopes[ch[CHOOSE i \in I : \A j \in I : i <= j]].vars, n))>>
\* a binding with an EMPTY value is a binding: it shadows non-empty values of the enclosing scopes at every level
\* (file scope chain, build over rule/file, rule over file) - "bound to nothing" is not "unbound"
EmptyShadows == Fresh =>
  \A n \in ProbeNames \ BuiltIns :
     /\ (Has(NewCmd.binds, n) /\ Get(NewCmd.binds, n) = "") => Lk(n) = <<S("")>>
     /\ (~Has(NewCmd.binds, n) /\ Has(NewCmd.rule.vars, n) /\ Get(NewCmd.rule.vars, n) = <<>>) => Lk(n) = <<>>
     /\ (~Has(NewCmd.binds, n) /\ ~Has(NewCmd.rule.vars, n) /\ Has(scopes[NewCmd.sc].vars, n) /\ Get(scopes[NewCmd.sc].vars, n) = "")
           => Lk(n) = <<S("")>>
\* $in / $in_newline are the EXPLICIT inputs only, $out is every output, whatever is bound under those names
InOut == Fresh =>
  /\ Lk("in") = <<P("sp", NewCmd.ins)>>
  /\ Lk("in_newline") = <<P("nl", NewCmd.ins)>>
  /\ Lk("out") = <<P("sp", NewCmd.outs)>>
\* build-level values and paths never see other build-level values / rule variables: they are file-scope expansions
\* (checked through the AST: the value stored equals the file-scope expansion of the statement's text)
LastStmt == files[Top.f][Len(files[Top.f])]
BuildValuesInFileScope == Fresh =>
  \A i \in 1..Len(LastStmt.binds) : NewCmd.binds[i].v = EvalNow(LastStmt.binds[i].v, <<>>, scopes, NewCmd.sc)
PathsSeeBuildBindings == Fresh =>
  \A i \in 1..Len(LastStmt.outs) : NewCmd.outs[i] = EvalNow(LastStmt.outs[i], NewCmd.binds, scopes, NewCmd.sc)
\* the scope tree is a tree rooted at 1; a frame of an `include` shares the scope beneath it, a `subninja` frame owns a child
ScopeTree ==
  /\ scopes[1].parent = 0
  /\ \A s \in 2..Len(scopes) : scopes[s].parent \in 1..(s - 1)
  /\ stack[1].sc = 1
  /\ \A i \in 2..Len(stack) :
       LET st == CHOOSE q \in Range(files[stack[i-1].f]) : q.k \in {"include", "subninja"} /\ q.f = stack[i].f IN
       IF st.k = "include" THEN stack[i].sc = stack[i-1].sc ELSE scopes[stack[i].sc].parent = stack[i-1].sc /\ stack[i].sc # stack[i-1].sc

(* action properties *)
\* a statement changes at most the scope of the file it is in: a subninja never leaks into its parent
OnlyCurrentScope == [][\A s \in 1..Len(scopes) : s # Top.sc => scopes'[s] = scopes[s]]_vars
\* loaded build statements are final: nothing read later changes them ("expanded immediately as encountered")
CmdsFinal == [][\A i \in 1..Len(cmds) : cmds'[i] = cmds[i]]_vars
\* leaving a file restores exactly the includer's frame
ExitRestores == [][last' = "exit" => stack' = SubSeq(stack, 1, Len(stack) - 1) /\ scopes' = scopes]_vars
=============================================================================
