\* The whole bounded family (all alphabets): too large for breadth-first search, used with -simulate.
CONSTANTS
  MaxStmts = 7
  MaxBinds = 3
  MaxRules = 2
  MaxBuilds = 2
  MaxNest = 2
  MaxMisc = 1
  FBSel = {1,2,3,4,5,6,7,8,9,10,11}
  RCSel = {1,2,3,4,5}
  RDSel = {1,2,3}
  RESel = {1,2,3,4,5,6,7,8}
  RNSel = {1,2}
  BBSel = {1,2,3,4,5,6,7,8,9,10}
  OutSel = {1,2,3,4}
  InSel = {1,2,3,4,5,6}
  BRSel = {1,2,3}
  NestKinds = {"include","subninja"}
  EmitAll = FALSE
INIT Init
NEXT Next
INVARIANT BuildShadowsAll
INVARIANT RuleOverFileLazy
INVARIANT FileFallback
INVARIANT EmptyShadows
INVARIANT InOut
INVARIANT BuildValuesInFileScope
INVARIANT PathsSeeBuildBindings
INVARIANT ScopeTree
PROPERTY OnlyCurrentScope
PROPERTY CmdsFinal
PROPERTY ExitRestores
CONSTRAINT Emit
CHECK_DEADLOCK FALSE
