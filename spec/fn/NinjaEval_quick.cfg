CONSTANTS
  MaxStmts = 5
  MaxBinds = 2
  MaxRules = 1
  MaxBuilds = 2
  MaxNest = 1
  MaxMisc = 0
  FBSel = {1, 3}
  RCSel = {2}
  RDSel = {1}
  RESel = {1}
  RNSel = {1}
  BBSel = {1, 2}
  OutSel = {1}
  InSel = {2}
  BRSel = {1}
  NestKinds = {"include", "subninja"}
  EmitAll = FALSE
INIT Init
NEXT Next
INVARIANT BuildShadowsAll
INVARIANT RuleOverFileLazy
INVARIANT FileFallback
INVARIANT InOut
INVARIANT BuildValuesInFileScope
INVARIANT PathsSeeBuildBindings
INVARIANT ScopeTree
PROPERTY OnlyCurrentScope
PROPERTY CmdsFinal
PROPERTY ExitRestores
CONSTRAINT Emit
CHECK_DEADLOCK FALSE
