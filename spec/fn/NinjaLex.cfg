CONSTANT MaxLen = 4
CONSTANT Alphabet = {97,32,12,10,13,36,58,124,61,35,255,128}
CONSTANT First = {97,32,12,10,13,36,58,124,61,35,255,128,256}
CONSTANT Second = {97,32,12,10,13,36,58,124,61,35,255,128,256}
CONSTANT Family = "all"
INIT Init
NEXT Next
INVARIANT Tiling
INVARIANT EOFOnlyAtEnd
INVARIANT KeywordsWholeWord
INVARIANT HighBytesOrdinary
CONSTRAINT Emit
CHECK_DEADLOCK FALSE
