------------------------------ MODULE NinjaLex ------------------------------
(* C19 / C17: function-level specification of the Ninja manifest lexer                       *)
(*   llbuild::ninja::Lexer::lex  (lib/Ninja/Lexer.cpp) in its four lexing modes              *)
(*     N  LexingMode::None                identifiers and keywords                           *)
(*     I  LexingMode::IdentifierSpecific  identifiers, keywords NOT recognised               *)
(*     P  LexingMode::PathString          path strings  (lexPathString)                      *)
(*     V  LexingMode::VariableString      value strings (lexVariableString)                  *)
(* The buffer is a sequence of bytes (naturals 0..255).  Lex is the INTENDED function,       *)
(* written with the same case analysis as the code (peekNextChar / getNextChar with the      *)
(* DOS/Mac newline folding, column-zero indentation, the "$<newline>" skip loop, the three   *)
(* string lexers, the keyword table) so that every branch of the implementation has a        *)
(* counterpart that TLC enumerates.  It is not a copy of the code's defects: the end-of-file  *)
(* sentinel is a value no byte can have (S7), keywords are compared over their whole length  *)
(* (S8), and every look-ahead is guarded by the remaining length (S9).                       *)
(*                                                                                           *)
(* Every byte access goes through At(), which asserts that the index lies inside the buffer: *)
(* an out-of-range access of the specification's own cursor arithmetic stops TLC with        *)
(* "NoReadPastEnd".  The invariants below state the C19/C17 clauses on the token list.       *)
EXTENDS Integers, Sequences, TLC, Json, FiniteSets
CONSTANTS MaxLen,      \* longest enumerated buffer
          Alphabet,    \* set of byte values used to build buffers
          First,       \* partition: only buffers whose first byte is in First (256 = the empty buffer)
          Second,      \* partition: ... and whose second byte is in Second (256 = the buffers shorter than two bytes)
          Family       \* "all": every string over Alphabet up to MaxLen;  "kw": keyword spellings +-1 char in contexts

VARIABLES buf, out     \* the buffer and its token lists in the four modes (out = OutOf(buf))

EOFC == -1                                   \* the end-of-file sentinel: not a byte value
NL == 10  CR == 13  DOLLAR == 36  COLON == 58  PIPE == 124  EQUALS == 61  HASH == 35

At(s, i) == IF i \in 1..Len(s) THEN s[i] ELSE Assert(FALSE, <<"NoReadPastEnd", s, i>>)

IsIdent(c) == \/ c \in 97..122 \/ c \in 65..90 \/ c \in 48..57
              \/ c = 95 \/ c = 46 \/ c = 45                          \* Lexer::isIdentifierChar
IsSpace(c) == c \in {32, 9, 10, 11, 12, 13}                          \* isspace() in the C locale
IsNNSpace(c) == IsSpace(c) /\ c # NL /\ c # CR                       \* isNonNewlineSpace

(* lexer state: p = number of bytes consumed (bufferPos - buffer.begin()), z = columnNumber == 0 *)
St(p, z) == [p |-> p, z |-> z]
Peek(s, st) == IF st.p = Len(s) THEN EOFC ELSE At(s, st.p + 1)        \* peekNextChar
(* getNextChar: the character returned ... *)
GetC(s, st) == IF st.p = Len(s) THEN EOFC
               ELSE LET c == At(s, st.p + 1) IN IF c = NL \/ c = CR THEN NL ELSE c
(* ... and the state afterwards: "\r\n" and "\n\r" are consumed as one newline *)
Adv(s, st) == IF st.p = Len(s) THEN st
              ELSE LET c == At(s, st.p + 1) IN
                   IF c = NL \/ c = CR
                   THEN IF st.p + 1 # Len(s) /\ At(s, st.p + 2) = (NL + CR - c) THEN St(st.p + 2, TRUE) ELSE St(st.p + 1, TRUE)
                   ELSE St(st.p + 1, FALSE)

RECURSIVE SkipNN(_, _)       \* while (isNonNewlineSpace(peekNextChar())) getNextChar();
SkipNN(s, st) == IF IsNNSpace(Peek(s, st)) THEN SkipNN(s, Adv(s, st)) ELSE st

RECURSIVE SkipEOL(_, _)      \* skipToEndOfLine
SkipEOL(s, st) == LET c == Peek(s, st) IN IF c = EOFC \/ c = NL \/ c = CR THEN st ELSE SkipEOL(s, Adv(s, st))

RECURSIVE LexIdent(_, _)     \* lexIdentifier's loop
LexIdent(s, st) == IF IsIdent(Peek(s, st)) THEN LexIdent(s, Adv(s, st)) ELSE st

RECURSIVE LexPath(_, _)      \* lexPathString
LexPath(s, st) ==
  LET c == Peek(s, st) IN
  IF c = DOLLAR
  THEN LET st1 == Adv(s, st)              \* the '$'
           c2  == GetC(s, st1)            \* the escaped character (EOF at the end: nothing is consumed)
           st2 == Adv(s, st1)
       IN IF st1.p = Len(s) THEN st1      \* '$' was the last byte: the next peek is EOF and ends the string
          ELSE IF c2 = NL THEN LexPath(s, SkipNN(s, st2)) ELSE LexPath(s, st2)
  ELSE IF IsSpace(c) \/ c = COLON \/ c = PIPE \/ c = EOFC THEN st
  ELSE LexPath(s, Adv(s, st))

RECURSIVE LexVar(_, _)       \* lexVariableString
LexVar(s, st) ==
  LET c == Peek(s, st) IN
  IF c = DOLLAR THEN (IF Adv(s, st).p = Len(s) THEN Adv(s, st) ELSE LexVar(s, Adv(s, Adv(s, st))))
  ELSE IF c = NL \/ c = EOFC \/ c = CR THEN st
  ELSE LexVar(s, Adv(s, st))

(* the leading skip loop of lex(): blanks and "$<newline>" continuations (not at column zero) *)
RECURSIVE SkipLead(_, _)
SkipLead(s, st) ==
  LET c == Peek(s, st) IN
  IF c = DOLLAR /\ ~st.z
  THEN IF \/ (Len(s) - st.p > 1 /\ At(s, st.p + 2) = NL)
          \/ (Len(s) - st.p > 2 /\ At(s, st.p + 2) = CR /\ At(s, st.p + 3) = NL)
       THEN SkipLead(s, Adv(s, Adv(s, st)))
       ELSE st
  ELSE IF IsNNSpace(c) THEN SkipLead(s, Adv(s, st))
  ELSE st

(* token kinds, numbered as enum Token::Kind *)
KColon == 0  KComment == 1  KEOF == 2  KEquals == 3  KIndent == 4  KIdent == 5
KWBuild == 6  KWDefault == 7  KWInclude == 8  KWPool == 9  KWRule == 10  KWSubninja == 11
KNewline == 12  KPipe == 13  KPipePipe == 14  KString == 15  KUnknown == 16

SpBuild    == <<98, 117, 105, 108, 100>>
SpDefault  == <<100, 101, 102, 97, 117, 108, 116>>
SpInclude  == <<105, 110, 99, 108, 117, 100, 101>>
SpPool     == <<112, 111, 111, 108>>
SpRule     == <<114, 117, 108, 101>>
SpSubninja == <<115, 117, 98, 110, 105, 110, 106, 97>>
Keywords == { <<KWBuild, SpBuild>>, <<KWDefault, SpDefault>>, <<KWInclude, SpInclude>>,
              <<KWPool, SpPool>>, <<KWRule, SpRule>>, <<KWSubninja, SpSubninja>> }

Bytes(s, a, b) == [i \in 1..(b - a) |-> At(s, a + i)]                \* bytes a+1 .. b
IdentKind(w) ==    \* setIdentifierTokenKind: a keyword only when the whole word is the spelling
  IF \E k \in Keywords : k[2] = w THEN (CHOOSE k \in Keywords : k[2] = w)[1] ELSE KIdent

Tok(k, a, st) == [k |-> k, a |-> a, e |-> st.p, st |-> st]           \* kind, start, end, state after

(* one call of Lexer::lex in mode m from state st; g = where the skipped gap started *)
Lex(s, st0, m) ==
  LET c0 == Peek(s, st0) IN
  IF IsNNSpace(c0) /\ st0.z
  THEN Tok(KIndent, st0.p, SkipNN(s, Adv(s, st0)))
  ELSE
    LET st == SkipLead(s, st0)
        c  == Peek(s, st)
        a  == st.p
    IN
    IF c = NL \/ c = CR THEN Tok(KNewline, a, Adv(s, st))
    ELSE IF c = EOFC THEN Tok(KEOF, a, st)
    ELSE IF m = "V" THEN Tok(KString, a, LexVar(s, st))
    ELSE IF m = "P" /\ c # COLON /\ c # PIPE THEN Tok(KString, a, LexPath(s, st))
    ELSE
      LET st1 == Adv(s, st) IN
      IF c = COLON THEN Tok(KColon, a, st1)
      ELSE IF c = EQUALS THEN Tok(KEquals, a, st1)
      ELSE IF c = HASH THEN Tok(KComment, a, SkipEOL(s, st1))
      ELSE IF c = PIPE THEN (IF Peek(s, st1) = PIPE THEN Tok(KPipePipe, a, Adv(s, st1)) ELSE Tok(KPipe, a, st1))
      ELSE IF IsIdent(c)
           THEN LET st2 == LexIdent(s, st1) IN
                Tok(IF m = "I" THEN KIdent ELSE IdentKind(Bytes(s, a, st2.p)), a, st2)
      ELSE Tok(KUnknown, a, st1)

(* the token list of the whole buffer in a fixed mode, up to and including the first EndOfFile.   *)
(* fuel bounds the recursion: the intended lexer consumes at least one byte per non-EOF token.     *)
RECURSIVE Toks(_, _, _, _, _)
Toks(s, st, m, fuel, acc) ==
  LET t == Lex(s, st, m)
      acc1 == Append(acc, <<t.k, t.a, t.e - t.a>>)
  IN IF t.k = KEOF \/ fuel = 0 THEN acc1 ELSE Toks(s, t.st, m, fuel - 1, acc1)
Tokens(s, m) == Toks(s, St(0, TRUE), m, Len(s) + 1, <<>>)

Modes == {"N", "I", "P", "V"}

---------------------------------------------------------------------------------------------
(* domain *)
Strs == UNION { [1..n -> Alphabet] : n \in 0..MaxLen }
Letter == 97
KwVariants ==
  LET sp == { k[2] : k \in Keywords } IN
  UNION { { w,                                                      \* exact
            SubSeq(w, 1, Len(w) - 1),                               \* one char short
            w \o <<Letter>>, w \o <<88>>,                           \* one char long
            SubSeq(w, 1, Len(w) - 1) \o <<88>>,                     \* last char replaced   (subninjX)
            SubSeq(w, 1, Len(w) - 1) \o <<Letter>>,
            <<88>> \o SubSeq(w, 2, Len(w)),                         \* first char replaced
            SubSeq(w, 1, Len(w) - 2) \o <<88>> \o SubSeq(w, Len(w), Len(w)) }   \* last but one replaced
          : w \in sp }
KwPrefix == { <<>>, <<32>>, <<Letter>>, <<NL>>, <<DOLLAR>>, <<255>>, <<32, 32>> }
KwSuffix == { <<>>, <<32>>, <<COLON>>, <<NL>>, <<CR, NL>>, <<255>>, <<128>>, <<DOLLAR>>, <<EQUALS>>, <<32, Letter, NL>> }
KwStrs == { p \o w \o x : p \in KwPrefix, w \in KwVariants, x \in KwSuffix }

StrsUpTo(k) == UNION { [1..n -> Alphabet] : n \in 0..k }
Part ==    \* the buffers of this partition, built from their first two bytes
  (IF 256 \in First THEN {<<>>} ELSE {})
  \cup (IF 256 \in Second /\ MaxLen >= 1 THEN { <<a>> : a \in First \ {256} } ELSE {})
  \cup { <<a, b>> \o t : a \in First \ {256}, b \in Second \ {256}, t \in StrsUpTo(MaxLen - 2) }
Domain == IF Family = "kw" THEN KwStrs ELSE Part

OutOf(s) == [ i |-> s, N |-> Tokens(s, "N"), I |-> Tokens(s, "I"), P |-> Tokens(s, "P"), V |-> Tokens(s, "V") ]
Init == buf \in Domain /\ out = OutOf(buf)
Next == FALSE /\ UNCHANGED <<buf, out>>          \* no transitions: the state space is the domain
Emit == PrintT(<<"CASE", ToJson(out)>>)

---------------------------------------------------------------------------------------------
(* properties of the specification (C19: tiling, EOF only at the end; C17: whole-word keywords, *)
(* high bytes ordinary)                                                                        *)

(* the bytes a+1..b skipped between two tokens are blanks and "$<newline>" continuations only *)
RECURSIVE GapOK(_, _, _)
GapOK(s, a, b) ==
  IF a = b THEN TRUE
  ELSE LET c == At(s, a + 1) IN
       IF IsNNSpace(c) THEN GapOK(s, a + 1, b)
       ELSE IF c = DOLLAR /\ a + 2 <= b /\ At(s, a + 2) = NL
            THEN (IF a + 3 <= b /\ At(s, a + 3) = CR THEN GapOK(s, a + 3, b) ELSE GapOK(s, a + 2, b))
       ELSE IF c = DOLLAR /\ a + 3 <= b /\ At(s, a + 2) = CR /\ At(s, a + 3) = NL THEN GapOK(s, a + 3, b)
       ELSE FALSE

EndOf(t) == t[2] + t[3]
t_in(s, t) == t[2] >= 0 /\ t[3] >= 0 /\ t[2] + t[3] <= Len(s)     \* cursor never beyond the end
TilingOf(s, ts) ==
  /\ Len(ts) >= 1
  /\ \A i \in 1..Len(ts) :
       /\ t_in(s, ts[i])
       /\ LET prev == IF i = 1 THEN 0 ELSE EndOf(ts[i-1]) IN
          /\ ts[i][2] >= prev                                     \* no overlap
          /\ GapOK(s, prev, ts[i][2])                             \* nothing but blanks between tokens
       /\ (ts[i][1] # KEOF => ts[i][3] >= 1)                      \* every token makes progress
  /\ ts[Len(ts)][1] = KEOF                                        \* the list ends (the lexer terminates)

Tiling == \A m \in Modes : TilingOf(buf, out[m])
EOFOnlyAtEnd ==
  \A m \in Modes : LET ts == out[m] IN
    \A i \in 1..Len(ts) : ts[i][1] = KEOF => (ts[i][2] = Len(buf) /\ ts[i][3] = 0 /\ i = Len(ts))

IsKw(k) == k \in KWBuild..KWSubninja
KeywordsWholeWord ==
  /\ \A t \in {out.N[i] : i \in 1..Len(out.N)} :
        LET w == Bytes(buf, t[2], EndOf(t)) IN
        /\ IsKw(t[1]) => /\ <<t[1], w>> \in Keywords                                   \* exactly the spelling
                         /\ (t[2] = 0 \/ ~IsIdent(At(buf, t[2])))                      \* not the tail of a longer word
                         /\ (EndOf(t) = Len(buf) \/ ~IsIdent(At(buf, EndOf(t) + 1)))   \* not the head of a longer word
        /\ t[1] = KIdent => ~(\E k \in Keywords : k[2] = w)                            \* and every spelling is recognised
  /\ \A m \in {"I", "P", "V"} : \A i \in 1..Len(out[m]) : ~IsKw(out[m][i][1])

(* bytes 0x80..0xFF behave like any ordinary character that is neither blank, special nor an   *)
(* identifier character ('!' = 33): replacing them changes no token boundary and no token kind  *)
Ordinary(s) == [i \in 1..Len(s) |-> IF s[i] >= 128 THEN 33 ELSE s[i]]
HighBytesOrdinary == (\E i \in 1..Len(buf) : buf[i] >= 128) => \A m \in Modes : out[m] = Tokens(Ordinary(buf), m)
=============================================================================
