CONSTANT MaxLen = 4
INIT Init
NEXT Next
INVARIANT MustImpliesMay
INVARIANT TrailingSeparatorAgnostic
CONSTRAINT Emit
CHECK_DEADLOCK FALSE
