---------------------------- MODULE PathPrefix ----------------------------
(* C14: "lexically lies at or beneath one of the roots by whole path components, a root    *)
(* spelled with or without a trailing separator behaving the same".                        *)
(* Function-level specification of buildsystem::pathIsPrefixedByPath(path, root).          *)
(*   Must(p, r): the cases the property fixes as TRUE  (p is the root, with or without one  *)
(*               trailing separator, or continues with a separator right after it)          *)
(*   May(p, r):  the most liberal reading (component lists, empty components dropped, in    *)
(*               prefix relation); anything outside May must be FALSE.                      *)
(* Between the two (doubled separators) the property is silent and either answer is legal.  *)
EXTENDS Naturals, Sequences, TLC, Json, SequencesExt
CONSTANT MaxLen
Sigma == {"a", "b", "/"}
Strs == UNION { [1..n -> Sigma] : n \in 0..MaxLen }
VARIABLES path, root
Strip1(s) == IF Len(s) > 0 /\ s[Len(s)] = "/" THEN SubSeq(s, 1, Len(s)-1) ELSE s
IsPrefixSeq(p, s) == Len(p) <= Len(s) /\ SubSeq(s, 1, Len(p)) = p
Must(p, r) == LET r1 == Strip1(r) IN p = r1 \/ p = r \/ IsPrefixSeq(r1 \o <<"/">>, p)
RECURSIVE Comps(_, _, _)
Comps(s, cur, acc) ==
  IF s = <<>> THEN (IF cur = <<>> THEN acc ELSE Append(acc, cur))
  ELSE IF Head(s) = "/" THEN Comps(Tail(s), <<>>, IF cur = <<>> THEN acc ELSE Append(acc, cur))
  ELSE Comps(Tail(s), Append(cur, Head(s)), acc)
May(p, r) == IsPrefixSeq(Comps(r, <<>>, <<>>), Comps(p, <<>>, <<>>))
Init == path \in Strs /\ root \in Strs
Next == UNCHANGED <<path, root>>
Str(s) == FoldLeft(LAMBDA acc, c : acc \o c, "", s)
Emit == PrintT(<<"CASE", ToJson([path |-> Str(path), root |-> Str(root), must |-> Must(path, root), may |-> May(path, root)])>>)
(* properties of the specification itself *)
MustImpliesMay == Must(path, root) => May(path, root)
TrailingSeparatorAgnostic ==       \* a root with or without ONE trailing separator behaves the same
  (Len(root) > 0 /\ root[Len(root)] # "/") => (Must(path, root) <=> Must(path, root \o <<"/">>))
=============================================================================
