CONSTANT MaxLen = 3
CONSTANT Alphabet = {97,32,39,34,36,92,35,61,42,126,10,9,59,38,124,60,40}
CONSTANT First = {97,32,39,34,36,92,35,61,42,126,10,9,59,38,124,60,40,256}
INIT Init
NEXT Next
INVARIANT RoundTrip
INVARIANT ModelSanity
CONSTRAINT Emit
CHECK_DEADLOCK FALSE
