----------------------------- MODULE ShellQuote -----------------------------
(* C17 (last sentence: "A shell-quoted path passed through /bin/sh yields the original path"):    *)
(* function-level specification of  basic::appendShellEscapedString / shellEscaped                *)
(* (lib/Basic/ShellUtility.cpp, POSIX branch)  together with a small model of how a POSIX shell    *)
(* splits a command line into words and removes quotes (XCU 2.2 Quoting, 2.3 Token Recognition,     *)
(* 2.6 Word Expansions - only as far as needed to say "this text is exactly one literal word").     *)
(*   Quote(p)    the INTENDED function, with the code's case analysis: nothing to do for a         *)
(*               non-empty string of safe characters; '...' when there is no single quote;         *)
(*               '...'\''...' otherwise.  Not the code's defects (S8): '#' is not a safe character  *)
(*               (an unquoted word starting with '#' is a comment) and the empty string is ''.     *)
(*   Unquote(q)  the words a shell makes of the text q, or "bad" when q contains anything that is   *)
(*               not a literal (an expansion, an operator, a comment, a glob, an open quote ...).   *)
(* Property:  Unquote(Quote(p)) = exactly the one word p, for every byte string p without NUL.      *)
EXTENDS Integers, Sequences, TLC, Json, FiniteSets
CONSTANTS MaxLen, Alphabet, First
VARIABLES str, out

SQ == 39  DQ == 34  BSL == 92  NL == 10  SP == 32  TAB == 9  HASH == 35  TILDE == 126  DOLLAR == 36  BQ == 96

IsAlnum(c) == c \in 97..122 \/ c \in 65..90 \/ c \in 48..57
(* the whitelist of the code minus '#':  - _ / : @ % + = . ,  *)
Safe(c) == IsAlnum(c) \/ c \in {45, 95, 47, 58, 64, 37, 43, 61, 46, 44}

RECURSIVE EscSQ(_, _)
EscSQ(p, i) == IF i > Len(p) THEN <<>> ELSE (IF p[i] = SQ THEN <<SQ, BSL, SQ, SQ>> ELSE <<p[i]>>) \o EscSQ(p, i + 1)
Quote(p) ==
  IF p = <<>> THEN <<SQ, SQ>>
  ELSE IF \A i \in 1..Len(p) : Safe(p[i]) THEN p
  ELSE IF \A i \in 1..Len(p) : p[i] # SQ THEN <<SQ>> \o p \o <<SQ>>
  ELSE <<SQ>> \o EscSQ(p, 1) \o <<SQ>>

-----------------------------------------------------------------------------
(* shell model.  state: i next index, cur the word being built, inw whether a word is open (a quoted   *)
(* empty string opens a word), ws the finished words *)
Bad == [ok |-> FALSE, words |-> <<>>]
(* characters that are operators, expansions or patterns when they appear unquoted *)
Special == {DOLLAR, BQ, 42, 63, 91, 59, 38, 124, 60, 62, 40, 41}       \* $ ` * ? [ ; & | < > ( )

RECURSIVE Closing(_, _, _)
Closing(q, i, c) == IF i > Len(q) THEN 0 ELSE IF q[i] = c THEN i ELSE Closing(q, i + 1, c)

(* inside double quotes: returns [i |-> index after the closing quote or 0 when bad, w |-> text] *)
RECURSIVE InDQ(_, _, _)
InDQ(q, i, w) ==
  IF i > Len(q) THEN [i |-> 0, w |-> w]
  ELSE LET c == q[i] IN
       IF c = DQ THEN [i |-> i + 1, w |-> w]
       ELSE IF c = DOLLAR \/ c = BQ THEN [i |-> 0, w |-> w]
       ELSE IF c = BSL
            THEN IF i = Len(q) THEN [i |-> 0, w |-> w]
                 ELSE IF q[i + 1] \in {DOLLAR, BQ, DQ, BSL} THEN InDQ(q, i + 2, Append(w, q[i + 1]))
                 ELSE IF q[i + 1] = NL THEN InDQ(q, i + 2, w)
                 ELSE InDQ(q, i + 1, Append(w, BSL))
       ELSE InDQ(q, i + 1, Append(w, c))

RECURSIVE Scan(_, _, _, _, _)
Scan(q, i, cur, inw, ws) ==
  IF i > Len(q) THEN [ok |-> TRUE, words |-> IF inw THEN Append(ws, cur) ELSE ws]
  ELSE LET c == q[i] IN
       IF c = SP \/ c = TAB THEN Scan(q, i + 1, <<>>, FALSE, IF inw THEN Append(ws, cur) ELSE ws)
       ELSE IF c = NL THEN Bad                                   \* ends the command: what follows is another command
       ELSE IF c = SQ THEN LET j == Closing(q, i + 1, SQ) IN
                           IF j = 0 THEN Bad ELSE Scan(q, j + 1, cur \o SubSeq(q, i + 1, j - 1), TRUE, ws)
       ELSE IF c = DQ THEN LET r == InDQ(q, i + 1, <<>>) IN
                           IF r.i = 0 THEN Bad ELSE Scan(q, r.i, cur \o r.w, TRUE, ws)
       ELSE IF c = BSL THEN (IF i = Len(q) THEN Bad
                             ELSE IF q[i + 1] = NL THEN Scan(q, i + 2, cur, inw, ws)
                             ELSE Scan(q, i + 2, Append(cur, q[i + 1]), TRUE, ws))
       ELSE IF (c = HASH \/ c = TILDE) /\ ~inw THEN Bad          \* comment / tilde expansion at the start of a word
       ELSE IF c \in Special THEN Bad
       ELSE Scan(q, i + 1, Append(cur, c), TRUE, ws)
Unquote(q) == Scan(q, 1, <<>>, FALSE, <<>>)

-----------------------------------------------------------------------------
StrsUpTo(k) == UNION { [1..n -> Alphabet] : n \in 0..k }
Part == (IF 256 \in First THEN {<<>>} ELSE {}) \cup { <<a>> \o t : a \in First \ {256}, t \in StrsUpTo(MaxLen - 1) }   \* partition on the first byte (256 = the empty string)
Init == str \in Part /\ out = [i |-> str, q |-> Quote(str)]
Next == FALSE /\ UNCHANGED <<str, out>>
Emit == PrintT(<<"CASE", ToJson(out)>>)

(* the property *)
RoundTrip == Unquote(out.q) = [ok |-> TRUE, words |-> <<str>>]
(* sanity of the shell model: an unquoted safe word is one literal word, and the model does tell the   *)
(* known bad spellings apart ('#' first, the empty text) - so RoundTrip is not vacuous                  *)
ModelSanity ==
  /\ Unquote(<<>>).words = <<>>
  /\ ~Unquote(<<HASH, 97>>).ok
  /\ Unquote(<<97, HASH>>) = [ok |-> TRUE, words |-> << <<97, HASH>> >>]
  /\ Unquote(<<97, SP, 97>>).words = << <<97>>, <<97>> >>
  /\ Unquote(<<SQ, SQ>>) = [ok |-> TRUE, words |-> << <<>> >>]
=============================================================================
