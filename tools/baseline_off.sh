#!/bin/bash
# The repository's own suite with the verification guard OFF (no -DLLBUILD_VERIF): rebuild /repo/_build and
# run the gtest binaries that make up the 83-test baseline.
set -e
cd /repo
[ -f _build/build.ninja ] || cmake -G Ninja -S . -B _build -DCMAKE_BUILD_TYPE=RelWithDebInfo -DCMAKE_CXX_COMPILER=clang++-16 -DCMAKE_C_COMPILER=clang-16 -DCMAKE_CXX_FLAGS=-Wno-error -DCMAKE_C_FLAGS=-Wno-error >/dev/null
cmake --build _build >/dev/null
rc=0
for t in _build/bin/*Tests; do $t --gtest_output=xml:_build/$(basename $t).xml || rc=1; done
exit $rc
