#!/usr/bin/env python3
"""summarise a TLC counterexample of BuildSystemMC (one line per state)"""
import re, sys
t = open(sys.argv[1]).read()
states = re.split(r'\nState \d+: ', t)[1:]
def fld(s, name):
    m = re.search(r'/\\ %s = (.*?)(?=\n/\\ |\Z)' % name, s, re.S); return m.group(1) if m else ''
for i, s in enumerate(states, 1):
    last = fld(s, 'last')
    a = re.search(r'\ba \|-> "(\w+)"', last); k = re.search(r'\bk \|-> (\[[^\]]*\])', last)
    ran = re.search(r'ran \|-> (<<.*?>>)', last, re.S); ok = re.search(r'ok \|-> (\w+)', last)
    rs = re.findall(r'reason \|-> "(\w+)",\s+k \|-> \[t \|-> "(\w)", n \|-> "([^"]*)"\]', last)
    fs = fld(s, 'fs')
    ents = re.findall(r'"([^"]+)" :>\s*\[\s*t \|-> "(\w+)",\s*c \|-> "([^"]*)",\s*par \|-> "[^"]*",\s*s \|-> (\d+)', fs)
    dsc = fld(s, 'desc')
    cm = re.findall(r'(\w+) \|->\s+\[ ins \|-> (<<[^>]*>>),\s+outs \|-> (<<[^>]*>>),\s+tag \|-> "(\w*)",\s+sigx \|-> (\w+),\s+reads \|-> (<<[^>]*>>)', dsc)
    tg = re.search(r'targets \|-> (\[[^\]]*\])', dsc)
    print("%d %s %s ran=%s ok=%s" % (i, a.group(1) if a else None, k.group(1) if k else '', re.sub(r'\s+', ' ', ran.group(1)) if ran else '', ok.group(1) if ok else ''))
    if rs: print("    reasons:", ["%s%s:%s" % (b, c, r) for r, b, c in rs])
    print("    fs:", ' '.join("%s=%s:%s:%s" % e for e in ents if e[1] != 'none'))
    print("    desc:", [(c[0], c[1], c[2], c[3], c[4], c[5]) for c in cm], tg.group(1) if tg else '')
