#!/usr/bin/env python3
"""Development aid: explain why BuildSystemTrace.tla rejects a DB line of a recorded history (prints, for the first
unmatched DB line, the keys whose planned row differs from the observed one).   usage: bs_dbg.py trace.ndjson"""
import os, re, shutil, subprocess, sys
sys.path.insert(0, os.path.dirname(os.path.abspath(__file__)))
import vlib
DBG = r'''
TDBdbg ==
  /\ Is("DB") /\ HavePlan
  /\ LET rows == SelectSeq(ev.rows, LAMBDA row : Modelled(row.k))
         M == plan.db
         bad == {k \in DOMAIN M \cap RowKeys(rows) : ~RowMatches(k, M[k], RowOf(rows, k))}
     IN PrintT(<<"DBG", l, ev.epoch, epoch + 1, "only observed", RowKeys(rows) \ DOMAIN M, "only planned", DOMAIN M \ RowKeys(rows),
                 "differ", [k \in bad |-> <<"planned", M[k].built, M[k].computed, M[k].val, M[k].deps, "observed", RowOf(rows, k)>>]>>)
  /\ UNCHANGED vars /\ UNCHANGED plan /\ Keep
TNeedsdbg ==
  /\ Is("Needs") /\ HavePlan
  /\ PrintT(<<"DBGN", l, "only observed", NeedSet(ev.list) \ NeedSet(plan.reasons), "only planned", NeedSet(plan.reasons) \ NeedSet(ev.list)>>)
  /\ UNCHANGED vars /\ UNCHANGED plan /\ Keep
'''
def main():
    tr = os.path.abspath(sys.argv[1]); d = vlib.scratch("bs_dbg")
    for f in os.listdir(vlib.SPEC):
        if f.endswith(".tla") or f.endswith(".cfg"): shutil.copy(os.path.join(vlib.SPEC, f), d)
    p = os.path.join(d, "BuildSystemTrace.tla"); s = open(p).read()
    s = s.replace("TEnd == ", DBG + "TEnd == ", 1)
    s = re.sub(r"(TraceNext == [^\n]*)", r"\1 \\/ TDBdbg \\/ TNeedsdbg", s, 1)
    open(p, "w").write(s)
    env = dict(os.environ, TRACE=tr, JAVA_TOOL_OPTIONS="-Xss64m")
    r = subprocess.run(["tlc", "-workers", "1", "-noGenerateSpecTE", "-metadir", d + "/md", "-config", "BuildSystemTrace.cfg", "BuildSystemTrace.tla"], cwd=d, env=env, capture_output=True, text=True, timeout=1200)
    out = r.stdout
    i = max(out.rfind('<<"DBG",'), out.rfind('<<"DBGN"'), out.rfind('<< "DBGN"'), out.rfind('<< "DBG",')); m = re.search(r'<<"MAXL"[^>]*>>', out)
    print(out[i:i + 6000] if i >= 0 else out[-3000:]); print(m.group(0) if m else "")
if __name__ == "__main__": main()
