#!/usr/bin/env python3
"""Seeded generator of build-system cases (descriptions + histories) for C08-C12 and C14.
Every case is produced from (focus, seed) alone, so a replay file only needs those two values."""
import copy, fnmatch, os, random, sys
sys.path.insert(0, os.path.dirname(os.path.abspath(__file__)))
from bslib import node, cmd, make_desc, finish_case, SBX

SPECIAL_HEADERS = ["inc/h 1", "inc/h#2", "inc/h$3", "inc/h\\4", "inc/h:5", "h6"]

def comps(p): return [c for c in p.split("/") if c]

class Gen:
    def __init__(self, focus, seed):
        self.focus = focus; self.seed = seed; self.rng = random.Random("%s/%d" % (focus, seed))
        self.nodes = {}; self.fs0 = {}; self.paths = {}; self.steps = []
        self.markers = []; self.headers = []; self.sources = []; self.trees = []
    # ------------------------------------------------------------------ file system
    def src(self, p, c="0"):
        self.fs0[p] = dict(t="file", c=c); self.nodes.setdefault(p, node("file", p)); return p
    def absent(self, p):
        self.fs0.setdefault(p, dict(t="none", c="")); self.nodes.setdefault(p, node("file", p)); return p
    def hdr(self, p, present=True):
        n = SBX + "/" + p
        self.nodes[n] = node("file", p)
        self.fs0[p] = dict(t="file", c="0") if present else dict(t="none", c="")
        return n
    # ------------------------------------------------------------------ descriptions
    def base_desc(self):
        r = self.rng; f = self.focus
        srcs = [self.src("a"), self.src("b")]
        if r.random() < 0.5: srcs.append(self.src("sub/c"))
        self.sources = srcs
        hp = SPECIAL_HEADERS if f == "C11" else ["h6", "inc/h 1"]
        self.headers = [self.hdr(p, present=r.random() < 0.85) for p in r.sample(hp, r.randint(1, min(3, len(hp))))]
        self.markers = [self.absent("m1"), self.absent("m2")]
        ncmd = r.randint(2, 4)
        cmds = {}; outs_avail = []; order = []
        for i in range(1, ncmd + 1):
            name = "c%d" % i
            pool = srcs + outs_avail
            ins = r.sample(pool, r.randint(1, min(2, len(pool))))
            nouts = 2 if r.random() < 0.25 else 1
            outs = []
            for j in range(nouts):
                o = ("gen/o%d_%d" if r.random() < 0.3 else "o%d_%d") % (i, j)
                self.absent(o); outs.append(o)
            if r.random() < 0.12:       # a command whose only output is virtual: its value is the same on every run
                outs = ["<v%d>" % i]; self.nodes[outs[0]] = node("virtual", "")
            elif r.random() < 0.15:     # a virtual output next to the file outputs, in either position
                v = "<w%d>" % i; self.nodes[v] = node("virtual", ""); outs.insert(r.choice([0, len(outs)]), v)
            reads = []
            if self.headers and r.random() < (0.8 if f == "C11" else 0.35):
                reads = r.sample(self.headers, r.randint(1, min(2, len(self.headers))))
            failif = ""
            if r.random() < (0.6 if f == "C10" else 0.12): failif = r.choice(self.markers)
            c = cmd(ins=ins, outs=outs, tag=name, reads=reads, failif=failif, failpt=r.choice(["before", "after"]),
                    ami=r.random() < 0.2, aood=r.random() < 0.05, amo=False, keep=r.random() < (0.45 if f in ("C11", "C09") else 0.2),
                    depstyle=("depinfo" if r.random() < (0.5 if f == "C11" else 0.2) else "makefile"),
                    depsok=not (f == "C11" and r.random() < 0.12),
                    env=[["K", "v"]] if r.random() < 0.2 else [],
                    spell=dict(args="scalar" if r.random() < 0.3 else "list", deps="list" if r.random() < 0.3 else "scalar"),
                    signature="S0" if (f == "C09" and r.random() < 0.3) else "",
                    extra=(["EK", "ev"] if r.random() < 0.5 else ["x y", "z"]) if (f == "C09" and r.random() < 0.45) else [])
            c["_relreads"] = r.random() < 0.4       # the dependency file spells the paths relative to the working directory
            c["_multirule"] = r.random() < 0.5      # Makefile style: the read paths are spread over several rules / continuation lines
            if f == "C11" and reads and r.random() < 0.3:
                # an explicit working-directory: relative names in the dependency file are relative to it
                c["_wd"] = "wdir"; self.fs0.setdefault("wdir", dict(t="dir", c=""))
                if c["_relreads"]:
                    nr = []
                    for x in reads:
                        p = self.nodes[x]["path"]; n2 = SBX + "/wdir/../" + p
                        self.nodes[n2] = node("file", p); nr.append(n2)
                    c["reads"] = nr
            c["_failhow"] = r.choice(["exit 1", "exit 1", "exit 2", "exit 255", "kill -TERM $$", "kill -USR1 $$", "kill -ABRT $$", "kill -HUP $$"])
            if c["_depstyle"] == "makefile" and any(":" in x for x in reads): c["_depstyle"] = c["_depfmt"] = "depinfo"   # makefile syntax cannot express ':'
            cmds[name] = c; order.append(name); outs_avail += outs
        if f in ("C08", "C12") and r.random() < 0.35:
            # a command that produces a directory, and a consumer of that directory (tree signature of a produced node)
            nd = node("dir", "gd"); nd["inner"] = "gd/f"; self.nodes["gd/"] = nd
            self.fs0["gd"] = dict(t="none", c=""); self.fs0["gd/f"] = dict(t="none", c=""); self.absent("ogd")
            cmds["cg"] = cmd(ins=[r.choice(srcs)], outs=["gd/"], tag="cg"); order.append("cg")
            cmds["cgu"] = cmd(ins=["gd/"] + ([r.choice(srcs)] if r.random() < 0.5 else []), outs=["ogd"], tag="cgu"); order.append("cgu")
            outs_avail.append("ogd"); self.gd = True
        targets = {}
        finals = [o for o in outs_avail if self.nodes[o]["kind"] == "file"] or [outs_avail[-1]]
        tn = r.sample(finals, r.randint(1, min(2, len(finals))))
        if r.random() < 0.35:
            self.nodes["<all>"] = node("virtual", "")
            cmds["all"] = cmd(tool="phony", ins=tn, outs=["<all>"]); order.append("all"); tn = ["<all>"]
        if r.random() < 0.2:
            self.absent("mk"); cmds["mkd"] = cmd(tool="mkdir", outs=["mk"]); order.append("mkd"); tn = tn + ["mk"]
        if r.random() < 0.2:
            self.absent("lnk"); tgt = r.choice([x for x in finals + srcs if self.nodes[x]["kind"] == "file"])
            cmds["ln"] = cmd(tool="symlink", ins=[tgt] if r.random() < 0.7 else [], outs=["lnk"], tag=self.nodes[tgt]["path"]); order.append("ln"); tn = tn + ["lnk"]
        if r.random() < 0.1: tn = tn + [r.choice(self.markers)]      # a target naming a (usually missing) source: "missing inputs" error
        targets["t"] = tn
        if r.random() < 0.4: targets["u"] = [r.choice(finals)]
        return make_desc(cmds, targets, order)

    def add_tree(self, desc):
        """C12: a directory (or directory-structure) input of a counting command"""
        r = self.rng
        root = "d"; kind = "dirstruct" if r.random() < 0.45 else "dir"
        filt = r.choice([[], [], [".*"], ["*.tmp"], [".*", "*.tmp"]])
        name = root + "/"
        nd = node(kind, root, filt); nd["spell"] = r.choice(["slash", "isdir", "type"]) if kind == "dir" else r.choice(["type", "isds"])
        self.nodes[name] = nd
        layout = ["d/f1", "d/f2", "d/s/g1", "d/s/t/k1", "d/.hid", "d/x.tmp", "d/s/y.tmp"]
        for p in layout:
            if r.random() < 0.6: self.fs0[p] = dict(t="file", c="0")
            else: self.fs0[p] = dict(t="none", c="")
        for p in ["d", "d/s", "d/s/t", "d/e"]: self.fs0.setdefault(p, dict(t="dir", c=""))
        self.fs0["d"]["t"] = "dir"
        if r.random() < 0.3:
            # the documented idiom: the directory itself is the output of a mkdir command, the consumer takes "d/"
            self.nodes["d"] = node("file", "d"); nd["rootnode"] = "d"
            desc["cmds"]["mkroot"] = cmd(tool="mkdir", outs=["d"]); desc["order"].append("mkroot")
            if r.random() < 0.4:          # the directory does not exist before the first build
                for p in list(self.fs0):
                    if p == "d" or p.startswith("d/"): self.fs0[p] = dict(t="none", c="")
        r4 = random.Random("msa/%s/%d" % (self.focus, self.seed))
        if kind == "dir" and not nd.get("rootnode") and r4.random() < 0.35:
            # a command that writes INTO the directory, ordered before its consumers by must-scan-after-paths
            # (tests/BuildSystem/Build/directory-input-must-scan-after-paths.llbuild)
            self.fs0["d/gen"] = dict(t="none", c=""); self.nodes["d/gen"] = node("file", "d/gen"); nd["msa"] = ["d/gen"]
            desc["cmds"]["cw"] = cmd(ins=[r4.choice(self.sources)], outs=["d/gen"], tag="cw",
                                     failif=r4.choice(self.markers) if r4.random() < 0.3 else ""); desc["order"].append("cw")
        self.trees.append((root, layout, filt))
        self.live = {p: e["t"] for p, e in self.fs0.items() if p.startswith("d/") and e["t"] != "none"}
        self.absent("od")
        desc["cmds"]["cd"] = cmd(ins=[name] + ([r.choice(self.sources)] if r.random() < 0.4 else []), outs=["od"], tag="cd")
        desc["order"].append("cd")
        desc["targets"]["t"] = desc["targets"]["t"] + ["od"]
        return desc

    @staticmethod
    def clang_ok(c):
        """can this command be declared with the clang tool ? (arguments and one Makefile-style dependency file only)"""
        return (c["tool"] == "shell" and not c["_env"] and c["_inherit_env"] and not c.get("_wd") and not c["_signature"]
                and (not c["reads"] or c["_depstyle"] == "makefile") and not c.get("mutates"))

    def add_mutable(self, desc, r):
        """the documented idiom for a file modified in place: `mk` creates "mo" (is-mutated) and a command timestamp,
        `mu` consumes the timestamp and appends to "mo"; both re-run together, tampering with "mo" re-runs nothing"""
        self.fs0["mo"] = dict(t="none", c=""); self.nodes["mo"] = node("file", "mo", mut=True)
        self.nodes["<mo.ts>"] = node("virtual", "", ts=True); self.nodes["<mu>"] = node("virtual", "")
        desc["cmds"]["mk"] = cmd(ins=[r.choice(self.sources)], outs=r.choice([["mo", "<mo.ts>"], ["<mo.ts>", "mo"]]), tag="mk",
                                 failif=r.choice(self.markers) if r.random() < 0.2 else "")
        desc["cmds"]["mu"] = cmd(ins=["<mo.ts>"] + ([r.choice(self.sources)] if r.random() < 0.3 else []), outs=["<mu>"], tag="mu", mutates="mo")
        desc["order"] += ["mk", "mu"]
        desc["targets"]["t"] = desc["targets"]["t"] + ["<mu>"]
        return desc

    def add_stale(self, desc):
        """C14: a stale-file-removal command whose expected list and roots change over the history"""
        r = self.rng
        cand = ["st/a", "st/b", "st/sub/c", "st2/d", "stx", "st/sub"]
        for p in cand:
            if p == "st/sub": continue
            self.fs0[p] = dict(t="file", c="0")
        self.stale_cand = cand
        self.nodes["<rm>"] = node("virtual", "")
        desc["cmds"]["rm"] = self.stale_cmd(init=True); desc["order"].append("rm")
        desc["targets"]["s"] = ["<rm>"]
        if self.rng.random() < 0.5: desc["targets"]["t"] = desc["targets"]["t"] + ["<rm>"]
        return desc
    def stale_path(self, p, style):
        s = SBX + "/" + p if style != "rel" else p
        if style == "slash": s += "/"
        return s
    def stale_cmd(self, init=False):
        r = self.rng
        exp = [self.stale_path(p, "abs" if r.random() < 0.85 else "rel") for p in r.sample(self.stale_cand[:5], r.randint(1, 4))]
        roots = []
        if r.random() < 0.6:
            roots = [self.stale_path(p, r.choice(["abs", "slash"])) for p in r.sample(["st", "st/sub", "st2", "s"], r.randint(1, 2))]
        for s in exp + roots:
            rel = s[len(SBX) + 1:] if s.startswith(SBX + "/") else s
            key = rel.rstrip("/")
            self.paths[s] = dict(abs=s.startswith(SBX), comps=comps(s), key=key if key in self.fs0 else "")
        return cmd(tool="stale", outs=["<rm>"], expected=exp, roots=roots)

    # ------------------------------------------------------------------ description edits
    def edit_desc(self, desc):
        r = self.rng; d = copy.deepcopy(desc)
        shells = [n for n, c in d["cmds"].items() if c["tool"] == "shell" and n not in ("mk", "mu", "cw")]     # (the in-place idiom keeps its shape)
        kinds = ["tag", "extra", "env", "rewire", "remove", "flag", "signature", "depstyle", "boundary", "addinput", "restore", "argenv", "dupout", "argsplit"]
        k = r.choice(kinds)
        if self.focus == "C09" and r.random() < 0.5:      # prefer edits that change only a signature-relevant detail
            k = r.choice(["extra", "env", "argenv", "argsplit", "argsplit", "depstyle", "signature", "boundary", "flag"])
        if not shells: k = "restore"
        if k == "restore" and getattr(self, "desc0", None) is not None: return copy.deepcopy(self.desc0), "restore"
        n = r.choice(shells) if shells else None
        if k == "argsplit":
            cand = [x for x in shells if d["cmds"][x]["_extra"][-2:] in (["x y", "z"], ["x", "y z"])]
            if cand: n = r.choice(cand)
        if k == "argenv":
            cand = [x for x in shells if len(d["cmds"][x]["_extra"]) >= 2 and not d["cmds"][x]["_env"]]
            if cand: n = r.choice(cand)
        if "mu" in d["cmds"] and self.r3.random() < 0.25: n = self.r3.choice(["mu", "mk"]); k = "tag"     # only one half of the in-place idiom changes
        elig = [x for x in shells if self.clang_ok(d["cmds"][x])]
        if elig and self.r3.random() < 0.08:       # the same command declared with the other of the two tools (shell <-> clang)
            n = self.r3.choice(elig); c = d["cmds"][n]
            c["_toolspell"] = "shell" if c.get("_toolspell") == "clang" else "clang"; c["_relreads"] = False
            c["_spell"] = dict(c["_spell"], deps="scalar")
            return (d, "toolswitch") if self.well_formed(d) else (copy.deepcopy(desc), "none")
        plain = [x for x in shells if d["cmds"][x].get("_toolspell") != "clang"]
        if plain and self.r3.random() < (0.12 if self.focus == "C09" else 0.04):       # inherit-env alone (with or without an env map)
            n = self.r3.choice(plain); d["cmds"][n]["_inherit_env"] = not d["cmds"][n]["_inherit_env"]
            return d, "inherit"
        c = d["cmds"].get(n)
        if c is not None and c.get("_toolspell") == "clang" and k in ("env", "argenv", "depstyle", "signature"): k = "tag"    # (not expressible with the clang tool)
        if k == "tag":
            c["tag"] = c["tag"] + "x"
            if c["_signature"]: c["_signature"] += "x"      # an explicit signature is the user's promise: it changes with the body
        elif k == "extra": c["_extra"] = c["_extra"] + ["z%d" % len(c["_extra"])]
        elif k == "env": c["_env"] = [["K", "w%d" % r.randint(0, 3)]]
        elif k == "rewire":
            pool = [s for s in self.sources if s not in c["ins"]]
            if pool: c["ins"][r.randrange(len(c["ins"]))] = r.choice(pool)
        elif k == "addinput":
            pool = [s for s in self.sources if s not in c["ins"]]
            if pool: c["ins"].append(r.choice(pool))
        elif k == "remove":
            if len(d["cmds"]) >= 2: del d["cmds"][n]; d["order"].remove(n)      # (an empty `commands:` section is a loader topic, C19)
        elif k == "flag":
            f = r.choice(["ami", "aood"]); c[f] = not c[f]
        elif k == "signature":
            c["_signature"] = (c["_signature"] or "sig") + "%d" % r.randint(0, 2); c["tag"] = c["tag"] + "s"     # always a NEW explicit signature with the new body
        elif k == "depstyle":      # the declared style alone (the body keeps writing the format it wrote before)
            if c["reads"]: c["_depstyle"] = "depinfo" if c["_depstyle"] == "makefile" else "makefile"
        elif k == "dupout":        # a second command claims the same output: the node cannot be built (an error, not a crash)
            if n + "d" not in d["cmds"]:
                c2 = copy.deepcopy(c); c2["tag"] = c["tag"] + "d"; c2["reads"] = []; c2["failif"] = ""
                d["cmds"][n + "d"] = c2; d["order"].append(n + "d")
        elif k == "argsplit":      # move the boundary between two adjacent arguments across a blank inside one of them
            if c["_extra"][-2:] == ["x y", "z"]: c["_extra"] = c["_extra"][:-2] + ["x", "y z"]
            elif c["_extra"][-2:] == ["x", "y z"]: c["_extra"] = c["_extra"][:-2] + ["x y", "z"]
        elif k == "argenv":        # move the two trailing arguments across the args|env boundary
            if len(c["_extra"]) >= 2 and not c["_env"]: c["_env"] = [c["_extra"][-2:]]; c["_extra"] = c["_extra"][:-2]
        elif k == "boundary":
            # move the last declared input across the inputs|outputs boundary (it becomes the command's first output)
            used_elsewhere = any(c["ins"][-1] in (x["ins"] + x["outs"]) for m, x in d["cmds"].items() if m != n)
            if len(c["ins"]) >= 2 and c["ins"][-1] in self.sources and not used_elsewhere:
                x = c["ins"].pop(); c["outs"].insert(0, x)
        if not self.well_formed(d): return copy.deepcopy(desc), "none"      # (cycles are C07's subject, double producers an error case)
        return d, k

    @staticmethod
    def well_formed(d):
        prod = {}
        for n, x in d["cmds"].items():
            for o in x["outs"]:
                prod.setdefault(o, n)          # (two producers of one node are allowed: that is the error case of ProducedNodeTask)
        g = {n: [prod[i] for i in x["ins"] + x["reads"] if i in prod] for n, x in d["cmds"].items()}
        state = {}
        def dfs(u):
            if state.get(u) == 1: return True
            if state.get(u) == 2: return False
            state[u] = 1; r = any(dfs(v) for v in g[u]); state[u] = 2; return r
        return not any(dfs(n) for n in g)

    # ------------------------------------------------------------------ histories
    def history(self):
        r = self.rng; f = self.focus
        desc = self.base_desc()
        if f == "C12": desc = self.add_tree(desc)
        if f == "C14": desc = self.add_stale(desc)
        r3 = random.Random("mut/%s/%d" % (f, self.seed))      # (a stream of its own: the histories of a seed stay what they were)
        self.r3 = r3
        if f == "C09":      # allow-modified-outputs: a changed definition must still re-run the command (no "update if newer" across signatures)
            for n, c in desc["cmds"].items():
                if c["tool"] == "shell" and r3.random() < 0.2: c["amo"] = True
        for n, c in desc["cmds"].items():          # some eligible shell commands are declared with `tool: clang`
            if self.clang_ok(c) and r3.random() < 0.15: c["_toolspell"] = "clang"; c["_relreads"] = False
        db = r.random() < 0.9; serial = r.random() < 0.5
        # the client cancels the build at the first failure (what the command line tool does): serial execution, and a new
        # frontend after every build (the in-memory state of an aborted build is the engine-level subject C05)
        cof = f in ("C10", "C08") and r.random() < 0.3
        if cof: serial = True
        self.cof = cof
        # (not in histories with aborted builds: a file written by two commands has intermediate states an abort exposes)
        if r3.random() < {"C08": 0.3, "C09": 0.3, "C10": 0.2}.get(f, 0.1) and not cof: desc = self.add_mutable(desc, r3)
        self.desc0 = copy.deepcopy(desc)
        steps = [("frontend", desc, db, serial, cof)]
        tgts = list(desc["targets"])
        nsteps = r.randint(5, 9)
        steps.append(("build", "t"))
        for _ in range(nsteps):
            w = dict(build=4, edit=3, rm_out=1.5, tamper=1, marker=0.6, desc=1.2, restart=0.6, node=0.5, hdr=1, touch=0.6)
            if f == "C09": w.update(desc=3, restart=1.5, build=5)
            if f == "C10": w.update(marker=4)
            if f == "C11": w.update(hdr=5)
            if f == "C12": w.update(tree=7, edit=1)
            if f == "C14": w.update(stale=5, build=5)
            op = r.choices(list(w), weights=list(w.values()))[0]
            outs = [o for c in desc["cmds"].values() for o in c["outs"] if self.nodes[o]["kind"] == "file"]
            if op == "build": steps.append(("build", r.choice(list(desc["targets"]))))
            elif op == "node" and outs: steps.append(("buildnode", r.choice(outs + self.sources[:1] + self.markers[:1])))
            elif op == "edit" and r.random() < 0.12:      # a source disappears (allow-missing-inputs / missing-input failures) ...
                steps.append(("rm", r.choice(self.sources)))
            elif op == "edit": steps.append(("write", r.choice(self.sources), r.choice("01")))     # ... or is (re)written
            elif op == "touch": steps.append(("touch", r.choice(self.sources)))
            elif op == "rm_out" and outs: steps.append(("rm", r.choice(outs)))
            elif op == "tamper" and getattr(self, "gd", False) and r.random() < 0.5:
                steps.append(r.choice([("write", "gd/f", "junk"), ("rm", "gd/f"), ("rm", "gd"), ("write", "gd/extra", "x"), ("touch", "gd/f")]))
                self.fs0.setdefault("gd/extra", dict(t="none", c=""))
            elif op == "tamper" and outs: steps.append(("write", r.choice(outs), "junk"))
            elif op == "marker":
                m = r.choice(self.markers); steps.append(r.choice([("write", m, "x"), ("rm", m)]))
            elif op == "hdr" and self.headers:
                h = self.nodes[r.choice(self.headers)]["path"]; steps.append(r.choice([("write", h, r.choice("01")), ("rm", h), ("touch", h)]))
            elif op == "desc":
                desc, kind = self.edit_desc(desc); steps.append(("frontend", desc, db, serial, cof))
            elif op == "restart":
                if r.random() < 0.25: db = not db
                if r.random() < 0.3 and not cof: serial = not serial      # (builds cancelled at the first failure stay serial)
                steps.append(("frontend", copy.deepcopy(desc), db, serial, cof))
            elif op == "tree":
                root, layout, filt = self.trees[0]
                live = self.live
                cand = layout + ["d/s", "d/e", "d/new1", "d/s/new2", "d/moved", "d/s/moved2"]
                files = sorted(p for p in live if live[p] == "file")
                kind = r.choices(["write", "rm", "touch", "mkdir", "rename", "retype"], weights=[3, 2, 1, 1, 3, 1])[0]
                if kind == "rename" and files:
                    a = r.choice(files); b = r.choice([c for c in cand if c not in live] or ["d/moved"])
                    steps.append(("rename", a, b)); self.fs0.setdefault(b, dict(t="none", c="")); live[b] = live.pop(a)
                elif kind == "retype" and files:        # a file becomes a directory of the same name
                    a = r.choice(files); steps.append(("rm", a)); steps.append(("mkdir", a)); live[a] = "dir"
                elif kind == "rm" and live:
                    a = r.choice(sorted(live)); steps.append(("rm", a))
                    for q in [q for q in live if q == a or q.startswith(a + "/")]: live.pop(q)
                elif kind == "touch" and files: steps.append(("touch", r.choice(files)))
                elif kind == "mkdir":
                    a = r.choice([c for c in cand if c not in live] or ["d/e2"]); steps.append(("mkdir", a)); self.fs0.setdefault(a, dict(t="none", c="")); live[a] = "dir"
                else:
                    a = r.choice([c for c in cand if live.get(c, "file") == "file" and all(live.get(os.path.dirname(c), "dir") == "dir" for _ in [0])])
                    steps.append(("write", a, r.choice("01"))); self.fs0.setdefault(a, dict(t="none", c="")); live[a] = "file"
            elif op == "stale":
                if r.random() < 0.3:
                    # put a file back where an earlier run may have removed one and build again with the SAME frontend:
                    # the path was not listed by the previous successful run any more, so it must stay
                    p = r.choice([c for c in self.stale_cand if c != "st/sub"]); steps.append(("write", p, "back"))
                    steps.append(("build", "s"))
                else:
                    desc = copy.deepcopy(desc); desc["cmds"]["rm"] = self.stale_cmd(); steps.append(("frontend", desc, db, serial))
                    steps.append(("build", "s" if r.random() < 0.7 else "t"))
            if steps[-1][0] not in ("build", "buildnode") and r.random() < 0.55:
                steps.append(("build", r.choice(list(desc["targets"]))))
        steps.append(("build", "t"))
        if r.random() < 0.5: steps.append(("build", "t"))
        if cof:
            out2 = []
            for st in steps:
                out2.append(st)
                if st[0] in ("build", "buildnode"):
                    cur = [x for x in out2 if x[0] == "frontend"][-1]
                    out2.append(("frontend", copy.deepcopy(cur[1]), cur[2], cur[3], True))
            steps = out2
        # the client's delegate refuses to start some commands in some builds (shouldCommandStart): drawn from a stream
        # of its own so that the histories of a seed stay what they were
        r2 = random.Random("skip/%s/%d" % (f, self.seed))
        pskip = {"C10": 0.22, "C08": 0.15}.get(f, 0.06)
        out3 = []; cur = None
        for st in steps:
            if st[0] == "frontend": cur = st[1]
            if st[0] in ("build", "buildnode") and cur is not None and cur["cmds"] and r2.random() < pskip:
                names = sorted(cur["cmds"])
                out3.append(("skip", r2.sample(names, min(len(names), r2.choice([1, 1, 2])))))
            out3.append(st)
        steps = out3
        return steps

    def case(self):
        steps = self.history()
        # targets may only name nodes; target "s" (C14) lists nothing but the description must still demand the
        # removal command: it is reached through a virtual node produced by ... (the tool has no outputs), so the
        # generator builds it directly by command key instead: see bs_driver BUILD of target "s" -> handled below
        allpats = sorted({p for n in self.nodes.values() for p in n["filt"]})
        case = dict(nodes=self.nodes, fs0=self.fs0, steps=steps, paths=self.paths, focus=self.focus,
                    procs=self.rng.random() < 0.3)        # every frontend in a process of its own
        finish_case(case)
        for p, e in case["fs0"].items():
            e["hid"] = [pat for pat in allpats if fnmatch.fnmatchcase(os.path.basename(p), pat)]
        return case

def gen_case(focus, seed):
    return Gen(focus, seed).case()

if __name__ == "__main__":
    import json
    c = gen_case(sys.argv[1], int(sys.argv[2]))
    for s in c["steps"]:
        if s[0] == "frontend": print("frontend db=%s serial=%s" % (s[2], s[3])); [print("   ", n, {k: v for k, v in x.items() if v not in ([], "", False, {}, None)}) for n, x in s[1]["cmds"].items()]; print("    targets", s[1]["targets"])
        else: print(s)
