#!/usr/bin/env python3
"""Build-system cases (C08-C12, C14): description/history model shared by the generator, the renderer
(build.llbuild text + command bodies), the driver runner and the trace weaver.

A case = dict(nodes, paths, fs0, steps).  See spec/BuildSystem.tla for the meaning of every field: the
specification interprets exactly the records written into the trace here, and the renderer turns the same
records into the build file and the shell bodies the real build system executes."""
import json, os, shlex, subprocess, sys, hashlib
sys.path.insert(0, os.path.dirname(os.path.abspath(__file__)))

SBX = "@"       # stands for the absolute sandbox path in names (node names, stale-file paths)

# ----------------------------------------------------------------------------------------------- model
def node(kind, path, filt=(), ts=False, mut=False, msa=()):
    """ts: a virtual node carrying its producer's run time (is-command-timestamp); mut: a file other commands modify in
    place (is-mutated: only its existence counts for the validity of its producer's result)"""
    return dict(kind=kind, path=path, filt=list(filt), ts=ts, mut=mut, msa=list(msa))      # msa: must-scan-after-paths (directory inputs)

def cmd(tool="shell", ins=(), outs=(), tag="", reads=(), failif="", failpt="before", aood=False, ami=False, amo=False,
        extra=(), env=(), signature="", depstyle="makefile", depsok=True, expected=(), roots=(), spell=None, inherit_env=True, keep=False, mutates=""):
    """a command record; `sigx` (what the specification treats as the opaque signature-relevant remainder) is derived"""
    c = dict(tool=tool, ins=list(ins), outs=list(outs), tag=tag, reads=list(reads), failif=failif, failpt=failpt,
             aood=aood, ami=ami, amo=amo, depsok=depsok, expected=list(expected), roots=list(roots), keep=keep,
             mutates=mutates)         # node (a file some other command creates) this body appends its tag to, in place
    c["_extra"] = list(extra); c["_env"] = [list(e) for e in env]; c["_signature"] = signature; c["_depstyle"] = depstyle
    c["_spell"] = spell or {}; c["_inherit_env"] = inherit_env
    c["_depfmt"] = depstyle          # the format the body actually writes (normally the declared style)
    c["_failhow"] = "exit 1"         # how a failing body dies: "exit N" or "kill -SIG $$"
    c["_toolspell"] = "shell"        # "clang": the same command declared with `tool: clang` (ClangShellCommand: args + Makefile-style deps only)
    c["_relreads"] = False           # dependency file names the read paths relative to the working directory
    c["_wd"] = ""                    # working-directory attribute (sandbox-relative directory), "" = not set
    c["_multirule"] = False          # Makefile-style dependency file with one rule per read path (+ a continuation line)
    return c

def sigx_of(name, c, idx):
    """everything signature relevant that the specification does not interpret, as a JSON value"""
    if c["tool"] != "shell":
        return dict(kind=c["tool"])          # phony / mkdir / stale: ExternalCommand/Command signature only (name, inputs, outputs, flags)
    if c["_signature"]:
        return dict(explicit=c["_signature"])
    # the argument vector is an injective function of these fields
    return dict(tag=c["tag"], reads=c["reads"], failif=c["failif"], failpt=c["failpt"], failhow=c["_failhow"], depsok=c["depsok"], idx=idx, keep=c["keep"], mutates=c.get("mutates", ""), rel=c.get("_relreads", False), wd=c.get("_wd", ""), multi=c.get("_multirule", False),
                extra=c["_extra"], env=c["_env"], depstyle=c["_depstyle"] if c["reads"] else "", depfmt=c["_depfmt"] if c["reads"] else "",
                inherit=c["_inherit_env"], toolspell=c.get("_toolspell", "shell"))

def spec_cmd(name, c, idx):
    d = {k: v for k, v in c.items() if not k.startswith("_")}
    d["depsok"] = c["depsok"] and c["_depfmt"] == c["_depstyle"]      # a file in the other format is malformed for the declared parser
    d["sigx"] = sigx_of(name, c, idx)
    return d

def spec_desc(desc):
    names = sorted(desc["cmds"])
    return dict(cmds={n: spec_cmd(n, desc["cmds"][n], desc["order"].index(n)) for n in names},
                targets={t: list(v) for t, v in desc["targets"].items()})

def make_desc(cmds, targets, order=None):
    return dict(cmds=cmds, targets=targets, order=order or sorted(cmds))

# ----------------------------------------------------------------------------------------------- rendering
def real(name):            # node name / path as the real build system sees it (sandbox-relative names stay relative)
    return name

def makefile_escape(p):
    out = ""
    for ch in p:
        if ch in " #\\": out += "\\" + ch
        elif ch == "$": out += "$$"
        else: out += ch
    return out

def deps_bytes(c, nodes, abs_prefix):
    """content of the dependency file the body writes (bytes)"""
    paths = []
    for r in c["reads"]:
        n = r  # node name: absolute names start with @/
        if c.get("_relreads") and n.startswith(SBX + "/"):
            rel = n[len(SBX) + 1:]
            if c.get("_wd") and rel.startswith(c["_wd"] + "/"): rel = rel[len(c["_wd"]) + 1:]      # node names of such commands are @/<wd>/../<path>
            paths.append(rel)
        else: paths.append(n.replace(SBX, abs_prefix) if n.startswith(SBX) else n)
    if c["_depfmt"] == "depinfo":
        b = b"\x00verif\x00" + b"".join(b"\x10" + p.encode("latin-1") + b"\x00" for p in paths)
        if not c["depsok"]: b = b[:-1] if paths else b"\x10x"       # unterminated last operand
        return b
    if c.get("_multirule") and len(paths) >= 1:
        # one rule per path, the first one with a continuation line; later rules name other targets
        esc = [makefile_escape(p) for p in paths]
        txt = "x: \\\n  " + esc[0] + "\n" + "".join("y%d: %s\n" % (i, e) for i, e in enumerate(esc[1:], 1))
    else:
        txt = "x: " + " ".join(makefile_escape(p) for p in paths) + "\n"
    if not c["depsok"]: txt = "x " + txt.replace(":", "")           # missing colon: "x dep dep" is malformed
    return txt.encode("latin-1")

def sh_printf_bytes(b):
    return "printf '%b' " + shlex.quote("".join("\\0%03o" % x for x in b))

def body_script(name, c, idx, nodes, abs_prefix):
    def P(n):          # file-system path of node n as seen from the command's working directory (the sandbox)
        p = nodes[n]["path"]
        return shlex.quote(p)
    sx = sigx_of(name, c, idx); sx = {k: v for k, v in sx.items() if k not in ("extra", "env", "inherit", "depstyle", "toolspell")}
    L = (["cd " + shlex.quote(abs_prefix)] if c.get("_wd") else []) + ["V=$(cat .vb)", ": " + shlex.quote(json.dumps(sx, sort_keys=True))]     # the argument vector is an injective function of these fields
    if c["failif"] and c["failpt"] == "before": L.append("if [ -e %s ]; then %s; fi" % (P(c["failif"]), c["_failhow"]))
    def cat(ns):
        parts = []
        for n in ns:
            if nodes[n]["kind"] != "file": continue
            parts.append("if [ -f %s ]; then cat %s; else printf '?'; fi; printf ';'" % (P(n), P(n)))
        return parts
    for j, o in enumerate(c["outs"], 1):
        if nodes[o]["kind"] == "dir":         # a directory output: create it, (re)write one file inside, stamp both
            d = shlex.quote(nodes[o]["path"]); f = shlex.quote(nodes[o]["inner"])
            parts = ["printf '%%s' %s" % shlex.quote("%s#%d[" % (c["tag"], j))] + cat(c["ins"]) + ["printf ']{'"] + cat(c["reads"]) + ["printf '}'"]
            L.append("mkdir -p " + d); L.append("{ " + "; ".join(parts) + "; } > " + f)
            L += ["touch -d @$((V+%d)) %s" % (idx, f), "touch -d @$((V+%d)) %s" % (idx, d)]
            continue
        if nodes[o]["kind"] != "file": continue
        parts = ["printf '%%s' %s" % shlex.quote("%s#%d[" % (c["tag"], j))] + cat(c["ins"]) + ["printf ']{'"] + cat(c["reads"]) + ["printf '}'"]
        par = os.path.dirname(nodes[o]["path"])
        stamp = ["touch -d @$((V+%d)) %s" % (idx, P(o))] + (["touch -d @$((V+%d)) %s" % (idx, shlex.quote(par))] if par else [])
        if c["keep"]:      # write-if-changed: an output that already has the new content is left untouched
            L.append("N=$( { " + "; ".join(parts) + "; } )")
            L.append("if [ -f %s ] && [ ! -L %s ] && [ \"$(cat %s)\" = \"$N\" ]; then :; else printf '%%s' \"$N\" > %s; %s; fi" % (P(o), P(o), P(o), P(o), "; ".join(stamp)))
        else:
            L.append("{ " + "; ".join(parts) + "; } > " + P(o))
            L += stamp
    if c.get("mutates"):       # in-place modification of a file created by another command (fails if it is not there)
        m = c["mutates"]; par = os.path.dirname(nodes[m]["path"])
        L.append("if [ -f %s ] && [ ! -L %s ]; then printf '%%s' %s >> %s; touch -d @$((V+%d)) %s; %selse exit 1; fi" % (
            P(m), P(m), shlex.quote("+" + c["tag"]), P(m), idx, P(m), ("touch -d @$((V+%d)) %s; " % (idx, shlex.quote(par))) if par else ""))
    if c["reads"]:
        L.append(sh_printf_bytes(deps_bytes(c, nodes, abs_prefix)) + " > " + shlex.quote((c["_wd"] + "/" if c.get("_wd") else "") + name + ".d"))
    if c["failif"] and c["failpt"] == "after": L.append("if [ -e %s ]; then %s; fi" % (P(c["failif"]), c["_failhow"]))
    L.append("exit 0")
    return "\n".join(L)

def yq(s):
    """YAML double-quoted scalar (JSON string syntax is a subset; bytes >= 0x80 are written raw as latin-1)"""
    out = '"'
    for ch in s:
        o = ord(ch)
        if ch in '"\\': out += "\\" + ch
        elif ch == "\n": out += "\\n"
        elif ch == "\t": out += "\\t"
        elif o < 0x20: out += "\\x%02x" % o
        else: out += ch
    return out + '"'

def ylist(xs): return "[" + ", ".join(yq(x) for x in xs) + "]"

def render(desc, nodes, abs_prefix):
    """build.llbuild text for a description (bytes, latin-1)"""
    R = lambda n: n.replace(SBX, abs_prefix)
    L = ["client:", "  name: basic", "  version: 0", "", "tools: {}", "", "targets:"]
    for t, ns in desc["targets"].items(): L.append("  %s: %s" % (yq(t), ylist([R(n) for n in ns])))
    used = set()
    for c in desc["cmds"].values(): used |= set(c["ins"]) | set(c["outs"])
    for ns in desc["targets"].values(): used |= set(ns)
    nl = []
    for n in sorted(used):
        nd = nodes[n]; sp = nd.get("spell", "")
        attrs = []
        if nd["kind"] == "virtual" and not (n.startswith("<") and n.endswith(">")): attrs.append("is-virtual: true")
        if nd.get("ts"): attrs.append("is-command-timestamp: true")
        if nd.get("mut"): attrs.append("is-mutated: true")
        if nd["kind"] == "dir":
            if sp == "type": attrs.append("type: directory")
            elif sp == "isdir" or not n.endswith("/"): attrs.append("is-directory: true")
        if nd["kind"] == "dirstruct": attrs.append("type: directory-structure" if sp != "isds" else "is-directory-structure: true")
        if nd["filt"]: attrs.append("content-exclusion-patterns: " + ylist(nd["filt"]))
        if nd.get("msa"): attrs.append("must-scan-after-paths: " + ylist([R(x) for x in nd["msa"]]))
        if attrs: nl.append("  %s:\n" % yq(R(n)) + "\n".join("    " + a for a in attrs))
    if nl: L += ["", "nodes:"] + nl
    L += ["", "commands:"]
    for idx, name in enumerate(desc["order"]):
        c = desc["cmds"][name]; sp = c["_spell"]
        L.append("  %s:" % yq(name))
        clang = c["tool"] == "shell" and c.get("_toolspell") == "clang"
        L.append("    tool: %s" % ("clang" if clang else {"shell": "shell", "phony": "phony", "mkdir": "mkdir", "stale": "stale-file-removal", "symlink": "symlink"}[c["tool"]]))
        if c["tool"] == "symlink":
            L.append("    inputs: " + ylist([R(n) for n in c["ins"]])); L.append("    outputs: " + ylist([R(n) for n in c["outs"]]))
            L.append("    contents: " + yq(c["tag"])); continue
        if c["tool"] == "stale":
            L.append("    expectedOutputs: " + ylist([R(p) for p in c["expected"]]))
            if c["roots"]: L.append("    roots: " + ylist([R(p) for p in c["roots"]]))
            L.append("    outputs: " + ylist([R(n) for n in c["outs"]]))
            continue
        L.append("    inputs: " + ylist([R(n) for n in c["ins"]]))
        L.append("    outputs: " + ylist([R(n) for n in c["outs"]]))
        if c["tool"] == "shell":
            script = body_script(name, c, idx, nodes, abs_prefix)
            if sp.get("args") == "scalar" and not c["_extra"]: L.append("    args: " + yq(script))
            else: L.append("    args: " + ylist(["/bin/sh", "-c", script] + c["_extra"]))
            if c["_env"]: L.append("    env: {" + ", ".join("%s: %s" % (yq(k), yq(v)) for k, v in c["_env"]) + "}")
            if not c["_inherit_env"]: L.append("    inherit-env: false")
            if c.get("_wd"): L.append("    working-directory: " + yq(abs_prefix + "/" + c["_wd"]))
            if c["reads"] and clang: L.append("    deps: " + yq(name + ".d"))          # (one Makefile-style file, no style attribute)
            elif c["reads"]:
                L.append("    deps: " + (yq(name + ".d") if sp.get("deps") != "list" else ylist([name + ".d"])))
                L.append("    deps-style: " + {"makefile": "makefile", "depinfo": "dependency-info"}[c["_depstyle"]])
            if c["_signature"]: L.append("    signature: " + yq(c["_signature"]))
        if c["aood"]: L.append("    always-out-of-date: true")
        if c["ami"]: L.append("    allow-missing-inputs: true")
        if c["amo"]: L.append("    allow-modified-outputs: true")
    return ("\n".join(L) + "\n").encode("latin-1")

# ----------------------------------------------------------------------------------------------- running
def hx(b):
    if isinstance(b, str): b = b.encode("latin-1")
    return b.hex() if b else "-"

def tracked_paths(case):
    return sorted(case["fs0"])

def script_lines(case, abs_prefix):
    L = []
    for p, e in sorted(case["fs0"].items(), key=lambda kv: (kv[0].count("/"), kv[0])):
        if e["t"] == "dir": L.append("MKDIR\t" + hx(p))
        elif e["t"] == "file": L.append("WRITE\t%s\t%s" % (hx(p), hx(e["c"])))
    L.append("TRACK\t" + "\t".join(hx(p) for p in tracked_paths(case)))
    for st in case["steps"]:
        op = st[0]
        if op == "frontend":
            desc, db, serial = st[1], st[2], st[3]; cof = len(st) > 4 and st[4]
            L.append("FRONTEND\t%s\t%s\t%s\t%s" % (hx(render(desc, case["nodes"], abs_prefix)), hx("1" if db else "0"), hx("1" if serial else "0"), hx("1" if cof else "0")))
            for name, c in desc["cmds"].items():
                if c["outs"]:
                    L.append("OUTPUTS\t%s\t%s" % (hx(name), "\t".join(hx(case["nodes"][o]["path"] if case["nodes"][o]["kind"] != "virtual" else "") for o in c["outs"])))
        elif op == "write": L.append("WRITE\t%s\t%s" % (hx(st[1]), hx(st[2])))
        elif op == "touch": L.append("TOUCH\t" + hx(st[1]))
        elif op == "rm": L.append("RM\t" + hx(st[1]))
        elif op == "mkdir": L.append("MKDIR\t" + hx(st[1]))
        elif op == "rename": L.append("RENAME\t%s\t%s" % (hx(st[1]), hx(st[2])))
        elif op == "skip": L.append("SKIP\t" + "\t".join(hx(x) for x in st[1]))
        elif op == "build": L.append("BUILD\t" + hx(st[1]))
        elif op == "buildnode": L.append("BUILDNODE\t" + hx(st[1]))
        else: raise ValueError(op)
    return L

def key_rec(s):
    s = s.replace("\\", "\\")  # no-op; keys are plain strings "Nname"
    return dict(t=s[0], n=s[1:])

def run_case(binary, case, workdir, name, timeout=300):
    """run one case in a fresh sandbox; returns (trace lines for TLC, raw driver events, error or None).
    With case["procs"] every frontend of the history lives in a process of its own (the history is continued by a new
    driver process at every FRONTEND step: new process, database re-opened, signatures recomputed)."""
    sb = os.path.join(workdir, name); subprocess.run(["rm", "-rf", sb]); os.makedirs(sb)
    abs_prefix = os.path.realpath(sb)
    sp = os.path.join(workdir, name + ".script")
    lines = script_lines(case, abs_prefix)
    chunks = [lines]
    if case.get("procs"):
        track = next(l for l in lines if l.startswith("TRACK"))
        chunks = [[]]
        for l in lines:
            if l.startswith("FRONTEND") and any(x.startswith("FRONTEND") for x in chunks[-1]): chunks.append([track])
            chunks[-1].append(l)
    evs = []; err = None
    for ci, ch in enumerate(chunks):
        with open(sp, "w") as f: f.write("\n".join(ch) + "\n")
        try:
            r = subprocess.run([binary, sp, sb], capture_output=True, timeout=timeout)
        except subprocess.TimeoutExpired:
            return None, evs, "driver timeout"
        part = []
        for ln in r.stdout.decode("latin-1").split("\n"):
            if ln.strip():
                try: part.append(json.loads(ln))
                except Exception: return None, evs, "unparsable driver line: " + ln[:200]
        if r.returncode != 0 or not part or part[-1].get("e") != "End":
            err = "driver exit %d, last event %s" % (r.returncode, part[-1] if part else None); evs += part; break
        if ci > 0:
            # a continuation process re-reads the tracked paths: nothing may have changed while no process was running
            fs0 = next((e for e in part if e["e"] == "FS0"), None)
            if fs0 is None: err = "continuation process without FS0"
            part = [e for e in part if e["e"] != "FS0" and not (e["e"] == "Step" and e.get("op") == "TRACK")]
        if ci < len(chunks) - 1: part = [e for e in part if e["e"] != "End"]
        evs += part
    subprocess.run(["rm", "-rf", sb, sp])
    if err: return None, evs, err
    return weave(case, evs), evs, err

def weave(case, evs):
    """turn the driver's events into the lines BuildSystemTrace.tla consumes"""
    fs = {p: dict(t="none", c="", s=1, par=os.path.dirname(p), hid=e.get("hid", [])) for p, e in case["fs0"].items()}
    out = []
    i = 0
    # initial population: everything up to and including the FS0 event is folded into the Reset line
    while i < len(evs) and evs[i]["e"] != "FS0": i += 1
    if i < len(evs):
        for ch in evs[i]["changes"]:
            fs[ch["p"]].update(t=ch["t"], c=ch["c"])
    out.append(dict(e="Reset", nodes=case["nodes_spec"], paths=case["paths"], fs=fs))
    steps = iter(case["steps"])
    cur = None; j = i + 1; cof = False; skip = []
    while j < len(evs):
        e = evs[j]; j += 1
        k = e["e"]
        if k == "Step":
            if e["op"] in ("OUTPUTS",): continue
            cur = next(steps)
            if cur[0] == "skip": skip = list(cur[1])
        elif k == "Frontend":
            out.append(dict(e="Frontend", desc=spec_desc(cur[1]), db=e["db"])); cof = len(cur) > 4 and bool(cur[4])
        elif k == "Mutate":
            out.append(dict(e="Mutate", changes=e["changes"]))
        elif k == "Build":
            needs, seq, removed = [], [], []
            out.append(dict(e="Build", k=key_rec(e["k"]), cof=cof, skip=skip)); skip = []
            while j < len(evs) and evs[j]["e"] != "BuildEnd":
                x = evs[j]; j += 1
                if x["e"] == "NeedsRun": needs.append(dict(k=key_rec(x["k"]), reason=x["reason"], input=key_rec(x["input"]) if x["input"] else dict(t="-", n="")))
                elif x["e"] == "CmdStarted": seq.append(dict(c=x["c"], ev="S"))
                elif x["e"] == "CmdFinished": seq.append(dict(c=x["c"], ev="F", s=x["s"]))
                elif x["e"] == "CmdNote" and x["msg"].startswith("Removed stale file '"): removed.append(x["msg"][len("Removed stale file '"):].rstrip("\n")[:-1])
            for x in seq: x.setdefault("s", "")
            out.append(dict(e="Needs", list=needs))
            out.append(dict(e="Ran", seq=seq, removed=removed))
            if j < len(evs): out.append(dict(e="Result", ok=evs[j]["ok"])); j += 1
        elif k == "FS":
            out.append(dict(e="FS", changes=e["changes"]))
        elif k == "DB":
            rows = []
            for r in e.get("rows", []):
                rows.append(dict(k=key_rec(r["k"]), sig=r["sig"], built=r["built"], computed=r["computed"], val=r["val"],
                                 deps=[dict(k=key_rec(d["k"]), oo=d["oo"]) for d in r["deps"]]))
            out.append(dict(e="DB", ok=e["ok"], present=e.get("present", False), epoch=e.get("epoch", 0), rows=rows))
        elif k == "End":
            out.append(dict(e="End"))
    return [json.dumps(x, separators=(",", ":")) for x in out]

def finish_case(case):
    """derive the tables the specification needs: ancestors of every tracked path, node table without render hints"""
    fs0 = case["fs0"]
    for p in list(fs0):
        d = os.path.dirname(p)
        while d:
            fs0.setdefault(d, dict(t="dir" if fs0[p]["t"] != "none" else "none", c=""))
            if fs0[p]["t"] != "none": fs0[d]["t"] = "dir"
            d = os.path.dirname(d)
    case["nodes_spec"] = {n: dict(kind=v["kind"], path=v["path"], filt=v["filt"], inner=v.get("inner", ""), rootnode=v.get("rootnode", ""), ts=bool(v.get("ts")), mut=bool(v.get("mut")), msa=list(v.get("msa", []))) for n, v in case["nodes"].items()}
    case.setdefault("paths", {})
    return case
