#!/bin/bash
# Build /repo's current working tree (out of tree) with the verification hooks
# enabled, and the harness programs against it.   usage: build.sh [variant]
#   variant: hooks (default) | asan | tsan
set -e
V=${1:-hooks}
ROOT=$(cd "$(dirname "$0")/.." && pwd)
REPO=${VERIF_REPO:-/repo}
BR=$ROOT/.build; [ -n "$VERIF_SCRATCH" ] && BR=$VERIF_SCRATCH/build
B=$BR/$V
mkdir -p $BR
exec 9>$BR/.lock.$V
flock 9
CXX=clang++-16; CC=clang-16; EXTRA=""
case $V in
  hooks) ;;
  asan) CXX=clang++-14; CC=clang-14; EXTRA="-fsanitize=address,undefined -fno-sanitize-recover=undefined -fno-omit-frame-pointer";;
  tsan) CXX=clang++-14; CC=clang-14; EXTRA="-fsanitize=thread -fno-omit-frame-pointer";;
  *) echo "unknown variant $V"; exit 2;;
esac
if [ ! -f $B/build.ninja ]; then
  cmake -G Ninja -S $REPO -B $B -DCMAKE_BUILD_TYPE=RelWithDebInfo \
    -DCMAKE_CXX_COMPILER=$CXX -DCMAKE_C_COMPILER=$CC \
    -DCMAKE_CXX_FLAGS="-Wno-error -DLLBUILD_VERIF $EXTRA" -DCMAKE_C_FLAGS="-Wno-error $EXTRA" \
    -DCMAKE_EXE_LINKER_FLAGS="$EXTRA" -DCMAKE_SHARED_LINKER_FLAGS="$EXTRA" \
    -DBUILD_SHARED_LIBS=OFF > $B.cmake.log 2>&1 || { cat $B.cmake.log; exit 2; }
fi
cmake --build $B --target llbuild libllbuild llbuildBuildSystem llbuildNinja llbuildCommands llbuildCore llbuildBasic > $B.build.log 2>&1 || { tail -50 $B.build.log; exit 2; }
mkdir -p $B/harness
FLAGS="-std=c++14 -fno-rtti -fno-exceptions -O1 -g -DLLBUILD_VERIF $EXTRA -I$REPO/include -I$REPO/lib/llvm -I$REPO/products/libllbuild/include -include $REPO/include/libstdc++14-workaround.h"
LIBS="-L$B/lib -lllbuild -lllbuildBuildSystem -lllbuildNinja -lllbuildCommands -lllbuildCore -lllbuildBasic -lllvmSupport -lLLVMDemangle -lsqlite3 -lcurses -ldl -lpthread"
for src in $ROOT/harness/*.cpp; do
  name=$(basename $src .cpp)
  out=$B/harness/$name
  # rebuild when the source or any library is newer
  if [ ! -x $out ] || [ $src -nt $out ] || [ -n "$(find $B/lib -name '*.a' -newer $out 2>/dev/null | head -1)" ] || [ -n "$(find $ROOT/harness \( -name "*.h" -o -name "*.inc" \) -newer $out 2>/dev/null | head -1)" ]; then
    $CXX $FLAGS $src $LIBS -o $out 2> $out.log || { cat $out.log; exit 2; }
  fi
done
if [ $V = hooks ]; then
  so=$B/harness/killshim.so
  if [ ! -f $so ] || [ $ROOT/harness/killshim.c -nt $so ]; then gcc -O1 -shared -fPIC -o $so $ROOT/harness/killshim.c -ldl || exit 2; fi
fi
echo "built $V"
