#!/usr/bin/env python3
"""C08-C12, C14: the llbuild-native build system against spec/BuildSystem.tla.
 (a) TLC checks the property's invariants on BuildSystem.tla over bounded description families and histories;
 (b) seeded descriptions + histories are executed by the real BuildSystemFrontend in sandboxes (harness/bs_driver),
     and every recorded history must be a behaviour of the specification (spec/BuildSystemTrace.tla)."""
import json, os, sys, time, re
sys.path.insert(0, os.path.dirname(os.path.abspath(__file__)))
import vlib, bslib, bsgen
from vlib import log

MC = {   # property -> [(module, cfg)] per tier
    "C08": dict(quick=[("MC_BS1.tla", "MC_BS1_quick.cfg"), ("MC_BS4.tla", "MC_BS4_quick.cfg")], thorough=[("MC_BS1.tla", "MC_BS1_thorough.cfg"), ("MC_BS4.tla", "MC_BS4_thorough.cfg")]),
    "C09": dict(quick=[("MC_BS1.tla", "MC_BS1_c09.cfg")], thorough=[("MC_BS1.tla", "MC_BS1_c09_thorough.cfg")]),
    "C10": dict(quick=[("MC_BS1.tla", "MC_BS1_c10.cfg")], thorough=[("MC_BS1.tla", "MC_BS1_c10_thorough.cfg")]),
    "C11": dict(quick=[("MC_BS1.tla", "MC_BS1_c11.cfg")], thorough=[("MC_BS1.tla", "MC_BS1_c11_thorough.cfg")]),
    "C12": dict(quick=[("MC_BS2.tla", "MC_BS2_quick.cfg"), ("MC_BS5.tla", "MC_BS5_quick.cfg")], thorough=[("MC_BS2.tla", "MC_BS2_thorough.cfg"), ("MC_BS5.tla", "MC_BS5_thorough.cfg")]),
    "C14": dict(quick=[("MC_BS3.tla", "MC_BS3_quick.cfg")], thorough=[("MC_BS3.tla", "MC_BS3_thorough.cfg")]),
}
NCASES = dict(quick=320, thorough=4000)
BATCH = 20

def model_check(pid, tier):
    res = []
    if os.environ.get("VERIF_SKIP_MC"): return res        # development only (tools/seedrun.sh): the model does not depend on the code
    for module, cfg in MC[pid][tier]:
        if not os.path.exists(os.path.join(vlib.SPEC, cfg)): continue
        t0 = time.time()
        rc, out = vlib.tlc(module, cfg, workers=vlib.NCPU, heap="-Xmx16g", timeout=1500 if tier == "thorough" else 900)     # (no -coverage: its cost model takes minutes to set up on the deeply nested RunRule)
        p = vlib.parse_tlc(out)
        if p["error"] and not p["violated"]: raise vlib.Infra("TLC failed on %s: %s\n%s" % (cfg, p["error"], out[-2000:]))
        log("[%s] model checking %s: %s distinct states, %s generated, depth %s, %.0fs%s%s" % (pid, cfg, p["distinct"], p["states"], p["depth"], time.time() - t0,
            (" -- invariant %s VIOLATED" % p["violated"]) if p["violated"] else "", " (stopped by the time limit: breadth-first prefix)" if rc == 124 else ""))
        res.append(dict(cfg=cfg, parse=p, out=out, timed_out=(rc == 124)))
    return res

def run_one(args):
    binary, focus, seed, wd = args
    try:
        case = bsgen.gen_case(focus, seed)
    except Exception as ex:
        return dict(seed=seed, err="generator: %r" % ex, lines=None)
    lines, evs, err = bslib.run_case(binary, case, wd, "c%d" % seed)
    return dict(seed=seed, err=err, lines=lines, nbuilds=sum(1 for s in case["steps"] if s[0] in ("build", "buildnode")),
                nran=sum(1 for e in evs if e.get("e") == "CmdStarted"), nsteps=len(case["steps"]))

def scenario_amo():
    """S19: a command with allow-modified-outputs whose INPUT changes (not generated at random: a listed finding)"""
    from bslib import node, cmd, make_desc, finish_case
    nodes = {n: node("file", n) for n in ["a", "o1"]}
    d0 = make_desc(dict(c1=cmd(ins=["a"], outs=["o1"], tag="c1", amo=True)), dict(t=["o1"]))
    fs0 = {"a": dict(t="file", c="0"), "o1": dict(t="none", c="")}
    return finish_case(dict(nodes=nodes, fs0=fs0, steps=[("frontend", d0, True, True), ("build", "t"), ("write", "a", "1"), ("build", "t")]))

def scenario_structfile():
    """S32: a directory-structure input with exclusion patterns whose path is a regular file; the file is rewritten"""
    from bslib import node, cmd, make_desc, finish_case
    nodes = {n: node("file", n) for n in ["a", "od"]}
    nd = node("dirstruct", "d", [".*"]); nd["spell"] = "type"; nodes["d/"] = nd
    d0 = make_desc(dict(cd=cmd(ins=["d/", "a"], outs=["od"], tag="cd")), dict(t=["od"]))
    fs0 = {"a": dict(t="file", c="0"), "d": dict(t="file", c="0"), "od": dict(t="none", c="")}
    return finish_case(dict(nodes=nodes, fs0=fs0, steps=[("frontend", d0, True, True), ("build", "t"), ("write", "d", "1"), ("build", "t"),
                                                         ("frontend", d0, True, True), ("touch", "d"), ("build", "t")]))

def scenario_refusal():
    """S33: the delegate refuses the command between a failing command and a consumer; the consumer runs (a listed finding)"""
    from bslib import node, cmd, make_desc, finish_case
    nodes = {n: node("file", n) for n in ["a", "m", "o1", "o2", "o3"]}
    d0 = make_desc(dict(c1=cmd(ins=["a"], outs=["o1"], tag="c1", failif="m"), c2=cmd(ins=["o1"], outs=["o2"], tag="c2"),
                        c3=cmd(ins=["o2"], outs=["o3"], tag="c3")), dict(t=["o3"]))
    fs0 = {"a": dict(t="file", c="0"), "m": dict(t="none", c=""), "o1": dict(t="none", c=""), "o2": dict(t="none", c=""), "o3": dict(t="none", c="")}
    return finish_case(dict(nodes=nodes, fs0=fs0, steps=[("frontend", d0, True, True), ("build", "t"), ("write", "a", "1"), ("write", "m", "x"),
                                                         ("skip", ["c2"]), ("build", "t"), ("rm", "m"), ("build", "t")]))

def scenario_msa():
    """S34: a command writes into a directory input; the directory node lists its output under must-scan-after-paths"""
    from bslib import node, cmd, make_desc, finish_case
    nodes = {n: node("file", n) for n in ["a", "d/gen", "od"]}
    nd = node("dir", "d", msa=["d/gen"]); nd["spell"] = "slash"; nodes["d/"] = nd
    d0 = make_desc(dict(cw=cmd(ins=["a"], outs=["d/gen"], tag="cw"), cd=cmd(ins=["d/"], outs=["od"], tag="cd")), dict(t=["od"]), order=["cd", "cw"])
    fs0 = {"a": dict(t="file", c="0"), "d/f1": dict(t="file", c="0"), "d/gen": dict(t="none", c=""), "od": dict(t="none", c="")}
    return finish_case(dict(nodes=nodes, fs0=fs0, steps=[("frontend", d0, True, True), ("build", "t"), ("build", "t"), ("write", "a", "1"), ("build", "t"),
                                                         ("frontend", d0, True, False), ("rm", "d/gen"), ("build", "t")]))

def scenario_amo_retry():
    """S35: an allow-modified-outputs command fails after writing its outputs; the next build of the SAME frontend must re-attempt it"""
    from bslib import node, cmd, make_desc, finish_case
    nodes = {n: node("file", n) for n in ["a", "m", "o1"]}
    d0 = make_desc(dict(c1=cmd(ins=["a"], outs=["o1"], tag="c1", amo=True, failif="m", failpt="after")), dict(t=["o1"]))
    fs0 = {"a": dict(t="file", c="0"), "m": dict(t="none", c=""), "o1": dict(t="none", c="")}
    return finish_case(dict(nodes=nodes, fs0=fs0, steps=[("frontend", d0, True, True), ("build", "t"), ("rm", "o1"), ("write", "m", "x"), ("build", "t"),
                                                         ("rm", "m"), ("build", "t"), ("build", "t")]))

SCENARIOS = {"C10": [("amo-failure-retried", scenario_amo_retry, "C10 allow-modified-outputs command not re-attempted after a failure"),
                     ("refused-command-hides-failure", scenario_refusal, "C10 delegate-refused command between a failed command and its consumer", "BuildSystemTraceStrict.cfg", "TRefusalHidesNoFailure")],
             "C12": [("structure-of-a-file", scenario_structfile, "C12 filtered structure signature of a non-directory"),
                     ("must-scan-after", scenario_msa, "C12 must-scan-after-paths from the build file")], "C08": [("amo-input-change", scenario_amo, "C08 allow-modified-outputs: input change not rebuilt", "BuildSystemTraceStrict.cfg", "TOutputsCleanStrict")]}

def run_scenarios(pid, binary, wd):
    out = []
    for sc in SCENARIOS.get(pid, []):
        name, mk, fp = sc[:3]; cfg = sc[3] if len(sc) > 3 else "BuildSystemTrace.cfg"; inv = sc[4] if len(sc) > 4 else "TOutputsClean"
        case = mk()
        lines, evs, err = bslib.run_case(binary, case, wd, "scn_" + name)
        if err: out.append(dict(replay=vlib.save_replay(pid, "scenario-" + name, dict(property=pid, kind="scenario", name=name, error=err)), what="scenario %s: %s" % (name, err), fingerprint="driver:" + name)); continue
        acc, rej, st, evn = vlib.validate_executions([lines], wd, "scn_" + name, module="BuildSystemTrace.tla", cfg=cfg)
        for rj in rej:
            this = fp if rj.get("violated") == inv else "%s:%s" % (name, rj["reason"])
            path = vlib.save_replay(pid, "scenario-" + name, dict(property=pid, kind="scenario", name=name, rejected_at=rj["at"], reason=rj["reason"], event=json.loads(rj["event"]), trace=rj["lines"]))
            out.append(dict(replay=path, what="scenario %s: %s at line %d" % (name, rj["reason"], rj["at"]), fingerprint=this))
        log("[%s] scenario %s: %s" % (pid, name, "accepted" if not rej else "rejected (%s)" % rej[0]["reason"]))
    return out

def run(pid, tier, seed):
    b = vlib.build("hooks")
    binary = b + "/harness/bs_driver"
    wd = vlib.scratch("%s_%s" % (pid, tier))
    violations = []
    mc = model_check(pid, tier)
    for m in mc:
        if m["parse"]["violated"]:
            path = vlib.save_replay(pid, "tlc-%s" % m["cfg"].replace(".cfg", ""), dict(property=pid, kind="tlc", cfg=m["cfg"], invariant=m["parse"]["violated"], output=m["out"][-20000:]))
            violations.append(dict(replay=path, what="TLC: invariant %s violated on the specification (%s)" % (m["parse"]["violated"], m["cfg"]), fingerprint="spec:" + m["parse"]["violated"]))
    fncov = {}
    if pid == "C14":       # the path predicate itself, exhaustively at function level
        import checks_fn, checks_fnprops
        cases, bad, p = checks_fn.prefix_cases(tier, b + "/harness/fn_driver")
        log("[C14] pathIsPrefixedByPath: %d (path, root) pairs enumerated by TLC from spec/fn/PathPrefix.tla, %d mismatches" % (len(cases), len(bad)))
        violations += checks_fnprops.pack(pid, seed, bad)
        fncov = dict(prefix_pairs=len(cases), prefix_must=sum(1 for c in cases if c["must"]), prefix_states=p["distinct"])
    violations += run_scenarios(pid, binary, wd)
    n = NCASES[tier]
    seeds = [seed * 1000003 + i for i in range(n)]
    t0 = time.time()
    results = vlib.parallel(run_one, [(binary, pid, s, wd) for s in seeds])
    log("[%s] %d histories executed by the real build system in %.0fs" % (pid, n, time.time() - t0))
    execs = []; meta = []
    for r in results:
        if r["err"] or r["lines"] is None:
            path = vlib.save_replay(pid, "driver-%d" % r["seed"], dict(property=pid, kind="driver", focus=pid, seed=r["seed"], error=r["err"]))
            violations.append(dict(replay=path, what="driver failure on case %d: %s" % (r["seed"], r["err"]), fingerprint="driver:" + str(r["err"])[:40]))
            continue
        execs.append(r["lines"]); meta.append(r)
    # thorough tier: the first histories once more on the AddressSanitizer/UBSan build of the driver - a memory error in a
    # code path the history reaches is a violation whatever the trace looks like (how S34 shows without luck)
    nasan = 0
    if tier == "thorough" and not os.environ.get("VERIF_SKIP_ASAN"):
        ab = vlib.build("asan") + "/harness/bs_driver"
        awd = vlib.scratch("%s_%s_asan" % (pid, tier)); logp = os.path.join(awd, "asan")
        os.environ["ASAN_OPTIONS"] = "detect_leaks=0:abort_on_error=0:log_path=" + logp
        os.environ["UBSAN_OPTIONS"] = "print_stacktrace=1:log_path=" + logp
        t0 = time.time()
        ares = vlib.parallel(run_one, [(ab, pid, sd, awd) for sd in seeds[:400]])
        os.environ.pop("ASAN_OPTIONS", None); os.environ.pop("UBSAN_OPTIONS", None)
        nasan = len(ares)
        reports = sorted(f for f in os.listdir(awd) if f.startswith("asan."))
        for f in reports[:3]:
            txt = open(os.path.join(awd, f), errors="replace").read()
            head = next((l for l in txt.split("\n") if "ERROR" in l or "runtime error" in l), txt[:200])
            path = vlib.save_replay(pid, "asan-" + f, dict(property=pid, kind="asan", report=txt[:20000]))
            violations.append(dict(replay=path, what="sanitizer report while executing a generated history: %s" % head[:300], fingerprint="asan:" + re.sub(r"0x[0-9a-f]+|==\d+==", "", head)[:80]))
        log("[%s] %d histories repeated on the ASan+UBSan build in %.0fs: %d sanitizer reports" % (pid, nasan, time.time() - t0, len(reports)))
    # validate in parallel batches
    batches = [(execs[i:i + BATCH], meta[i:i + BATCH], i // BATCH) for i in range(0, len(execs), BATCH)]
    def val(bt):
        ex, mt, idx = bt
        acc, rej, states, events = vlib.validate_executions(ex, wd, "b%d" % idx, module="BuildSystemTrace.tla", cfg="BuildSystemTrace.cfg", max_rejects=4)
        return acc, rej, states, events
    t0 = time.time()
    vres = vlib.parallel(val, batches)
    accepted = sum(v[0] for v in vres); events = sum(v[3] for v in vres); states = sum(v[2] for v in vres)
    nrej = 0
    for v in vres:
        for rj in v[1]:
            nrej += 1
            first = json.loads(rj["lines"][0]); ev = json.loads(rj["event"])
            # identify the case by its Reset line
            sd = next((m["seed"] for m in meta if m["lines"] is rj["lines"] or m["lines"] == rj["lines"]), None)
            fp = "%s:%s" % (ev.get("e"), rj["reason"])
            path = vlib.save_replay(pid, "trace-%s" % sd, dict(property=pid, kind="trace", focus=pid, seed=sd, rejected_at=rj["at"], reason=rj["reason"], event=ev, trace=rj["lines"]))
            violations.append(dict(replay=path, what="history %s (focus %s): line %d (%s) is not a behaviour of BuildSystem.tla: %s" % (sd, pid, rj["at"], ev.get("e"), rj["reason"]), fingerprint=fp))
    log("[%s] traces: %d histories, %d accepted, %d events, %d rejections (%.0fs)" % (pid, len(execs), accepted, events, nrej, time.time() - t0))
    nontriv = sum(1 for m in meta if m["nran"] > 0 and m["nbuilds"] >= 3)
    def tot(f, agg=sum):
        xs = [m["parse"][f] for m in mc if m["parse"].get(f) is not None]
        return agg(xs) if xs else None
    cov = dict(states=tot("distinct"), transitions=tot("states"), depth=tot("depth", max), exhaustive=not any(m.get("timed_out") for m in mc),
               mc_per_config={m["cfg"]: dict(distinct=m["parse"]["distinct"], generated=m["parse"]["states"], depth=m["parse"]["depth"]) for m in mc},
               traces_validated_against_impl=accepted, evaluations=events, histories=len(execs),
               builds=sum(m["nbuilds"] for m in meta), commands_executed=sum(m["nran"] for m in meta), distinct_nontrivial=nontriv,
               sanitized_histories=nasan,
               rule="non-trivial = histories with at least three builds in which at least one command executed; every line of an accepted history (build key, every needs-to-run callback with its reason, every command start/finish with status, build result, file-system changes, every database row with epochs/value kind/dependencies/signature) matched the outcome BuildSystem.tla computes",
               mc_configs=[m["cfg"] for m in mc], actions=vlib.coverage_actions(mc[0]["out"]) if mc else {},
               samples=[meta[0]["lines"][:12]] if meta else [], **fncov)
    return dict(level="model_checking", coverage=cov, violations=violations,
                assumptions=["command bodies are the generated deterministic shell scripts (content = tag + inputs + discovered reads)",
                             "canonical (depth-first) schedule in the specification; schedule independence is C06",
                             "file times are set by a logical clock; directory times written by the kernel are adopted from the observation",
                             "hash-valued signatures are modelled by the tuple that is hashed; collisions between different tuples are checked on the recorded signatures only"])

def replay(pid, path):
    obj = json.load(open(path))
    if obj.get("kind") == "scenario":
        b = vlib.build("hooks"); wd = vlib.scratch("replay_bs")
        v = run_scenarios(pid, b + "/harness/bs_driver", wd)
        v = [x for x in v if obj["name"] in x["replay"]]
        for x in v: print(x["what"]); print("VIOLATION property=%s replay=%s" % (pid, path))
        return 1 if v else 0
    if obj.get("kind") == "trace" or obj.get("kind") == "driver":
        b = vlib.build("hooks"); wd = vlib.scratch("replay_bs")
        case = bsgen.gen_case(obj["focus"], obj["seed"])
        lines, evs, err = bslib.run_case(b + "/harness/bs_driver", case, wd, "r")
        if err: print("driver:", err); print("VIOLATION property=%s replay=%s" % (pid, path)); return 1
        acc, rej, st, evn = vlib.validate_executions([lines], wd, "r", module="BuildSystemTrace.tla", cfg="BuildSystemTrace.cfg")
        if rej:
            print("rejected at line %d: %s\n  %s" % (rej[0]["at"], rej[0]["reason"], rej[0]["event"][:2000]))
            print("VIOLATION property=%s replay=%s" % (pid, path)); return 1
        print("accepted (%d events)" % evn); return 0
    print(json.dumps(obj, indent=1)[:6000]); print("VIOLATION property=%s replay=%s" % (pid, path)); return 1
