#!/usr/bin/env python3
"""C04: kill the process before every database-touching system call of every build of a history
(LD_PRELOAD harness/killshim.so), reopen the file in a new process, and validate
   <events before the kill> Crash <Snapshot of the recovered file> <further mutations and builds>
against Engine.tla, whose Crash / CrashAfterCommit actions say which recovered images are legal."""
import json, os, random, shutil, sqlite3, subprocess, sys, time, copy
sys.path.insert(0, os.path.dirname(os.path.abspath(__file__)))
import vlib, enginegen, engine_check, checks_engine
from vlib import log

def gen_history(rng, cid, wd):
    prog = enginegen.gen_program(rng, allow=("follow", "single", "dyn", "disc", "force", "out"))
    ext = {l: rng.randrange(2) for l in enginegen.LEAVES}; ext.update({k: 0 for k in enginegen.DERIVED})
    steps = []
    for _ in range(rng.randint(3, 5)):
        if rng.random() < 0.35 and steps: steps.append(("mutate", rng.choice(enginegen.LEAVES)))
        else: steps.append(("build", rng.choice(enginegen.DERIVED)))
    if not any(s[0] == "build" for s in steps): steps.append(("build", "h"))
    return prog, ext, steps

def case_text(cid, prog, ext, steps, db):
    cb = enginegen.CaseBuilder(cid, copy.deepcopy(prog), dict(ext)); cb.engine(db=db)
    for s in steps:
        if s[0] == "mutate": cb.mutate(s[1], 1 - cb.ext[s[1]])
        else: cb.build(s[1], mode="sync")
    cb.end(); return cb

def ext_after(prog, ext0, lines):
    """external state after the recorded prefix: Mutate events and the output cells written by completed tasks"""
    ext = dict(ext0)
    for ln in lines:
        if ln.startswith('{"e":"Mutate"'): d = json.loads(ln); ext[d["k"]] = d["v"]
        elif ln.startswith('{"e":"Complete"'):
            d = json.loads(ln)
            if prog[d["k"]].get("out"): ext[d["k"]] = d["v"]
    return ext

def run(pid, tier, seed):
    b = vlib.build("hooks")
    binary = b + "/harness/engine_driver"; shim = b + "/harness/killshim.so"
    wd = vlib.scratch("C04_%s" % tier)
    violations = []
    cfg, module = ("MC_C04_%s.cfg" % tier, "MC_core.tla")
    mc = engine_check.model_check(cfg, module, timeout=900 if tier == "quick" else 1500)
    if mc["violated"]:
        p = os.path.join(vlib.REPLAY, pid); os.makedirs(p, exist_ok=True); p += "/tlc-counterexample-%s.txt" % tier
        open(p, "w").write(mc["out"][-200000:]); violations.append(dict(replay=p, what="TLC: invariant %s violated (%s)" % (mc["violated"], cfg), fingerprint=None))
    log("[C04] model checking %s: %s distinct states, %.0fs" % (cfg, mc["distinct"], mc["wall"]))
    rng = random.Random(seed * 65537 + 4)
    ncases = 10 if tier == "quick" else 120
    maxpts = 45 if tier == "quick" else 100000
    jobs = []           # (cid, prog, ext, steps, killpoint)
    total_points = 0
    for ci in range(ncases):
        cid = "k%d_%d" % (seed, ci)
        prog, ext, steps = gen_history(rng, cid, wd)
        d = os.path.join(wd, cid + "_dry"); os.makedirs(d)
        cb = case_text(cid, prog, ext, steps, d + "/build.db")
        open(d + "/c.cases", "w").write(cb.text())
        env = {"LD_PRELOAD": shim, "VERIF_KILL_MATCH": "build.db", "VERIF_UNBUF": "1"}
        rc, err = engine_check.run_driver(binary, d + "/c.cases", d + "/t.trace", env=env)
        if rc != 0: raise vlib.Infra("dry run failed rc=%s %s" % (rc, err))
        lines = engine_check.read_trace(d + "/t.trace")
        pts = []; start = None
        for ln in lines:
            if ln.startswith('{"e":"Build"'): start = json.loads(ln)["sc"]
            elif ln.startswith('{"e":"Return"') and start is not None:
                end = json.loads(ln)["sc"]; pts += list(range(start + 1, end + 1)); start = None
        # buildComplete (the commit) runs after the Return value is computed but its syscalls are counted before
        # the Return line is written; include a few calls beyond for safety
        total_points += len(pts)
        if len(pts) > maxpts: pts = sorted(rng.sample(pts, maxpts))
        for k in pts: jobs.append((cid, prog, ext, steps, k))
        shutil.rmtree(d)
    log("[C04] %d histories, %d kill points in builds, %d selected" % (ncases, total_points, len(jobs)))
    def one(job):
        cid, prog, ext, steps, k = job
        d = os.path.join(wd, "%s_k%d" % (cid, k)); os.makedirs(d)
        db = d + "/build.db"
        cb = case_text("%s_k%d" % (cid, k), prog, ext, steps, db)
        open(d + "/c.cases", "w").write(cb.text())
        env = {"LD_PRELOAD": shim, "VERIF_KILL_MATCH": "build.db", "VERIF_UNBUF": "1", "VERIF_KILL_AT": str(k)}
        rc, err = engine_check.run_driver(binary, d + "/c.cases", d + "/t.trace", env=env)
        prefix = engine_check.read_trace(d + "/t.trace")
        if rc == 0:
            shutil.rmtree(d); return None          # kill point not reached (cannot happen for selected points)
        # drop a torn last line
        if prefix and not prefix[-1].endswith("}"): prefix = prefix[:-1]
        info = dict(cid=cb.cid, k=k, rc=rc, integrity=None)
        # 1. the file must be usable
        try:
            con = sqlite3.connect(db); info["integrity"] = con.execute("PRAGMA integrity_check").fetchone()[0]; con.close()
        except Exception as e:
            info["integrity"] = "error: %s" % e
        # 2. recovery process: snapshot, then continue the history
        cur_ext = ext_after(prog, ext, prefix)
        rb = enginegen.CaseBuilder(cb.cid + "_rec", copy.deepcopy(prog), cur_ext)
        rb.lines = ["case %s_rec" % cb.cid] + [enginegen.rule_line(x, prog[x]) for x in enginegen.KEYS] + ["ext %s %d" % kv for kv in cur_ext.items()]
        rb.raw('raw {"e":"Crash","killAt":%d}' % k)
        rb.raw("snapshot %s 1" % db)
        rb.engine(db=db)
        tgt = [s[1] for s in steps if s[0] == "build"][-1]
        rr = random.Random(k * 31 + len(prefix))
        rb.build(tgt, mode="sync", verify=1)
        l = rr.choice(enginegen.LEAVES); rb.mutate(l, 1 - cur_ext[l])
        rb.build(rr.choice(enginegen.DERIVED), mode="sync", verify=1)
        rb.end()
        open(d + "/r.cases", "w").write(rb.text())
        rc2, err2 = engine_check.run_driver(binary, d + "/r.cases", d + "/r.trace")
        rec = engine_check.read_trace(d + "/r.trace")
        info["lines"] = prefix + rec; info["rc2"] = rc2
        info["uncommitted"] = any(x.startswith('{"e":"DbSet"') for x in prefix[max(i for i, x in enumerate(prefix) if x.startswith('{"e":"Build"')):]) if any(x.startswith('{"e":"Build"') for x in prefix) else False
        info["case"] = cb.text(); info["recovery_case"] = rb.text()
        shutil.rmtree(d)
        return info
    infos = [i for i in vlib.parallel(one, jobs) if i]
    bad_integrity = [i for i in infos if i["integrity"] != "ok"]
    for i in bad_integrity[:5]:
        p = vlib.save_replay(pid, "integrity-%s" % i["cid"], dict(property=pid, kind="kill", killAt=i["k"], integrity=i["integrity"], case=i["case"]))
        violations.append(dict(replay=p, what="database unusable after kill before db syscall %d: %s" % (i["k"], i["integrity"]), fingerprint=None))
    execs = [i["lines"] for i in infos]
    chunks = [list(range(j, min(j + 50, len(execs)))) for j in range(0, len(execs), 50)]
    acc = 0; states = 0; events = 0
    def val(ic):
        ci, idxs = ic
        return idxs, vlib.validate_executions([execs[j] for j in idxs], wd, "kill%d" % ci)
    for idxs, (a, rej, st, evs) in vlib.parallel(val, list(enumerate(chunks))):
        acc += a; states += st; events += evs
        for r in rej:
            # find which info it belongs to
            cid = None
            try: cid = json.loads(r["lines"][0]).get("id")
            except Exception: pass
            inf = next((i for i in infos if i["cid"] == cid), None)
            p = vlib.save_replay(pid, "kill-%s" % cid, dict(property=pid, kind="kill", killAt=inf["k"] if inf else None, reason=r["reason"], at=r["at"], event=r["event"],
                                                            case=inf["case"] if inf else None, recovery_case=inf["recovery_case"] if inf else None, trace=r["lines"][:r["at"] + 3]))
            violations.append(dict(replay=p, what="after kill before db syscall %s: %s at line %d: %s" % (inf["k"] if inf else "?", r["reason"], r["at"], r["event"][:160]), fingerprint=None))
    nontriv = len({(i["cid"]) for i in infos if i["uncommitted"]})
    log("[C04] %d kill runs, %d recovered traces accepted, %d integrity failures, %d rejections" % (len(infos), acc, len(bad_integrity), len(violations)))
    cov = dict(evaluations=len(infos), distinct_nontrivial=nontriv,
               rule="one evaluation = one (history, kill point) pair: the driver process is SIGKILLed before the N-th write/pwrite/fsync/fdatasync/ftruncate/unlink/open/rename on the database or its journal, for N ranging over the calls made inside build(); distinct non-trivial = distinct pairs in which at least one setRuleResult of the interrupted build preceded the kill (uncommitted data existed)",
               samples=[dict(killAt=i["k"], case=i["cid"], trace_tail=i["lines"][-12:]) for i in infos[:2]],
               kill_points_total=total_points, kill_points_run=len(infos), recovered_traces_accepted=acc, integrity_ok=len(infos) - len(bad_integrity),
               states=mc["distinct"] or 0, transitions=mc["states"] or 0, tlc_config=cfg, trace_states=states, events=events,
               exhaustive=(len(infos) == total_points))
    return dict(level="fault_enumeration", coverage=cov, violations=violations,
                assumptions=["a process kill (SIGKILL) is the fault: the kernel still completes writes already issued; power loss / lost fsync is not modelled",
                             "syscall interception covers the libc entry points sqlite3 imports (write, pwrite64, fdatasync, fsync, ftruncate64, unlink, open64, openat, rename)",
                             "histories run in synchronous completion mode so that the same kill point number reaches the same engine state in every re-run"])

def replay(pid, path):
    obj = json.load(open(path)); print(json.dumps({k: obj[k] for k in obj if k not in ("trace", "case", "recovery_case")}, indent=1))
    print("\n".join(obj.get("trace", [])[-15:]))
    print("VIOLATION property=%s replay=%s" % (pid, path)); return 1
