#!/usr/bin/env python3
"""C16: every job runs exactly once within the lane limit; every process accounted for.

(a) TLC model checking of spec/ExecQueue.tla on the scenarios of spec/MC_C16.tla (safety configuration with all
    invariants + deadlock freedom, and a liveness configuration: destructor termination, cancelled children reaped),
(b) seeded scenarios executed by harness/queue_driver against the real lane-based / serial queue and the subprocess
    layer, every recorded ndjson trace validated against ExecQueue.tla through spec/ExecQueueTrace.tla,
(c) direct checks on the traces: a hang (driver watchdog / timeout), a crash, a callback for an unknown process,
    a job body that did not run exactly once."""
import hashlib, json, os, random, re, subprocess, sys, time
sys.path.insert(0, os.path.dirname(os.path.abspath(__file__)))
import vlib
from vlib import log

MODULE, CFG = "ExecQueueTrace.tla", "ExecQueueTrace.cfg"
MC = {"quick": [("MC_C16_quick.cfg", 900), ("MC_C16_live_quick.cfg", 900)],
      "thorough": [("MC_C16_thorough.cfg", 2100), ("MC_C16_live_thorough.cfg", 2100)]}
# configurations in which the specification is deliberately broken: TLC must find the stated violation (else the
# properties have lost their teeth and the run is an infrastructure failure, not a verdict)
VACUITY = [("MC_C16_vac_notify.cfg", "Deadlock"), ("MC_C16_vac_drain.cfg", "ExactlyOnce"), ("MC_C16_vac_bgwait.cfg", "CompletionOnce")]
N_SCEN = {"quick": 1500, "thorough": 16000}
BATCH = 25

# ----------------------------------------------------------------------------- scenario model
class Scn:
    def __init__(self, sid, family, lanes=2, alg="fifo", bgmax=0, serial=False, bigenv=0):
        self.id, self.family, self.lanes, self.alg, self.bgmax, self.serial, self.bigenv = sid, family, lanes, alg, bgmax, serial, bigenv
        self.jobs = {}      # id -> dict(prio, ord, steps=[(op, arg)])
        self.procs = {}     # id -> dict(script, size, fate, canint, ignint, release, mustrel, missing, badctl, ctl, inherit, via, env, cmd, slowfin)
        self.main, self.aux = [], []
        self.watchdog = 40
    def job(self, jid, prio="N", steps=()):
        self.jobs[jid] = dict(prio=prio, ord=len(self.jobs) + 1, steps=list(steps)); return jid
    def proc(self, hid, script, size, fate, canint=True, ignint=False, release=False, mustrel=False, missing=False, badctl=False,
             ctl=True, inherit=True, via="own", env=(), cmd="", slowfin=0, untilcancel=False):
        self.procs[hid] = dict(script=script, size=size, fate=fate, canint=canint, ignint=ignint, release=release, mustrel=mustrel, untilcancel=untilcancel,
                               missing=missing, badctl=badctl, ctl=ctl, inherit=inherit, via=via, env=list(env), cmd=cmd, slowfin=slowfin)
        return hid
    def name(self, jid): return "n%02d" % self.jobs[jid]["ord"]
    def shuffle_ords(self, rng):
        o = list(range(1, len(self.jobs) + 1)); rng.shuffle(o)
        for j, k in zip(self.jobs, o): self.jobs[j]["ord"] = k
    def cfg(self):
        vis = lambda steps: [dict(op=o, x=a if o != "cancel" else "") for (o, a) in steps if o in ("add", "spawn", "cancel")]
        return dict(lanes=1 if self.serial else self.lanes, alg="fifo" if self.serial else self.alg, bgmax=self.bgmax, serial=self.serial,
                    client=[], auxcancel=False,
                    jobs={j: dict(prio=d["prio"], ord=d["ord"], steps=vis(d["steps"])) for j, d in self.jobs.items()},
                    procs={h: {k: p[k] for k in ("size", "fate", "canint", "ignint", "release", "mustrel", "missing", "badctl", "untilcancel")} for h, p in self.procs.items()})
    def text(self):
        st = lambda steps: ",".join(o if a in ("", None) else "%s:%s" % (o, a) for (o, a) in steps)
        out = ["scenario %s lanes=%d alg=%s bgmax=%d serial=%d bigenv=%d watchdog=%d" % (self.id, self.lanes, self.alg, self.bgmax, int(self.serial), self.bigenv, self.watchdog),
               "reset " + json.dumps(dict(e="Reset", id=self.id, family=self.family, cfg=self.cfg()), separators=(",", ":"))]
        for j, d in self.jobs.items():
            out.append("job %s prio=%s name=%s steps=%s" % (j, d["prio"], self.name(j), st(d["steps"])))
        for h, p in self.procs.items():
            out.append("proc %s script=%s canint=%d ctl=%d inherit=%d missing=%d via=%s env=%s cmd=%s slowfin=%d" % (
                h, p["script"] or "exit:0", p["canint"], p["ctl"], p["inherit"], p["missing"], p["via"],
                ";".join("%s=%s" % kv for kv in p["env"]), p["cmd"].encode().hex(), p["slowfin"]))
        out.append("client main steps=" + st(self.main))
        if self.aux: out.append("client aux steps=" + st(self.aux))
        out.append("end")
        return "\n".join(out) + "\n"
    def signature(self):
        return hashlib.sha1(re.sub(r"scenario \S+|\"id\":\"[^\"]*\"", "", self.text()).encode()).hexdigest()

SIZES = [0, 1, 63, 4095, 4096, 4097, 12000, 65535, 65536, 65537, 70000, 131072, 200000]
EXITS = [0, 0, 1, 3, 127, 255]
SIGS = [15, 10, 14, 6, 2, 9, 1]

def env_line_len(k, v): return len(k) + 1 + len(v) + 1

def rand_child(rng, s, hid, allow_release=False, kind=None):
    """a terminating child with a random behaviour; returns the process id"""
    kind = kind or rng.choice(["out", "out", "big", "exit", "sig", "closeout", "closectl", "grandchild", "env", "missing", "shell", "wrap", "queue", "mix", "badctl", "badid", "relout"])
    canint = rng.random() < 0.85
    if kind == "missing":
        return s.proc(hid, "x", 0, "exit0", missing=True, canint=canint, via=rng.choice(["own", "queue", "wrap"]))
    if kind == "shell":
        code = rng.choice([0, 0, 1, 7])
        cmd = rng.choice(["exit %d", "true; exit %d", "(exit %d)"]) % code
        return s.proc(hid, "", 0, "exit%d" % code, via="shell", cmd=cmd)
    if kind == "relout":
        post, size = post_release_output(rng)
        code = rng.choice([0, 0, 5])
        return s.proc(hid, ";".join(["release"] + post + ["exit:%d" % code]), size, "exit%d" % code, release=True, canint=canint, ctl=True, via="own")
    acts = []; size = 0
    def out(n, stream=None):
        nonlocal size
        acts.append("%s:%d" % (stream or rng.choice(["out", "out", "err"]), n)); size += n
    badctl = False
    if kind == "out": out(rng.choice(SIZES[:9]))
    elif kind == "big":
        for _ in range(rng.randint(1, 3)): out(rng.choice(SIZES[7:]))
        if rng.random() < 0.3: acts.insert(rng.randrange(len(acts) + 1), "sleep:%d" % rng.randint(1, 8))
    elif kind == "closeout":
        out(rng.choice(SIZES[:6])); acts += ["closeout", "sleep:%d" % rng.randint(1, 15)]
    elif kind == "closectl":
        acts.append("closectl"); out(rng.choice(SIZES[:8])); acts.append("sleep:%d" % rng.randint(0, 5))
    elif kind == "grandchild":
        out(rng.choice(SIZES[:5])); n = rng.choice([1, 100, 5000]); acts.append("grandchild:%d:%d" % (rng.randint(5, 40), n)); size += n
    elif kind == "mix":
        for _ in range(rng.randint(2, 5)):
            if rng.random() < 0.6: out(rng.choice(SIZES[:8]))
            else: acts.append("sleep:%d" % rng.randint(0, 4))
    elif kind == "badctl":
        acts.append("badctl"); out(rng.choice(SIZES[:4])); badctl = True
    elif kind == "badid":
        acts.append("badid"); out(rng.choice(SIZES[:4])); acts.append("sleep:%d" % rng.randint(1, 10))
    elif kind in ("exit", "sig", "wrap", "queue"):
        if rng.random() < 0.5: out(rng.choice(SIZES[:6]))
    fate = None
    if kind == "sig" or (kind in ("out", "big", "mix") and rng.random() < 0.15):
        sg = rng.choice(SIGS); acts.append("sig:%d" % sg); fate = "sig%d" % sg
    else:
        code = rng.choice(EXITS); acts.append("exit:%d" % code); fate = "exit%d" % code
    via = kind if kind in ("wrap", "queue") else rng.choice(["own", "own", "own", "queue"])
    ctl = rng.random() < 0.8
    if kind == "wrap": ctl = True
    if badctl and not ctl: badctl = False
    if via in ("wrap",): canint = True
    return s.proc(hid, ";".join(acts), size, fate, canint=canint if via == "own" or via == "queue" else True, ctl=ctl, via=via, badctl=badctl,
                  inherit=True, slowfin=rng.choice([0, 0, 0, 300]))

def env_child(rng, s, hid):
    """environment precedence: the child prints chosen variables; the driver holds the expected text"""
    keys = ["LLBUILD_LANE_ID", "SHARED", "BASE1", "ONLYBASE", "MINE", "LLBUILD_BUILD_ID", "LLBUILD_TASK_ID", "LLBUILD_CONTROL_FD", "DUP", "NOPE", "LLBUILD_TEST"]
    rng.shuffle(keys); keys = keys[:rng.randint(3, len(keys))]
    env = []
    if rng.random() < 0.7: env.append(("SHARED", "req"))
    if rng.random() < 0.7: env.append(("MINE", "m1"))
    if rng.random() < 0.4: env.append(("LLBUILD_LANE_ID", "99"))
    if rng.random() < 0.4: env += [("DUP", "first"), ("DUP", "second")]
    if rng.random() < 0.3: env.append(("LLBUILD_TASK_ID", "mytask"))
    if rng.random() < 0.3: env.append(("BASE1", ""))
    rng.shuffle(env)
    inherit = rng.random() < 0.6; ctl = rng.random() < 0.7
    script = "env:" + "+".join(keys) + (";nenv" if rng.random() < 0.5 else "") + ";exit:0"
    # the size is computed by the driver's oracle; the specification only needs delivered = size, so the driver reports
    # `ok`/`full` and the size here is left to be filled by a dry computation below
    lane_digits = 1
    def val(k):
        if k == "LLBUILD_BUILD_ID": return "<set>"
        if k == "LLBUILD_LANE_ID": return "0" * lane_digits
        for (a, b) in env:
            if a == k: return "<set>" if k in ("LLBUILD_TASK_ID", "LLBUILD_CONTROL_FD") else b
        base = dict(BASE1="b1", SHARED="base", LLBUILD_TEST="1", ONLYBASE="ob")
        if inherit and k in base: return base[k]
        if k == "LLBUILD_TASK_ID": return "<set>"
        if k == "LLBUILD_CONTROL_FD": return "<set>" if ctl else "<unset>"
        return "<unset>"
    size = sum(env_line_len(k, val(k)) for k in keys)
    if "nenv" in script:
        ks = {"LLBUILD_BUILD_ID", "LLBUILD_LANE_ID", "LLBUILD_TASK_ID"} | {a for a, _ in env}
        if ctl: ks.add("LLBUILD_CONTROL_FD")
        if inherit: ks |= {"BASE1", "SHARED", "LLBUILD_TEST", "ONLYBASE"}
        ks_n = len(ks) + (s.bigenv if inherit else 0)
        size += len("n=%d\n" % ks_n)
    return s.proc(hid, script, size, "exit0", ctl=ctl, inherit=inherit, env=env, via="own")

# ----------------------------------------------------------------------------- scenario families
def fam_mix(rng, sid):
    """random job mixes: durations, priorities, nesting, lane counts, schedulers, cancellation anywhere, early destruction"""
    s = Scn(sid, "mix", lanes=rng.randint(1, 4), alg=rng.choice(["fifo", "name"]))
    n = rng.randint(2, 8); ids = ["j%d" % i for i in range(n)]
    parent = {}
    for i, j in enumerate(ids):
        parent[j] = None if i == 0 or rng.random() < 0.55 else rng.choice(ids[:i])
    np_ = 0
    cancel_in_job = rng.random() < 0.2
    canceller = rng.choice(ids) if cancel_in_job else None
    for j in ids:
        steps = []
        if rng.random() < 0.6: steps.append(("sleep", rng.choice([0, 50, 300, 1500, 4000])))
        kids = [k for k in ids if parent[k] == j]
        for k in kids:
            steps.append(("add", k))
            if rng.random() < 0.3: steps.append(("sleep", rng.choice([0, 100, 1000])))
        if rng.random() < 0.25 and np_ < 3:
            h = "p%d" % np_; np_ += 1
            rand_child(rng, s, h, kind=rng.choice(["out", "exit", "sig", "missing", "queue", "big"]))
            steps.insert(rng.randrange(len(steps) + 1), ("spawn", h))
        if j == canceller: steps.insert(rng.randrange(len(steps) + 1), ("cancel", ""))
        s.job(j, prio=rng.choice(["N", "N", "H"]), steps=steps)
    s.shuffle_ords(rng)
    for j in ids:
        if parent[j] is None:
            s.main.append(("add", j))
            if rng.random() < 0.3: s.main.append(("sleep", rng.choice([0, 100, 1000, 3000])))
    r = rng.random()
    if r < 0.25: s.aux = [("sleep", rng.choice([0, 100, 500, 2000, 6000])), ("cancel", "")]
    elif r < 0.4: s.main.insert(rng.randrange(len(s.main) + 1), ("cancel", ""))
    if r < 0.1: s.main.append(("cancel", ""))        # a second cancellation
    if rng.random() < 0.5: s.main.append(("sleep", rng.choice([0, 200, 2000, 8000])))
    s.main.append(("destroy", ""))
    return s

def fam_drain(rng, sid):
    """destruction while jobs are still queued behind blocked lanes (the shape of seeded change C16_1): only
    high-priority / only normal / mixed backlog, follow-up jobs added by the blockers while the destructor joins"""
    s = Scn(sid, "drain", lanes=rng.randint(1, 4), alg=rng.choice(["fifo", "name"]))
    follow = rng.random() < 0.5
    for i in range(s.lanes):
        steps = [("wait", "g")]
        if follow:
            s_f = "f%d" % i; steps.append(("add", s_f))
        s.job("b%d" % i, prio=rng.choice(["N", "H"]), steps=steps)
        if follow: s.job("f%d" % i, prio=rng.choice(["H", "H", "N"]), steps=[("sleep", rng.choice([0, 200]))])
    shape = rng.choice(["high", "high", "normal", "mixed", "none"])
    nq = 0 if shape == "none" else rng.randint(1, 5)
    for i in range(nq):
        pr = "H" if shape == "high" else "N" if shape == "normal" else rng.choice(["N", "H"])
        s.job("q%d" % i, prio=pr, steps=[("sleep", rng.choice([0, 0, 300]))])
    s.shuffle_ords(rng)
    for i in range(s.lanes): s.main.append(("add", "b%d" % i))
    s.main.append(("sleep", 3000))        # lets the blockers occupy the lanes (not required for legality)
    for i in range(nq): s.main.append(("add", "q%d" % i))
    if rng.random() < 0.35: s.main.append(("cancel", ""))
    s.main += [("destroy", ""), ("sleep", rng.choice([1000, 5000, 20000])), ("open", "g")]
    return s

def fam_procs(rng, sid):
    """child behaviours: output volume, exit codes, self-signal, descriptors closed early, grandchildren, spawn failure,
    the three launch interfaces, environment precedence"""
    s = Scn(sid, "procs", lanes=rng.randint(1, 3), alg="fifo", bigenv=rng.choice([0, 0, 50]))
    nj = rng.randint(1, 4); k = 0
    for i in range(nj):
        steps = []
        for _ in range(rng.randint(1, 3)):
            h = "p%d" % k; k += 1
            if rng.random() < 0.25: env_child(rng, s, h)
            else: rand_child(rng, s, h)
            steps.append(("spawn", h))
        # a job drives at most one process through the queue-wide delegate at a time: fine, spawns are sequential
        s.job("j%d" % i, prio=rng.choice(["N", "H"]), steps=steps)
        s.main.append(("add", "j%d" % i))
    if rng.random() < 0.3: s.main.append(("sleep", rng.choice([1000, 10000])))
    s.main.append(("destroy", ""))
    return s

def post_release_output(rng):
    """what a child writes after it has released its lane (read by the background wait, captureExecutedProcessOutput):
    nothing / one write / several chunks separated by short pauses (so that the parent sees short reads long before
    EOF) / more than the pipe buffer (100-300 kB, which blocks the child unless the parent keeps reading)"""
    shape = rng.choice(["none", "single", "chunks", "chunks", "big", "big"])
    acts = []; size = 0
    def out(n):
        nonlocal size
        acts.append("%s:%d" % (rng.choice(["out", "out", "err"]), n)); size += n
    if shape == "single":
        acts.append("sleep:%d" % rng.choice([0, 5, 30])); out(rng.choice([100, 5000, 70000]))
    elif shape == "chunks":
        for _ in range(rng.randint(2, 5)):
            out(rng.choice([1, 100, 3000, 4095, 4096, 5000, 20000])); acts.append("sleep:%d" % rng.randint(1, 8))
    elif shape == "big":
        if rng.random() < 0.5: out(rng.choice([10, 500])); acts.append("sleep:%d" % rng.randint(1, 6))
        for _ in range(rng.randint(1, 3)):
            out(rng.choice([100000, 150000, 200000, 300000]) // rng.choice([1, 1, 2]))
            if rng.random() < 0.5: acts.append("sleep:%d" % rng.randint(1, 5))
    else:
        acts.append("sleep:%d" % rng.choice([0, 5, 30, 80]))
    return acts, size

def fam_release(rng, sid):
    """lane release over LLBUILD_CONTROL_FD: enough background slots (release must happen), too few (refused ones
    keep their lane), wrong task id, destruction while released children are still running; after the release the child
    writes nothing / once / several chunks with pauses / more than the pipe buffer (seeded change C16_2)"""
    s = Scn(sid, "release", lanes=rng.randint(1, 3), alg="fifo")
    nrel = rng.randint(1, 4); enough = rng.random() < 0.6
    s.bgmax = nrel if enough else rng.randint(0, max(0, nrel - 1))
    for i in range(nrel):
        h = "r%d" % i
        post, size = post_release_output(rng)
        pre = []
        if rng.random() < 0.3:          # output before the release goes through the poll loop, the rest through the drain loop
            n0 = rng.choice([1, 200, 5000]); pre = ["out:%d" % n0]; size += n0
        code = rng.choice([0, 0, 2]); sig = rng.random() < 0.15
        end = "sig:15" if sig else "exit:%d" % code
        fate = "sig15" if sig else "exit%d" % code
        if enough:
            s.proc(h, ";".join(pre + ["release", "waitfile:%T/" + h + ".rel"] + post + [end]), size, fate, release=True, mustrel=True, slowfin=rng.choice([0, 0, 2000, 20000]))
        else:
            s.proc(h, ";".join(pre + ["release"] + post + [end]), size, fate, release=True, slowfin=rng.choice([0, 0, 2000]))
        steps = [("spawn", h)]
        if rng.random() < 0.4:
            h2 = "x%d" % i; rand_child(rng, s, h2, kind=rng.choice(["out", "exit", "badid"])); steps.append(("spawn", h2))
        if rng.random() < 0.3: steps.append(("add", "t%d" % i)); s.job("t%d" % i, prio="H", steps=[("sleep", 100)])
        s.job("j%d" % i, steps=steps)
    for i in range(nrel): s.main.append(("add", "j%d" % i))
    if rng.random() < 0.3: s.main += [("sleep", rng.choice([2000, 20000])), ("cancel", "")]
    if rng.random() < 0.4: s.main.append(("sleep", rng.choice([1000, 30000])))
    s.main.append(("destroy", ""))
    return s

def fam_cancel(rng, sid):
    """cancellation against running and about-to-start children: interruptible, SIGINT-ignoring and non-interruptible
    children that only end when signalled, spawns racing the cancellation (large base environment widens the window
    between the queue's check and the spawn), spawns after it; children that close every polled descriptor and keep
    running until after the cancellation (the queue sits in wait4() when it comes)"""
    s = Scn(sid, "cancel", lanes=rng.randint(1, 4), alg=rng.choice(["fifo", "name"]), bigenv=rng.choice([0, 0, 2000, 6000]))
    nj = rng.randint(1, 5); slow = rng.random() < 0.2      # slow: children that must be SIGKILLed after the timeout
    detached = False
    for i in range(nj):
        h = "c%d" % i
        kind = rng.choice(["hang", "hang", "sleep", "quick", "igno", "noint"] if slow else ["hang", "hang", "sleep", "quick", "quick", "detach", "detach", "detachrel", "stay"])
        if kind in ("detach", "detachrel", "stay"): detached = True
        pre = rng.choice([0, 0, 100, 5000])
        if kind == "hang": s.proc(h, "out:%d;hang" % pre, pre, "hang")
        elif kind == "sleep":
            code = rng.choice([0, 4]); s.proc(h, "out:%d;sleep:%d;exit:%d" % (pre, rng.choice([2, 10, 40]), code), pre, "exit%d" % code)
        elif kind == "quick": s.proc(h, "out:%d;exit:0" % pre, pre, "exit0", via=rng.choice(["own", "queue", "wrap"]))
        elif kind == "detach":
            # closes every descriptor the queue polls and keeps running: the queue is in wait4() when the cancellation
            # comes; the child's own end is only reachable after cancelAllJobs has returned (seeded change C16_4)
            ctl = rng.random() < 0.7; code = rng.choice([0, 0, 3])
            s.proc(h, "out:%d;closeout;%swaitfile:%%T/cancelled;exit:%d" % (pre, "closectl;" if ctl else "", code), pre, "exit%d" % code,
                   ctl=ctl, untilcancel=True, canint=rng.random() < 0.85)
        elif kind == "detachrel":
            s.bgmax = max(s.bgmax, rng.randint(0, 2))
            s.proc(h, "out:%d;release;closeout;waitfile:%%T/cancelled;exit:0" % pre, pre, "exit0", release=True, untilcancel=True)
        elif kind == "stay":
            s.proc(h, "out:%d;waitfile:%%T/cancelled;exit:0" % pre, pre, "exit0", untilcancel=True, via=rng.choice(["own", "queue"]))
        elif kind == "igno": s.proc(h, "ignint;out:%d;hang" % pre, pre, "hang", ignint=True)
        else: s.proc(h, "out:%d;hang" % pre, pre, "hang", canint=False)
        steps = [("sleep", rng.choice([0, 0, 200, 1000, 3000])), ("spawn", h)]
        if rng.random() < 0.4:
            h2 = "d%d" % i; s.proc(h2, "out:10;exit:0", 10, "exit0", via=rng.choice(["own", "wrap", "queue"])); steps.append(("spawn", h2))
        s.job("j%d" % i, prio=rng.choice(["N", "H"]), steps=steps)
        s.main.append(("add", "j%d" % i))
    s.shuffle_ords(rng)
    delay = rng.choice([3000, 8000, 20000, 40000] if detached else [0, 200, 1000, 3000, 8000, 20000])
    if rng.random() < 0.5: s.main += [("sleep", delay), ("cancel", "")]
    else:
        s.aux = [("sleep", delay), ("cancel", "")]; s.main.append(("joinaux", ""))
    if rng.random() < 0.3: s.main.append(("sleep", rng.choice([0, 2000])))
    s.main.append(("destroy", ""))
    return s

def fam_progress(rng, sid):
    """the client waits for its jobs to finish before it destroys the queue (as the build engine does): idle lanes must
    be woken by addJob alone, whether the job is added by the client or by another job"""
    s = Scn(sid, "progress", lanes=rng.randint(1, 4), alg=rng.choice(["fifo", "name"]))
    s.watchdog = 20
    n = rng.randint(1, 5); ids = ["j%d" % i for i in range(n)]
    parent = {j: (None if i == 0 or rng.random() < 0.5 else rng.choice(ids[:i])) for i, j in enumerate(ids)}
    for j in ids:
        steps = [("sleep", rng.choice([0, 0, 500, 2500]))]
        for k in ids:
            if parent[k] == j: steps += [("sleep", rng.choice([0, 1500, 3000])), ("add", k)]
        steps.append(("open", "g" + j))
        s.job(j, prio=rng.choice(["N", "H"]), steps=steps)
    s.shuffle_ords(rng)
    s.main.append(("sleep", rng.choice([1000, 3000, 6000])))        # the lanes go to sleep on the empty queue
    for j in ids:
        if parent[j] is None:
            s.main.append(("add", j))
            if rng.random() < 0.5: s.main += [("wait", "g" + j), ("sleep", rng.choice([0, 2000]))]
    for j in ids: s.main.append(("wait", "g" + j))
    s.main.append(("destroy", ""))
    return s

def fam_bound(rng, sid):
    """more timed jobs than lanes: the number of jobs in flight must never exceed the lane count"""
    s = Scn(sid, "bound", lanes=rng.randint(1, 4), alg=rng.choice(["fifo", "name"]))
    n = s.lanes + rng.randint(1, 4)
    for i in range(n):
        s.job("j%d" % i, prio=rng.choice(["N", "N", "H"]), steps=[("sleep", rng.choice([3000, 6000, 10000]))]); s.main.append(("add", "j%d" % i))
    s.shuffle_ords(rng)
    s.main.append(("destroy", ""))
    return s

def fam_serial(rng, sid):
    """the serial queue: FIFO, one job at a time, same subprocess layer; jobs that add jobs, also while the destructor
    is waiting (the shutdown marker must not cut them off)"""
    s = Scn(sid, "serial", lanes=1, alg="fifo", serial=True)
    n = rng.randint(1, 5); k = 0; ids = ["j%d" % i for i in range(n)]
    parent = {j: (None if i == 0 or rng.random() < 0.6 else rng.choice(ids[:i])) for i, j in enumerate(ids)}
    gated = rng.random() < 0.35
    for i, j in enumerate(ids):
        steps = [("sleep", rng.choice([0, 100, 1000]))]
        if gated and i == 0: steps.append(("wait", "g"))
        if rng.random() < 0.5:
            h = "p%d" % k; k += 1
            rand_child(rng, s, h, kind=rng.choice(["out", "exit", "sig", "missing", "big", "closeout", "wrap", "queue"]))
            s.procs[h]["release"] = False
            steps.append(("spawn", h))
        for c in ids:
            if parent[c] == j: steps.append(("add", c))
        if rng.random() < 0.1: steps.append(("cancel", ""))
        s.job(j, prio=rng.choice(["N", "H"]), steps=steps)
        if parent[j] is None: s.main.append(("add", j))
    if rng.random() < 0.3: s.main.insert(rng.randrange(len(s.main) + 1), ("cancel", ""))
    if rng.random() < 0.4: s.main.append(("sleep", rng.choice([500, 5000])))
    s.main.append(("destroy", ""))
    if gated: s.main += [("sleep", rng.choice([500, 3000])), ("open", "g")]
    return s

FAMILIES = [(fam_mix, 30), (fam_drain, 16), (fam_procs, 16), (fam_release, 10), (fam_cancel, 14), (fam_bound, 6), (fam_serial, 8), (fam_progress, 10)]

def gen_scenarios(seed, n, only=None):
    rng = random.Random(seed * 1000003 + 16)
    fams = [f for f, w in FAMILIES for _ in range(w) if only is None or f.__name__[4:] in only]
    return [rng.choice(fams)(rng, "s%d_%d" % (seed, i)) for i in range(n)]

# ----------------------------------------------------------------------------- running the driver
def run_driver(binary, text, wd, tag, timeout=600, env=None):
    """runs the scenarios of `text` (restarting the driver after a hang/crash); returns (trace lines, problems)"""
    blocks = []; cur = []
    for ln in text.split("\n"):
        if not ln: continue
        cur.append(ln)
        if ln == "end": blocks.append("\n".join(cur) + "\n"); cur = []
    lines, problems = [], []
    e = dict(os.environ); e["VERIF_QTMP"] = wd; e.update(env or {})
    i = 0; rnd = 0
    while i < len(blocks):
        sf = os.path.join(wd, "%s.%d.scn" % (tag, rnd)); tf = os.path.join(wd, "%s.%d.ndjson" % (tag, rnd)); rnd += 1
        open(sf, "w").write("".join(blocks[i:]))
        try:
            r = subprocess.run([binary, sf, tf], env=e, capture_output=True, text=True, timeout=timeout)
            rc, err = r.returncode, r.stderr[-3000:]
        except subprocess.TimeoutExpired:
            rc, err = 124, "driver timeout"
        got = [ln for ln in open(tf, "rb").read().decode("utf-8", "replace").split("\n") if ln] if os.path.exists(tf) else []
        nres = sum(1 for ln in got if ln.startswith('{"e":"Reset"'))
        nend = sum(1 for ln in got if ln.startswith('{"e":"End"'))
        lines += got
        for f in (sf, tf):
            if os.path.exists(f): os.unlink(f)
        if rc == 0 and nend == len(blocks) - i: break
        # the driver stopped inside scenario i + nres - 1 (hang watchdog = exit 3, crash, sanitizer report, timeout)
        bad = i + max(nres, 1) - 1
        kind = "hang" if rc in (3, 124) else "crash"
        m = re.search(r"ERROR: (\w+Sanitizer: [\w-]+)|WARNING: (ThreadSanitizer: [\w -]+)", err)
        if m: kind = (m.group(1) or m.group(2)).strip()
        problems.append(dict(index=bad, kind=kind, rc=rc, err=err[-1500:]))
        if len(problems) >= 3: break          # enough evidence from this batch; keeps a broken tree from costing hours
        if rc not in (3, 124) and nend == len(blocks) - i: break      # e.g. a sanitizer report at exit
        i = bad + 1
    return lines, problems

def direct_checks(ex):
    """violations that fall out of a single execution without the specification"""
    res = []; body = {}
    jobs = None
    for ln in ex:
        try: d = json.loads(ln)
        except Exception: res.append("unparsable trace line"); continue
        e = d.get("e")
        if e == "Reset": jobs = list(d["cfg"]["jobs"].keys())
        elif e == "Body": body[d["j"]] = body.get(d["j"], 0) + 1
        elif e in ("Hang", "Abort"): res.append("driver reported %s" % e)
        elif e == "Stray": res.append("callback for no known process: %s" % d.get("what"))
        elif e == "End":
            if d["launched"] != d["completed"]: res.append("%d process launches but %d completions" % (d["launched"], d["completed"]))
            for j in jobs or []:
                if body.get(j, 0) != 1: res.append("job %s executed %d times" % (j, body.get(j, 0)))
    return res

def nontrivial(ex):
    """an execution exercises the concurrency: jobs overlapped, or a job waited in a ready list while all lanes were
    busy, or a cancellation / destruction happened with work outstanding"""
    inflight = 0; peak = 0; pending = 0; interesting = False
    for ln in ex:
        if '"e":"JStart"' in ln: inflight += 1; peak = max(peak, inflight); pending -= 1
        elif '"e":"JFin"' in ln: inflight -= 1
        elif '"e":"AddEnd"' in ln: pending += 1
        elif ('"e":"DtorStart"' in ln or '"e":"CancelStart"' in ln) and (inflight > 0 or pending > 0): interesting = True
    return peak > 1 or interesting

def fp(kind, detail):
    return "c16:" + kind + ":" + re.sub(r"[^a-zA-Z]+", "-", detail)[:60]

def classify(rej):
    """stable class of a rejected trace: the kind of the first line the specification could not match, refined for the
    destructor (what was still outstanding when it returned)"""
    try: e = json.loads(rej["event"])
    except Exception: return "unmatched"
    k = e.get("e", "?")
    extra = ""
    if k in ("PFinished", "PDone"): extra = "-" + str(e.get("status"))
    if k == "DtorEnd":
        added, ran, launched, done, serial = set(), set(), set(), set(), False
        for ln in rej["lines"][:rej["at"]]:
            try: d = json.loads(ln)
            except Exception: continue
            if d.get("e") == "Reset": serial = bool(d["cfg"].get("serial"))
            elif d.get("e") == "AddStart": added.add(d["j"])
            elif d.get("e") == "Body": ran.add(d["j"])
            elif d.get("e") == "ExecProc": launched.add(d["h"])
            elif d.get("e") == "PDone": done.add(d["h"])
        extra = "-job-left-behind" if added - ran else "-completion-pending" if launched - done else "-other"
        if serial: extra += "-serial"
    return k + extra

def run_batch(args):
    binary, wd, bi, scns, env = args
    text = "".join(s.text() for s in scns)
    lines, problems = run_driver(binary, text, wd, "b%d" % bi, env=env)
    execs = vlib.split_executions(lines)
    byid = {s.id: s for s in scns}
    out = dict(acc=0, rej=[], states=0, events=0, execs=len(execs), nt=set(), direct=[], problems=[], sample=None, families={})
    for p in problems:
        s = scns[min(p["index"], len(scns) - 1)]
        out["problems"].append(dict(scn=s, kind=p["kind"], rc=p["rc"], err=p["err"]))
    complete = []
    for ex in execs:
        try: sid = json.loads(ex[0]).get("id")
        except Exception: sid = None
        s = byid.get(sid)
        closed = ex[-1].startswith('{"e":"End"')
        for w in direct_checks(ex):
            if not w.startswith("driver reported"): out["direct"].append(dict(scn=s, what=w, trace=ex))
        if closed: complete.append(ex)
        if s:
            out["families"][s.family] = out["families"].get(s.family, 0) + 1
            if closed and nontrivial(ex): out["nt"].add(s.signature())
    acc, rej, st, evs = vlib.validate_executions(complete, wd, "v%d" % bi, MODULE, CFG, max_rejects=4)
    for r in rej:
        try: sid = json.loads(r["lines"][0]).get("id")
        except Exception: sid = None
        r["scn"] = byid.get(sid)
    out.update(acc=acc, rej=rej, states=st, events=evs)
    if bi == 0 and complete: out["sample"] = complete[0][:40]
    return out

def model_check(cfg, timeout, workers):
    t0 = time.time()
    rc, out = vlib.tlc("MC_C16.tla", cfg, workers=workers, heap="-Xmx12g", timeout=timeout, extra=("-coverage", "1"))
    p = vlib.parse_tlc(out)
    if "Deadlock reached" in out: p["violated"] = p["violated"] or "Deadlock"
    if p["error"] and not p["violated"]: raise vlib.Infra("model checking %s failed: %s\n%s" % (cfg, p["error"], out[-3000:]))
    if p["distinct"] is None and not p["violated"] and rc != 124: raise vlib.Infra("model checking %s: no result\n%s" % (cfg, out[-3000:]))
    p["wall"] = time.time() - t0; p["out"] = out; p["rc"] = rc
    acts = {}
    for m in re.finditer(r"<(\w+) line (\d+), col \d+ to line \d+, col \d+ of module (\w+)>: (\d+):(\d+)", out):
        key = "%s@%s:%s" % (m.group(1), m.group(3), m.group(2)); acts[key] = [int(m.group(4)), int(m.group(5))]
    p["actions"] = acts
    return p

def build(variant):
    """vlib.build, falling back to compiling only queue_driver when another harness source (not ours) fails to compile"""
    try:
        return vlib.build(variant)
    except vlib.Infra as e:
        if "queue_driver" in str(e): raise
        b = vlib.BUILDROOT + "/" + variant
        if not os.path.exists(b + "/lib/libllbuildBasic.a"): raise
        cxx = "clang++-16"; extra = []
        if variant == "asan": cxx = "clang++-14"; extra = ["-fsanitize=address,undefined", "-fno-sanitize-recover=undefined", "-fno-omit-frame-pointer"]
        if variant == "tsan": cxx = "clang++-14"; extra = ["-fsanitize=thread", "-fno-omit-frame-pointer"]
        r = subprocess.run(["cmake", "--build", b, "--target", "llbuildBasic", "llvmSupport"], capture_output=True, text=True)
        if r.returncode: raise vlib.Infra("library build failed: " + r.stdout[-2000:])
        os.makedirs(b + "/harness", exist_ok=True)
        cmd = [cxx, "-std=c++14", "-fno-rtti", "-fno-exceptions", "-O1", "-g", "-DLLBUILD_VERIF"] + extra + [
            "-I" + vlib.REPO + "/include", "-I" + vlib.REPO + "/lib/llvm", "-include", vlib.REPO + "/include/libstdc++14-workaround.h",
            vlib.ROOT + "/harness/queue_driver.cpp", "-L" + b + "/lib", "-lllbuildBasic", "-lllvmSupport", "-lLLVMDemangle", "-lcurses", "-ldl", "-lpthread",
            "-o", b + "/harness/queue_driver"]
        r = subprocess.run(cmd, capture_output=True, text=True)
        if r.returncode: raise vlib.Infra("queue_driver build failed: " + r.stderr[-3000:])
        return b

def mk_replay(pid, name, scn, **kw):
    return vlib.save_replay(pid, name, dict(property=pid, kind="queue-scenario", scenario=scn.text() if scn else None, family=scn.family if scn else None, **kw))

def run(pid, tier, seed, only=None, n=None, variants=None, skip_mc=False):
    b = build("hooks")
    wd = vlib.scratch("%s_%s" % (pid, tier))
    violations = []; mcs = []
    # (a) model checking - started now, collected after the traces (the TLC runs and the drivers share the machine)
    from concurrent.futures import ThreadPoolExecutor
    pool = ThreadPoolExecutor(max_workers=8); mc_futs = []; vac_futs = []
    if not skip_mc:
        for i, (cfg, to) in enumerate(MC[tier]):
            mc_futs.append((cfg, pool.submit(model_check, cfg, to, max(4, vlib.NCPU // 2) if i == 0 else 4)))
        for cfg, expect in VACUITY:
            vac_futs.append((cfg, expect, pool.submit(vlib.tlc, "MC_C16.tla", cfg, workers=2, heap="-Xmx4g", timeout=900)))
    # (b) implementation traces
    scns = gen_scenarios(seed, n or N_SCEN[tier], only)
    vars_ = variants or (["hooks"] if tier == "quick" else ["hooks", "asan", "tsan"])
    jobs = []
    bi = 0
    for vi, v in enumerate(vars_):
        bb = b if v == "hooks" else build(v)
        part = scns if v == "hooks" else scns[vi::len(vars_) * 2]      # the sanitizer builds run a share of the scenarios
        env = {"ASAN_OPTIONS": "detect_leaks=0:abort_on_error=0", "TSAN_OPTIONS": "halt_on_error=1:exitcode=66:report_signal_unsafe=0", "UBSAN_OPTIONS": "print_stacktrace=1"}
        for i in range(0, len(part), BATCH):
            jobs.append((bb + "/harness/queue_driver", wd, bi, part[i:i + BATCH], env)); bi += 1
    results = vlib.parallel(run_batch, jobs)
    vac = []
    for cfg, mcf in mc_futs:
        mc = mcf.result(); mcs.append((cfg, mc))
        log("[%s] model checking %s: %s distinct states, %s generated, depth %s, %.0fs%s" % (pid, cfg, mc["distinct"], mc["states"], mc["depth"], mc["wall"], " TIMEOUT (exploration incomplete)" if mc["rc"] == 124 else ""))
        if mc["violated"]:
            d = os.path.join(vlib.REPLAY, pid); os.makedirs(d, exist_ok=True)
            p = os.path.join(d, "tlc-counterexample-%s.txt" % cfg); open(p, "w").write(mc["out"][-200000:])
            violations.append(dict(replay=p, what="TLC: %s violated in ExecQueue.tla (%s)" % (mc["violated"], cfg), fingerprint=fp("model", mc["violated"])))
        never = [a for a, (taken, _) in mc["actions"].items() if taken == 0 and not a.startswith(("MCInit", "Terminated"))]
        if never: log("[%s]   actions never taken in %s: %s" % (pid, cfg, never))
    for cfg, expect, vf in vac_futs:
        rc, out = vf.result(); p = vlib.parse_tlc(out)
        got = "Deadlock" if "Deadlock reached" in out else p["violated"]
        if got != expect: raise vlib.Infra("vacuity configuration %s: expected %s, TLC reported %s\n%s" % (cfg, expect, got, out[-2000:]))
        vac.append(dict(config=cfg, expected=expect, found=got))
    if vac: log("[%s] vacuity configurations: %s" % (pid, ", ".join("%s -> %s" % (v["config"], v["found"]) for v in vac)))
    pool.shutdown()
    acc = sum(r["acc"] for r in results); states = sum(r["states"] for r in results); events = sum(r["events"] for r in results)
    execs = sum(r["execs"] for r in results); nt = set().union(*[r["nt"] for r in results]) if results else set()
    fams = {}
    for r in results:
        for k, v in r["families"].items(): fams[k] = fams.get(k, 0) + v
    k = 0
    for r in results:
        for rej in r["rej"]:
            cls = classify(rej)
            what = "trace rejected by ExecQueue.tla (%s); first unmatched/violating line %d: %s" % (rej["reason"], rej["at"], (rej["event"] or "")[:200])
            p = mk_replay(pid, "trace-%d-%d" % (seed, k), rej.get("scn"), reason=rej["reason"], at=rej["at"], event=rej["event"], trace=rej["lines"][:rej["at"] + 3]); k += 1
            violations.append(dict(replay=p, what=what, fingerprint=fp("trace", (rej.get("violated") or "") + cls)))
        for d in r["direct"]:
            p = mk_replay(pid, "direct-%d-%d" % (seed, k), d["scn"], reason=d["what"], trace=d["trace"][-60:]); k += 1
            violations.append(dict(replay=p, what=d["what"], fingerprint=fp("direct", re.sub(r"\d+|job \S+", "", d["what"]))))
        for pr in r["problems"]:
            p = mk_replay(pid, "%s-%d-%d" % ("hang" if pr["kind"] == "hang" else "crash", seed, k), pr["scn"], reason=pr["kind"], rc=pr["rc"], stderr=pr["err"]); k += 1
            what = ("the queue hung (driver watchdog/timeout) in scenario %s" % pr["scn"].id) if pr["kind"] == "hang" else ("driver died: %s (exit %s) in scenario %s" % (pr["kind"], pr["rc"], pr["scn"].id))
            violations.append(dict(replay=p, what=what, fingerprint=fp("hang" if pr["kind"] == "hang" else "crash", pr["kind"])))
    log("[%s] traces: %d executions (%s), %d accepted, %d events, %d rejected, %d direct, %d hangs/crashes" % (
        pid, execs, ", ".join("%s %d" % kv for kv in sorted(fams.items())), acc, events, sum(len(r["rej"]) for r in results),
        sum(len(r["direct"]) for r in results), sum(len(r["problems"]) for r in results)))
    sample = next((r["sample"] for r in results if r["sample"]), [])
    safety = mcs[0][1] if mcs else dict(distinct=0, states=0, depth=0, wall=0, actions={})
    cov = dict(states=safety["distinct"] or 0, transitions=safety["states"] or 0,
               tlc=[dict(config=c, distinct=m["distinct"], generated=m["states"], depth=m["depth"], wall_s=round(m["wall"], 1), complete=(m["rc"] != 124)) for c, m in mcs],
               actions={a: v[0] for a, v in safety["actions"].items()}, vacuity=vac,
               traces_validated_against_impl=acc, executions=execs, evaluations=events, trace_states=states,
               distinct_nontrivial=len(nt), families=fams, build_variants=vars_,
               rule="scenarios = seeded random (job scripts, child scripts, client script) from tools/checks_c16.py; distinct = hash of the scenario text; "
                    "non-trivial = two jobs overlapped on different lanes, or a cancellation/destruction was issued while jobs were queued or running",
               samples=[dict(kind="implementation trace (first 40 events)", events=sample)])
    return dict(level="model_checking", coverage=cov, violations=violations,
                assumptions=["the harness logs every event under one mutex; only orderings the queue guarantees are relied on (program order per thread, call-start before "
                             "and call-end after the critical section of a call); Enqueue/Take/CancelSet/KillAll are internal steps placed by TLC",
                             "child behaviour is scripted (queue_driver --child): the child's real fate is decoded by the harness from the raw wait status, independently of llbuild's classification",
                             "environment precedence is checked by an oracle in the harness (expectedEnvLine), not by the TLA+ specification",
                             "TLC explores the scenarios of MC_C16.tla exhaustively; larger job mixes only through validated implementation traces"])

def replay(pid, path):
    if path.endswith(".txt"):
        print(open(path).read()[-6000:]); print("VIOLATION property=%s replay=%s" % (pid, path)); return 1
    obj = json.load(open(path))
    print(json.dumps({k: obj[k] for k in obj if k not in ("trace", "scenario", "stderr")}, indent=1)[:2000])
    if not obj.get("scenario"):
        print("\n".join(obj.get("trace", [])[-30:])); print("VIOLATION property=%s replay=%s" % (pid, path)); return 1
    b = build("hooks"); wd = vlib.scratch("replay16")
    binaries = [b + "/harness/queue_driver"]
    if "Sanitizer" in str(obj.get("reason")): binaries = [build("asan" if "Address" in obj["reason"] else "tsan") + "/harness/queue_driver"]
    tries = 40                  # real threads: the schedule is not replayable, the scenario is
    for t in range(tries):
        lines, problems = run_driver(binaries[0], obj["scenario"], wd, "r%d" % t, timeout=120)
        execs = vlib.split_executions(lines)
        bad = None
        if problems: bad = "driver: %s (exit %s)\n%s" % (problems[0]["kind"], problems[0]["rc"], problems[0]["err"][-800:])
        for ex in execs:
            d = [w for w in direct_checks(ex)]
            if d and not bad: bad = "; ".join(d)
        if not bad:
            acc, rej, st, ev = vlib.validate_executions([e for e in execs if e[-1].startswith('{"e":"End"')], wd, "r", MODULE, CFG)
            if rej:
                r = rej[0]; bad = "REJECTED - %s at line %d: %s" % (r["reason"], r["at"], r["event"][:300])
                for ln in r["lines"][max(0, r["at"] - 10):r["at"]]: print("    ", ln[:200])
        if bad:
            print("replay (run %d of %d): %s" % (t + 1, tries, bad))
            print("VIOLATION property=%s replay=%s" % (pid, path)); return 1
    print("replay: %d runs of the scenario were all accepted - the violation does not reproduce" % tries)
    return 0

if __name__ == "__main__":
    # development entry: checks_c16.py <tier> <seed> [family,family] [n]
    tier = sys.argv[1] if len(sys.argv) > 1 else "quick"; seed = int(sys.argv[2]) if len(sys.argv) > 2 else 1
    only = sys.argv[3].split(",") if len(sys.argv) > 3 and sys.argv[3] != "-" else None
    n = int(sys.argv[4]) if len(sys.argv) > 4 else None
    t0 = time.time()
    res = run("C16", tier, seed, only=only, n=n, skip_mc=bool(os.environ.get("C16_SKIP_MC")), variants=os.environ.get("C16_VARIANTS", "").split(",") if os.environ.get("C16_VARIANTS") else None)
    for v in res["violations"][:12]: print("VIOLATION", v["fingerprint"], v["what"][:300], v["replay"])
    c = res["coverage"]; print({k: c[k] for k in c if k not in ("samples", "actions", "rule")})
    print("%d violations, %.0fs" % (len(res["violations"]), time.time() - t0))
