#!/usr/bin/env python3
"""C17 "Ninja manifests mean what Ninja says they mean" - the manifest EVALUATION semantics.

spec/fn/NinjaEval.tla is a TLA+ state machine of a loader that reads one statement at a time; every reachable
state is a manifest AST together with the loaded build statements the Ninja manual's rules give for it.  TLC
enumerates the ASTs of bounded sub-families exhaustively (breadth-first) and samples the large family
(`-simulate`, seeded), checks the scoping invariants on the specification itself, and prints each state as a
CASE record.  This driver renders each AST to manifest TEXT in several variants (escapes, `$`-newline
continuations, CRLF line ends, varying indentation, atoms replaced by byte strings with spaces, quotes, `$`,
`:`, shell metacharacters and bytes 0x80-0xFF), runs `llbuild ninja load-manifest` on it and compares the printed
manifest with the specification's expectation.  `$in`/`$out` expansions are compared modulo shell-quoting STYLE.
The same manifests are given to the reference `ninja` (-t query / -t commands) to validate the SPECIFICATION
(its "ninja" evaluation mode); a disagreement there is an infrastructure failure ("spec-mismatch"), never a verdict.
"""
import json, os, re, sys, subprocess, random, shutil, time, hashlib, tempfile
from concurrent.futures import ProcessPoolExecutor
sys.path.insert(0, os.path.dirname(os.path.abspath(__file__)))
import vlib
from vlib import log

SPECDIR = os.path.join(vlib.SPEC, "fn")
NINJA = shutil.which("ninja") or "/usr/bin/ninja"
DEV = set(filter(None, os.environ.get("C17_DEV", "").split(",")))   # development only: "nosim", "noninja" (mutation runs)
RULEVARS = ["command", "description", "depfile", "deps", "rspfile", "rspfile_content", "generator", "restat", "pool"]

# ----------------------------------------------------------------------------- the bounded families
FULL = dict(MaxStmts=7, MaxBinds=3, MaxRules=2, MaxBuilds=2, MaxNest=2, MaxMisc=1,
            FBSel="{1,2,3,4,5,6,7,8,9,10,11}", RCSel="{1,2,3,4,5,6}", RDSel="{1,2,3,4}", RESel="{1,2,3,4,5,6,7,8}", RNSel="{1,2}",
            BBSel="{1,2,3,4,5,6,7,8,9,10}", OutSel="{1,2,3,4}", InSel="{1,2,3,4,5,6}", BRSel="{1,2,3}",
            NestKinds='{"include","subninja"}', EmitAll="FALSE")
def fam(**kw):
    d = dict(FULL); d.update(kw); return d
# exhaustively enumerated slices: each isolates one group of rules and keeps the product small
SLICES_QUICK = {
    # build > rule > file, lazy rule variables, re-binding between rule and build, rule variable reading rule variable
    "scope": fam(MaxStmts=4, MaxBinds=2, MaxRules=1, MaxBuilds=1, MaxNest=0, MaxMisc=0, FBSel="{1,2,3,5}", RCSel="{2,3}",
                 RDSel="{1,2}", RESel="{1}", RNSel="{1}", BBSel="{1,3,4}", OutSel="{1}", InSel="{2}", BRSel="{1}"),
    # input classes, $in/$out/$in_newline, several outputs, paths using build-level and file-level variables
    "paths": fam(MaxStmts=3, MaxBinds=1, MaxRules=1, MaxBuilds=1, MaxNest=0, MaxMisc=0, FBSel="{1}", RCSel="{1,5}",
                 RDSel="{1}", RESel="{1,4}", RNSel="{1}", BBSel="{1,2}", OutSel="{1,2,3,4}", InSel="{1,3,4,6}", BRSel="{1,3}"),
    # include / subninja trees: sharing, nesting, no leak, parent's rules, include inside subninja
    "nest": fam(MaxStmts=5, MaxBinds=2, MaxRules=1, MaxBuilds=1, MaxNest=2, MaxMisc=0, FBSel="{1,2}", RCSel="{2}",
                RDSel="{1}", RESel="{1}", RNSel="{1}", BBSel="{1}", OutSel="{1}", InSel="{2}", BRSel="{1}"),
    # EMPTY values (`x =`, `x = ${undefined}`, `description =`) at file level in the root / an included / a subninja file,
    # at build level and at rule level, shadowing non-empty values of the enclosing scopes ("bound to nothing" is bound)
    "empty": fam(MaxStmts=5, MaxBinds=2, MaxRules=1, MaxBuilds=1, MaxNest=1, MaxMisc=0, FBSel="{1,8}", RCSel="{2}",
                 RDSel="{1}", RESel="{8}", RNSel="{1}", BBSel="{1,9}", OutSel="{1,3}", InSel="{2}", BRSel="{1}"),
    "empty2": fam(MaxStmts=4, MaxBinds=2, MaxRules=1, MaxBuilds=1, MaxNest=0, MaxMisc=0, FBSel="{5,10,11}", RCSel="{2,3}",
                  RDSel="{1,2}", RESel="{1,8}", RNSel="{1}", BBSel="{1,10}", OutSel="{1}", InSel="{2}", BRSel="{1}"),
    # a rule variable read more than once inside one expansion (directly, and one level down through `description`), with the
    # variable defined at rule level, overridden at build level, empty, or only at file level  (seed C17_7: the loader's
    # "being expanded" mark was not removed, the second read reported a bogus cycle and expanded to nothing)
    "twice": fam(MaxStmts=4, MaxBinds=1, MaxRules=1, MaxBuilds=1, MaxNest=0, MaxMisc=0, FBSel="{1,5}", RCSel="{5,6}",
                 RDSel="{1,2,4}", RESel="{1,2,3,4,8}", RNSel="{1}", BBSel="{1,5}", OutSel="{1}", InSel="{2}", BRSel="{1}"),
    # escapes and continuations in every position, depfile/deps/rspfile/generator/restat/pool, default, pool
    "attrs": fam(MaxStmts=4, MaxBinds=1, MaxRules=1, MaxBuilds=1, MaxNest=0, MaxMisc=1, FBSel="{6,8}", RCSel="{4}",
                 RDSel="{1}", RESel="{2,3,4,5,6,7}", RNSel="{2}", BBSel="{1,5,6,7,8}", OutSel="{1,4}", InSel="{2}", BRSel="{2}"),
}
SLICES_THOROUGH = dict(SLICES_QUICK)
SLICES_THOROUGH.update({
    "scope2": fam(MaxStmts=5, MaxBinds=3, MaxRules=1, MaxBuilds=1, MaxNest=0, MaxMisc=0, FBSel="{1,2,3,5,7,8}", RCSel="{2,3}",
                  RDSel="{1,2,3}", RESel="{1}", RNSel="{1}", BBSel="{1,2,3,4,7}", OutSel="{1}", InSel="{2}", BRSel="{1}"),
    "paths2": fam(MaxStmts=3, MaxBinds=1, MaxRules=1, MaxBuilds=1, MaxNest=0, MaxMisc=0, FBSel="{1,4}", RCSel="{1,2,4,5}",
                  RDSel="{1,2,3}", RESel="{1,2,3,4}", RNSel="{1}", BBSel="{1,2,3,6}", OutSel="{1,2,3,4}", InSel="{1,2,3,4,5,6}", BRSel="{1,3}"),
    "nest2": fam(MaxStmts=6, MaxBinds=2, MaxRules=1, MaxBuilds=2, MaxNest=2, MaxMisc=0, FBSel="{1,2}", RCSel="{2}",
                 RDSel="{1}", RESel="{1}", RNSel="{1}", BBSel="{1}", OutSel="{1}", InSel="{2}", BRSel="{1}"),
    "two": fam(MaxStmts=5, MaxBinds=1, MaxRules=2, MaxBuilds=2, MaxNest=0, MaxMisc=0, FBSel="{1,5}", RCSel="{1}",
               RDSel="{1,2}", RESel="{1}", RNSel="{1,2}", BBSel="{1,4}", OutSel="{1}", InSel="{2,5}", BRSel="{1,2,3}"),
})
INVARIANTS = ["BuildShadowsAll", "RuleOverFileLazy", "FileFallback", "EmptyShadows", "InOut", "BuildValuesInFileScope",
              "PathsSeeBuildBindings", "ScopeTree"]
PROPERTIES = ["OnlyCurrentScope", "CmdsFinal", "ExitRestores"]

def write_cfg(path, consts):
    with open(path, "w") as f:
        f.write("CONSTANTS\n")
        for k, v in consts.items(): f.write("  %s = %s\n" % (k, v))
        f.write("INIT Init\nNEXT Next\n")
        for i in INVARIANTS: f.write("INVARIANT %s\n" % i)
        for p in PROPERTIES: f.write("PROPERTY %s\n" % p)
        f.write("CONSTRAINT Emit\nCHECK_DEADLOCK FALSE\n")

def run_tlc(name, consts, wd, simulate=None, depth=None, seed=None, timeout=1500, workers=4, coverage=False):
    """returns (cases, info)"""
    cfg = os.path.join(wd, "NinjaEval_%s.cfg" % name)
    write_cfg(cfg, consts)
    extra = []
    if simulate:
        extra += ["-depth", str(depth), "-seed", str(seed)]
    if coverage: extra += ["-coverage", "1"]
    t0 = time.time()
    rc, out = vlib.tlc("NinjaEval.tla", cfg, cwd=SPECDIR, workers=workers, heap="-Xmx6g", timeout=timeout,
                       simulate=("num=%d" % simulate) if simulate else None, extra=extra)
    p = vlib.parse_tlc(out)
    nocase = "\n".join(l for l in out.split("\n") if not l.startswith('<<"CASE"'))
    if p["violated"]:
        raise vlib.Infra("spec-error: NinjaEval.tla (%s): property %s of the specification itself is violated\n%s" % (name, p["violated"], nocase[-3000:]))
    if simulate:
        m = re.search(r"The number of states generated: (\d+)", out)
        if rc == 124 or not m: raise vlib.Infra("TLC simulation %s failed (rc %s):\n%s" % (name, rc, nocase[-2500:]))
        p["states"] = int(m.group(1)); p["distinct"] = None
    elif p["error"] or p["distinct"] is None or "Model checking completed" not in out:
        raise vlib.Infra("TLC failed on NinjaEval.tla (%s, rc %s): %s\n%s" % (name, rc, p["error"], nocase[-2500:]))
    cases = []; seen = set()
    for m in re.finditer(r'^<<"CASE", "(.*)">>$', out, re.M):
        s = m.group(1)
        if "\\" in s: s = s.encode("latin-1").decode("unicode_escape")
        h = hashlib.sha1(s.encode()).digest()
        if h in seen: continue
        seen.add(h)
        try: c = json.loads(s)
        except Exception as e: raise vlib.Infra("unparsable CASE line from TLC (%s): %s" % (name, s[:200]))
        c["src"] = name
        cases.append(c)
    p["wall"] = time.time() - t0
    p["actions"] = vlib.coverage_actions(out) if coverage else None
    return cases, p

def ast_key(c): return hashlib.sha1(json.dumps(c["ast"], sort_keys=True).encode()).hexdigest()

# ----------------------------------------------------------------------------- rendering ASTs to text
DECOS_PLAIN = [b""]
DECOS = [b"", b"", b"", b" ", b":", b"$", b"'", b'"', b"\xe9", b"\xff", b"\x80\xfe", b" $", b"':", b"&", b";", b"*", b"(",
         b"<", b"=", b"%", b"+", b",", b".", b"-", b"_", b"@", b"~", b"!", b"{", b"}", b"?", b"[", b"]", b"/", b"  ", b"$$",
         b"\" '", b"\xc3\xa9", b"#", b">", b"`", b"^"]
SIMPLE = set(b"abcdefghijklmnopqrstuvwxyzABCDEFGHIJKLMNOPQRSTUVWXYZ0123456789_-")
ATOM_RE = re.compile(r"@(\w+)@")

class Variant:
    """all textual choices of one rendering, drawn from a seeded generator"""
    def __init__(self, vseed, style):
        self.rng = random.Random(vseed)
        self.style = style            # "plain" | "rich"
        rich = style == "rich"
        r = self.rng
        self.crlf = {f: (rich and r.random() < 0.35) for f in ("main", "f1", "f2")}
        self.brace_all = rich and r.random() < 0.15
        self.esc_all = rich and r.random() < 0.3          # escape blanks/colons in values although not needed
        self.extra_cont = (r.random() < 0.5) if rich else False   # `$`-newline between the tokens of build lines
        self.comments = rich and r.random() < 0.4
        self.shuffle = rich and r.random() < 0.5
        self.fnames = {"main": b"build.ninja", "f1": b"f1.ninja", "f2": b"f2.ninja"}
        if rich and r.random() < 0.3: self.fnames["f1"] = b"f 1$.ninja"
        if rich and r.random() < 0.3: self.fnames["f2"] = b"sub/f\xe92.ninja"
        self.amap = {}
    def atom(self, name):
        if name not in self.amap:
            d = self.rng.choice(DECOS if self.style == "rich" else DECOS_PLAIN)
            a, b = (name[0], name[1:]) if len(name) > 1 else (name, name.upper())
            self.amap[name] = a.encode() + d + b.encode()
        return self.amap[name]
    def subst(self, s):
        """abstract text (str with @k@ atoms) -> bytes"""
        out = b""; pos = 0
        for m in ATOM_RE.finditer(s):
            out += s[pos:m.start()].encode("latin-1") + self.atom(m.group(1)); pos = m.end()
        return out + s[pos:].encode("latin-1")
    def indent(self):
        return b" " * (self.rng.choice([1, 2, 2, 3, 4, 8]) if self.style == "rich" else 2)

def esc_text(b, ctx, V):
    out = bytearray()
    for ch in b:
        c = bytes([ch])
        if c == b"$": out += b"$$"
        elif c == b" " and (ctx == "path" or V.esc_all): out += b"$ "
        elif c == b":" and (ctx == "path" or V.esc_all): out += b"$:"
        else: out += c
    return bytes(out)

def render_tmpl(tm, ctx, V, nl):
    parts = []
    for p in tm:
        if p["t"] == "lit": parts.append(esc_text(V.subst(p["s"]), ctx, V))
        elif p["t"] == "esc": parts.append(b"$" + p["s"].encode())
        elif p["t"] == "cont": parts.append(b"$" + nl + b" " * (V.rng.randrange(0, 5) if V.style == "rich" else 2))
        else: parts.append(None)
    out = b""
    for i, p in enumerate(tm):
        if parts[i] is not None: out += parts[i]; continue
        nxt = b""
        for j in range(i + 1, len(tm)):
            nxt = parts[j] if parts[j] is not None else b"$"
            if nxt: break
        brace = p["br"] or V.brace_all or (nxt[:1] != b"" and nxt[0] in SIMPLE)
        out += (b"${" + p["s"].encode() + b"}") if brace else (b"$" + p["s"].encode())
    if ctx == "value" and out[:1] == b" ": out = b"$" + out
    return out

def render_binding(n, v, V, nl):
    eq = V.rng.choice([b" = ", b" = ", b"=", b"  =   ", b" =", b"= "]) if V.style == "rich" else b" = "
    val = render_tmpl(v, "value", V, nl)
    if not val: eq = eq.rstrip(b" ") if V.rng.random() < 0.5 else eq
    return n.encode() + eq + val + nl

def render_file(ast, f, V):
    nl = b"\r\n" if V.crlf[f] else b"\n"
    out = b""
    def sep():
        if V.style == "rich" and V.extra_cont and V.rng.random() < 0.3:
            return b" $" + nl + b" " * V.rng.randrange(0, 6)
        return b" " * (V.rng.choice([1, 1, 1, 2, 3]) if V.style == "rich" else 1)
    for st in ast[f]:
        if V.comments and V.rng.random() < 0.3: out += V.rng.choice([nl, b"# a comment $x ${y}: | build" + nl, b"#" + nl + nl])
        k = st["k"]
        if k == "bind":
            out += render_binding(st["n"], st["v"], V, nl)
        elif k == "rule":
            out += b"rule" + sep() + st["n"].encode() + nl
            vs = list(st["vars"])
            if V.shuffle and len({b["n"] for b in vs}) == len(vs): V.rng.shuffle(vs)
            for b in vs: out += V.indent() + render_binding(b["n"], b["v"], V, nl)
        elif k == "build":
            line = b"build"
            for t in st["outs"]: line += sep() + render_tmpl(t, "path", V, nl)
            line += V.rng.choice([b":", b" :", b": "]) if V.style == "rich" else b":"
            line += sep() + st["rule"].encode()
            for t in st["ins"]: line += sep() + render_tmpl(t, "path", V, nl)
            if st["imps"]:
                line += sep() + b"|"
                for t in st["imps"]: line += sep() + render_tmpl(t, "path", V, nl)
            if st["oos"]:
                line += sep() + b"||"
                for t in st["oos"]: line += sep() + render_tmpl(t, "path", V, nl)
            out += line + nl
            bs = list(st["binds"])
            if V.shuffle and len({b["n"] for b in bs}) == len(bs): V.rng.shuffle(bs)
            for b in bs: out += V.indent() + render_binding(b["n"], b["v"], V, nl)
        elif k in ("include", "subninja"):
            out += k.encode() + sep() + esc_text(V.fnames[st["f"]], "path", V) + nl
        elif k == "default":
            line = b"default"
            for t in st["t"]: line += sep() + render_tmpl(t, "path", V, nl)
            out += line + nl
        elif k == "pool":
            out += b"pool" + sep() + st["n"].encode() + nl + V.indent() + b"depth = %d" % st["depth"] + nl
        else:
            raise vlib.Infra("unknown statement kind %r" % k)
    return out

def used_files(ast):
    fs = ["main"]
    for f in ("main", "f1", "f2"):
        for st in ast[f]:
            if st["k"] in ("include", "subninja") and st["f"] not in fs: fs.append(st["f"])
    return fs

def render(case, vseed, style):
    V = Variant(vseed, style)
    files = {}
    for f in used_files(case["ast"]):
        files[V.fnames[f]] = render_file(case["ast"], f, V)
    return V, files

# ----------------------------------------------------------------------------- expectation in bytes
def seg_bytes(segs, V):
    return [("s", V.subst(s["s"])) if s["t"] == "s" else ("p", b"\n" if s["s"] == "nl" else b" ", [V.subst(p) for p in s["ps"]]) for s in segs]
def seg_plain(segs):
    """bytes of a segment list without path lists (None if it has one)"""
    out = b""
    for s in segs:
        if s[0] != "s": return None
        out += s[1]
    return out
def seg_raw(segs):
    return b"".join(s[1] if s[0] == "s" else s[1].join(s[2]) for s in segs)

UNSAFE = set(b" \t\n|&;<>()$`\\\"'*?[")
def word_ends(a, pos, p):
    """end positions of all sh-word renderings of byte string p that start at a[pos] (POSIX quoting rules)"""
    res = set(); seen = set(); todo = [(pos, 0, 0)]
    n = len(p); la = len(a)
    while todo:
        st = todo.pop()
        if st in seen: continue
        seen.add(st)
        i, k, q = st
        if q == 0 and k == n: res.add(i)
        if i >= la: continue
        c = a[i]
        if q == 0:
            if c == 0x27: todo.append((i + 1, k, 1))
            elif c == 0x22: todo.append((i + 1, k, 2))
            elif c == 0x5c:
                if i + 1 < la and a[i + 1] != 0x0a and k < n and a[i + 1] == p[k]: todo.append((i + 2, k + 1, 0))
            elif c in UNSAFE: pass
            elif (c == 0x23 or c == 0x7e) and k == 0 and (i == pos): pass     # '#', '~' at the start of a word
            elif k < n and c == p[k]: todo.append((i + 1, k + 1, 0))
        elif q == 1:
            if c == 0x27: todo.append((i + 1, k, 0))
            elif k < n and c == p[k]: todo.append((i + 1, k + 1, 1))
        else:
            if c == 0x22: todo.append((i + 1, k, 0))
            elif c == 0x5c:
                if i + 1 < la and a[i + 1] in (0x24, 0x60, 0x22, 0x5c):
                    if k < n and a[i + 1] == p[k]: todo.append((i + 2, k + 1, 2))
                elif i + 1 < la and a[i + 1] == 0x0a: todo.append((i + 2, k, 2))
                elif k < n and p[k] == 0x5c: todo.append((i + 1, k + 1, 2))
            elif c in (0x24, 0x60): pass
            elif k < n and c == p[k]: todo.append((i + 1, k + 1, 2))
    return res

def match_segs(segs, actual, quoting, witness=None):
    """does `actual` render the segment list?  quoting: "sh" (path lists must be sh-quoted so that a POSIX shell
    reads back exactly the paths) | "any" (raw or quoted: the property does not say).  `witness` (a list) receives
    the (rendering, path) pairs of one successful match."""
    memo = {}
    def go(i, pos):
        key = (i, pos)
        if key in memo: return memo[key]
        r = None
        if i == len(segs): r = [] if pos == len(actual) else None
        else:
            s = segs[i]
            if s[0] == "s":
                if actual.startswith(s[1], pos): r = go(i + 1, pos + len(s[1]))
            else:
                sep, ps = s[1], s[2]
                cur = {pos: []}                       # end position -> witness list
                for j, p in enumerate(ps):
                    nxt = {}
                    for c, w in cur.items():
                        c0 = c
                        if j > 0:
                            if not actual.startswith(sep, c): continue
                            c0 = c + len(sep)
                        for e in word_ends(actual, c0, p): nxt.setdefault(e, w + [(actual[c0:e], p)])
                        if quoting == "any" and actual.startswith(p, c0): nxt.setdefault(c0 + len(p), w)
                    cur = nxt
                    if not cur: break
                for c, w in cur.items():
                    rest = go(i + 1, c)
                    if rest is not None: r = w + rest; break
        memo[key] = r
        return r
    res = go(0, 0)
    if res is not None and witness is not None: witness.extend(res)
    return res is not None

def expected_of(case, V):
    e = case["exp"]
    cmds = []
    for c in e["cmds"]:
        d = dict(outs=[V.subst(p) for p in c["outs"]], ins=[V.subst(p) for p in c["ins"]], imps=[V.subst(p) for p in c["imps"]],
                 oos=[V.subst(p) for p in c["oos"]], rule=c["rule"], excl=c["excl"], twice=c.get("twice", False), up=c["up"], nbinds=c["nbinds"], sc=c["sc"],
                 fsp={k: [V.subst(p) for p in c["fsp"][k]] for k in ("outs", "ins", "imps", "oos")},
                 vals={k: seg_bytes(c["vals"][k], V) for k in RULEVARS}, ninja={k: seg_bytes(c["ninja"][k], V) for k in RULEVARS})
        cmds.append(d)
    return dict(bindings={b["n"]: V.subst(b["v"]) for b in e["bindings"]}, cmds=cmds,
                defaults=[V.subst(p) for p in e["defaults"]], pools=[(p["n"], p["depth"]) for p in e["pools"]])

# ----------------------------------------------------------------------------- llbuild side
def unescape(b):
    out = bytearray(); i = 0; n = len(b)
    while i < n:
        c = b[i]
        if c == 0x5c and i + 1 < n:
            d = b[i + 1]
            if d == 0x22: out.append(0x22); i += 2; continue
            if d == 0x6e: out.append(0x0a); i += 2; continue
            if d == 0x78 and i + 3 < n + 0 and re.match(rb"[0-9a-fA-F]{2}", b[i + 2:i + 4]):
                out.append(int(b[i + 2:i + 4], 16)); i += 4; continue
        out.append(c); i += 1
    return bytes(out)

def read_quoted(line, i):
    """line[i] == '"': returns (unescaped bytes, index after the closing quote)"""
    assert line[i:i + 1] == b'"'
    j = i + 1
    while j < len(line):
        if line[j] == 0x5c and line[j + 1:j + 2] == b'"': j += 2; continue
        if line[j] == 0x22: break
        j += 1
    if j >= len(line): raise ValueError("unterminated string in %r" % line)
    return unescape(line[i + 1:j]), j + 1

def parse_llbuild(out):
    """the text printed by `llbuild ninja load-manifest` -> dict(bindings, pools, cmds, defaults_line)"""
    res = dict(bindings={}, pools={}, cmds=[], defaults_line=None, rules=[])
    sec = None; cur = None; curpool = None
    for line in out.split(b"\n"):
        if line.startswith(b"# "):
            sec = line[2:]; cur = None; continue
        if not line: continue
        if sec == b"Top-Level Bindings":
            m = re.match(rb'^([A-Za-z0-9_.-]+) = (".*)$', line)
            if not m: raise ValueError("binding line %r" % line)
            v, _ = read_quoted(m.group(2), 0)
            res["bindings"][m.group(1).decode()] = v
        elif sec == b"Pools":
            if line.startswith(b"pool "): curpool = line[5:].decode("latin-1"); res["pools"][curpool] = None
            else:
                m = re.match(rb"^  depth = (\d+)$", line)
                if m and curpool is not None: res["pools"][curpool] = int(m.group(1))
        elif sec == b"Rules":
            if line.startswith(b"rule "): res["rules"].append(line[5:].decode("latin-1"))
        elif sec == b"Commands":
            if line.startswith(b"build"):
                cur = dict(outs=[], ins=[], imps=[], oos=[], rule=None, attrs={})
                i = 5
                while line[i:i + 2] == b' "':
                    s, i = read_quoted(line, i + 1); cur["outs"].append(s)
                if line[i:i + 2] != b": ": raise ValueError("build line %r" % line)
                i += 2
                j = line.find(b" ", i)
                if j < 0: j = len(line)
                cur["rule"] = line[i:j].decode("latin-1"); i = j
                cls = "ins"
                while i < len(line):
                    if line[i:i + 4] == b' || ': cls = "oos"; i += 3
                    elif line[i:i + 3] == b' | ': cls = "imps"; i += 2
                    if line[i:i + 2] != b' "': raise ValueError("build line %r at %d" % (line, i))
                    s, i = read_quoted(line, i + 1); cur[cls].append(s)
                res["cmds"].append(cur)
            else:
                m = re.match(rb"^  ([a-z_]+) = (.*)$", line)
                if not m or cur is None: raise ValueError("command attribute line %r" % line)
                k = m.group(1).decode(); v = m.group(2)
                if v.startswith(b'"'): v, _ = read_quoted(v, 0)
                cur["attrs"][k] = v
        elif sec == b"Default Targets":
            if line.startswith(b"default "): res["defaults_line"] = line
    return res

def run_llbuild(llbuild, d):
    r = subprocess.run([llbuild, "ninja", "load-manifest", "build.ninja"], cwd=d, capture_output=True, timeout=60)
    return r.returncode, r.stdout, r.stderr

def compare_llbuild(exp, rc, out, err, ctx):
    """returns list of (fingerprint, text)"""
    bad = []
    if rc != 0:
        return [("C17 loader-exit", "llbuild ninja load-manifest exited with %d: %s" % (rc, err[-300:].decode("latin-1")))]
    try: act = parse_llbuild(out)
    except Exception as e:
        return [("C17 output-unparsable", "cannot parse the printed manifest: %s" % e)]
    diag = err.decode("latin-1")
    def add(fp, text): bad.append((fp, text))
    # --- known classes first (so that their consequences are not reported under generic names)
    s16 = ctx["crlf_cont"] and "invalid '$'-escape" in diag
    if s16: add("C17 crlf-continuation", "`$` followed by CR LF (a line continuation in a CRLF manifest) is rejected: %s" % diag.strip().split("\n")[0])
    s15 = "unknown rule" in diag and diag.count("error: unknown rule") == sum(1 for e in exp["cmds"] if e["up"])
    if s15: add("C17 subninja-parent-rules", "a build statement in a subninja file names a rule of the including file (or the built-in phony) and it is not found: %s" % diag.strip().split("\n")[0])
    # --- bindings
    if act["bindings"] != exp["bindings"] and not s16:
        add("C17 top-level-bindings", "top-level bindings are %r, the rules give %r" % (act["bindings"], exp["bindings"]))
    # --- commands
    amap = {tuple(c["outs"]): c for c in act["cmds"]}
    if len(act["cmds"]) != len(exp["cmds"]): add("C17 statement-count", "%d build statements loaded, %d expected" % (len(act["cmds"]), len(exp["cmds"])))
    for e in exp["cmds"]:
        a = amap.get(tuple(e["outs"]))
        name = b" ".join(e["outs"]).decode("latin-1")
        if a is None:
            a_fs = amap.get(tuple(e["fsp"]["outs"]))
            if a_fs is not None and e["fsp"]["outs"] != e["outs"]:
                add("C17 build-line-scope", "outputs of `build %s` were expanded without the build statement's own bindings: %r" % (name, a_fs["outs"]))
                a = a_fs
            else:
                if not s16: add("C17 outputs", "no build statement with outputs %r was loaded (loaded: %r)" % (e["outs"], [c["outs"] for c in act["cmds"]]))
                continue
        s14 = a["outs"] != e["outs"]
        for cls in ("ins", "imps", "oos"):
            if a[cls] != e[cls]:
                if a[cls] == e["fsp"][cls]:
                    s14 = True
                    add("C17 build-line-scope", "%s of `build %s` were expanded without the build statement's own bindings: %r instead of %r" % (cls, name, a[cls], e[cls]))
                elif not s16:
                    add("C17 inputs-" + cls, "`build %s`: %s are %r, expected %r (all: in %r implicit %r order-only %r)" % (name, cls, a[cls], e[cls], a["ins"], a["imps"], a["oos"]))
        if a["rule"] != e["rule"]:
            if a["rule"] == "phony" and e["up"] and s15: pass
            else:
                add("C17 rule", "`build %s` uses rule %r, expected %r" % (name, a["rule"], e["rule"]))
            continue
        if e["rule"] == "phony" or e["excl"] or s16: continue
        at = a["attrs"]
        if s14:   # already reported: compare the rule variables with the path lists that were actually loaded
            fix = lambda segs: [s if s[0] == "s" else ("p", s[1], a["outs"] if s[2] == e["outs"] else (a["ins"] if s[2] == e["ins"] else s[2])) for s in segs]
            e = dict(e); e["vals"] = {k: fix(v) for k, v in e["vals"].items()}
        for k, quoting in (("command", "sh"), ("description", "any")):
            if not match_segs(e["vals"][k], at.get(k, b""), quoting, ctx["words"] if k == "command" else None):
                raw = seg_raw(e["vals"][k])
                fp = "C17 " + k
                if k == "command" and match_segs(e["vals"][k], at.get(k, b""), "any"): fp = "C17 command-quoting"
                add(fp, "`build %s`: %s is %r, the rules give %r%s" % (name, k, at.get(k), raw, " (modulo quoting of the path lists)" if any(s[0] == "p" for s in e["vals"][k]) else ""))
        deps = seg_plain(e["vals"]["deps"]); depfile = e["vals"]["depfile"]
        style = "gcc" if (deps == b"gcc" or (deps == b"" and depfile)) else ("msvc" if deps == b"msvc" else "")
        if at.get("deps", b"").decode("latin-1") != style:
            add("C17 deps", "`build %s`: deps style printed %r, expected %r" % (name, at.get("deps"), style))
        elif style == "gcc" and not match_segs(depfile, at.get("depfile", b""), "any"):
            add("C17 depfile", "`build %s`: depfile is %r, the rules give %r" % (name, at.get("depfile"), seg_raw(depfile)))
        for k in ("generator", "restat"):
            want = bool(e["vals"][k])
            if (k in at) != want: add("C17 " + k, "`build %s`: %s flag is %s, expected %s" % (name, k, k in at, want))
        pool = seg_plain(e["vals"]["pool"])
        if at.get("pool", b"") != pool: add("C17 pool", "`build %s`: pool is %r, expected %r" % (name, at.get("pool"), pool))
    # --- default targets, pools
    if any(fp == "C17 build-line-scope" for fp, _ in bad): pass      # the target names are wrong for that reason
    elif exp["defaults"]:
        want = b"default " + b" ".join(b'"' + p + b'"' for p in sorted(exp["defaults"]))
        if act["defaults_line"] != want: add("C17 default-paths", "default targets line %r, expected %r%s" % (act["defaults_line"], want, (" (" + diag.strip().split("\n")[0] + ")") if diag else ""))
    elif act["defaults_line"] is not None: add("C17 default-paths", "unexpected default targets %r" % act["defaults_line"])
    for n, depth in exp["pools"]:
        if act["pools"].get(n) != depth: add("C17 pool-decl", "pool %s has depth %r, expected %r" % (n, act["pools"].get(n), depth))
    if err and not bad and not s15:
        add("C17 diagnostic", "a diagnostic is reported for a valid manifest: %s" % diag.strip().split("\n")[0])
    return bad

# ----------------------------------------------------------------------------- reference ninja side (validates the SPEC)
def parse_query(out, targets):
    """`ninja -t query t1 t2 ..` -> list of dict(rule, ins, imps, oos) in the order of targets"""
    res = []; lines = out.split(b"\n"); i = 0
    for t in targets:
        if i >= len(lines) or lines[i] != t + b":": raise ValueError("query block for %r not found at %r" % (t, lines[i:i + 1]))
        i += 1
        d = dict(rule=None, ins=[], imps=[], oos=[])
        if i < len(lines) and lines[i].startswith(b"  input: "):
            d["rule"] = lines[i][9:].decode("latin-1"); i += 1
            while i < len(lines) and lines[i].startswith(b"    "):
                p = lines[i][4:]
                if p.startswith(b"|| "): d["oos"].append(p[3:])
                elif p.startswith(b"| "): d["imps"].append(p[2:])
                else: d["ins"].append(p)
                i += 1
        if i < len(lines) and lines[i] == b"  outputs:":
            i += 1
            while i < len(lines) and lines[i].startswith(b"    "): i += 1
        res.append(d)
    return res

def check_ninja(exp, d, words=None, declined=None, lenient=False):
    """returns list of spec-mismatch texts"""
    bad = []
    if not exp["cmds"]: return bad
    targets = [o for c in exp["cmds"] for o in c["outs"]]
    r = subprocess.run([NINJA, "-f", "build.ninja", "-t", "query"] + targets, cwd=d, capture_output=True, timeout=60)
    if r.returncode != 0:
        return ["ninja -t query failed: %s" % (r.stdout + r.stderr)[-300:].decode("latin-1")]
    try: q = parse_query(r.stdout, targets)
    except Exception as e: return ["cannot parse ninja -t query output: %s" % e]
    qi = 0
    for c in exp["cmds"]:
        for o in c["outs"]:
            a = q[qi]; qi += 1
            if a["rule"] != c["rule"]: bad.append("ninja: %r is built by rule %r, specification says %r" % (o, a["rule"], c["rule"]))
            for cls in ("ins", "imps", "oos"):
                if a[cls] != c[cls]: bad.append("ninja: %s of %r are %r, specification says %r" % (cls, o, a[cls], c[cls]))
        r = subprocess.run([NINJA, "-f", "build.ninja", "-t", "commands", "-s", c["outs"][0]], cwd=d, capture_output=True, timeout=60)
        if r.returncode != 0:
            # ninja 1.11.1 never removes a rule variable from EdgeEnv::lookups_ once it has been expanded, so the SECOND read of
            # one rule variable inside a nested expansion is reported as "cycle in rule variables" although nothing is cyclic
            # (its manual: rule variables are expanded lazily, each time they are referenced).  Every rule of the enumerated
            # family satisfies Acyclic (NinjaEval.tla), so such a fatal error is that false cycle: the reference declines to
            # evaluate, the specification is not validated on this statement, and nothing is compared.
            # NinjaEval.tla!RefFalseCycle transcribes the reference's walk and says for which statements this happens (field
            # `twice`); the prediction itself is validated here in both directions.  (lenient: the variant with another rule
            # variable in the place of `command`, for which the prediction was not computed.)
            if b"cycle in rule variables" in (r.stdout + r.stderr) and (c.get("twice") or lenient):
                if declined is not None: declined.append(c["outs"][0])
                continue
            bad.append("ninja -t commands failed: %s" % (r.stdout + r.stderr)[-300:].decode("latin-1")); continue
        if c.get("twice") and not lenient and c["rule"] != "phony":
            bad.append("ninja evaluates the command of %r although RefFalseCycle predicts that the reference reports a (false) cycle" % c["outs"][0]); continue
        got = r.stdout[:-1] if r.stdout.endswith(b"\n") else r.stdout
        if c["rule"] == "phony":
            if got: bad.append("ninja prints a command %r for a phony statement" % got)
        elif not match_segs(c["ninja"]["command"], got, "sh", words):
            bad.append("ninja: command of %r is %r, specification (ninja mode) says %r" % (c["outs"][0], got, seg_raw(c["ninja"]["command"])))
    # default targets: `ninja -t commands` without targets prints the commands needed for the defaults, inputs first
    if exp["defaults"]:
        import itertools
        producer = {o: i for i, c in enumerate(exp["cmds"]) for o in c["outs"]}
        need = []; todo = [producer[p] for p in exp["defaults"] if p in producer]
        while todo:
            i = todo.pop()
            if i in need: continue
            need.append(i)
            for p in exp["cmds"][i]["ins"] + exp["cmds"][i]["imps"] + exp["cmds"][i]["oos"]:
                if p in producer: todo.append(producer[p])
        need = [i for i in need if exp["cmds"][i]["rule"] != "phony"]
        r = subprocess.run([NINJA, "-f", "build.ninja", "-t", "commands"], cwd=d, capture_output=True, timeout=60)
        if r.returncode != 0:
            if not (b"cycle in rule variables" in (r.stdout + r.stderr) and (lenient or any(exp["cmds"][i].get("twice") for i in need))):
                bad.append("ninja -t commands (default targets) failed: %s" % (r.stdout + r.stderr)[-300:].decode("latin-1"))
        elif not any(match_segs([s for i in order for s in exp["cmds"][i]["ninja"]["command"] + [("s", b"\n")]], r.stdout, "sh") for order in itertools.permutations(need)):
            bad.append("ninja: the commands for the default targets %r are %r, specification expects those of statements %r" % (exp["defaults"], r.stdout, need))
    return bad

def swap_names(obj, a, b):
    """the same AST / expectation with the rule-variable names a and b exchanged everywhere"""
    sw = lambda s: b if s == a else (a if s == b else s)
    if isinstance(obj, list): return [swap_names(x, a, b) for x in obj]
    if isinstance(obj, dict):
        if set(obj.keys()) == set(RULEVARS): return {sw(k): swap_names(v, a, b) for k, v in obj.items()}
        d = {}
        for k, v in obj.items():
            if k == "n" and isinstance(v, str): d[k] = sw(v)
            elif k == "s" and obj.get("t") == "var": d[k] = sw(v)
            else: d[k] = swap_names(v, a, b)
        return d
    return obj

# ----------------------------------------------------------------------------- one job = one (case, variant)
def has_piece(ast, kind):
    return ('"t": "%s"' % kind) in json.dumps(ast)

def write_files(d, files):
    os.makedirs(d, exist_ok=True)
    for name, data in files.items():
        p = os.path.join(d.encode(), name)
        os.makedirs(os.path.dirname(p), exist_ok=True)
        with open(p, "wb") as f: f.write(data)

def do_job(job):
    """job = dict(id, case, vseed, style, ninja(bool), swap(None|name), llbuild, wd).  returns dict"""
    case = job["case"]; res = dict(id=job["id"], bad=[], specbad=[], ran_ninja=False, words=[])
    d = os.path.join(job["wd"], "m%06d" % job["id"])
    V, files = render(case, job["vseed"], job["style"])
    exp = expected_of(case, V)
    write_files(d, files)
    crlf_cont = any((b"$\r\n" in data) for data in files.values())
    rc, out, err = run_llbuild(job["llbuild"], d)
    res["bad"] = compare_llbuild(exp, rc, out, err, dict(crlf_cont=crlf_cont, words=res["words"]))
    res["features"] = dict(crlf=any(V.crlf[f] for f in used_files(case["ast"])), crlf_cont=crlf_cont,
                           high=any(any(ch >= 0x80 for ch in data) for data in files.values()),
                           cont=any(b"$\n" in data or b"$\r\n" in data for data in files.values()))
    if res["bad"]:
        res["files"] = {k.decode("latin-1"): v.decode("latin-1") for k, v in files.items()}
        res["stdout"] = out.decode("latin-1"); res["stderr"] = err.decode("latin-1")
    if job["ninja"] and "noninja" not in DEV:
        res["ran_ninja"] = True
        res["declined"] = []
        res["specbad"] = check_ninja(exp, d, res["words"], res["declined"])
        if job.get("swap"):
            k = job["swap"]
            sc = dict(ast=swap_names(case["ast"], "command", k), exp=swap_names(case["exp"], "command", k))
            d2 = d + "s"
            V2, files2 = render(sc, job["vseed"], job["style"])
            write_files(d2, files2)
            res["specbad"] += ["[%s as command] %s" % (k, t) for t in check_ninja(expected_of(sc, V2), d2, None, res["declined"], True)]
            shutil.rmtree(d2, ignore_errors=True)
        if res["specbad"]:
            res["files"] = {k.decode("latin-1"): v.decode("latin-1") for k, v in files.items()}
    res["words"] = list(set(res["words"]))
    res["dir"] = d
    # what the in-process driver must report for the response-file attributes (checked per chunk)
    res["rsp"] = None if res["bad"] else [(c["outs"][0], c["vals"]["rspfile"], c["vals"]["rspfile_content"]) for c in exp["cmds"] if c["rule"] != "phony" and not c["excl"]]
    return res

def check_rsp(results, driver):
    """rspfile / rspfile_content through harness/ninja_load_driver (one process per chunk)"""
    todo = [r for r in results if r.get("rsp")]
    if not todo: return
    inp = "".join(r["dir"].encode().hex() + "\n" for r in todo)
    p = subprocess.run([driver], input=inp.encode(), capture_output=True, timeout=600)
    blocks = p.stdout.split(b"E\n")
    if p.returncode != 0 or len(blocks) != len(todo) + 1:
        raise RuntimeError("ninja_load_driver failed (rc %s, %d blocks for %d manifests): %s" % (p.returncode, len(blocks) - 1, len(todo), p.stderr[-300:]))
    unhex = lambda h: b"" if h == b"-" else bytes.fromhex(h.decode())
    for r, blk in zip(todo, blocks):
        got = {}
        for ln in blk.split(b"\n"):
            f = ln.split(b" ")
            if f[0] == b"C": got[unhex(f[1])] = (unhex(f[2]), unhex(f[3]))
        cwd = os.path.normpath(r["dir"]).encode() + b"/"
        for out0, rsp, content in r["rsp"]:
            a = got.get(out0)
            if a is None: r["bad"].append(("C17 rspfile", "in-process load: no build statement with first output %r" % out0)); continue
            if not rsp:
                if a[0]: r["bad"].append(("C17 rspfile", "`build %s`: rspfile is %r, the rules give none" % (out0.decode("latin-1"), a[0])))
                continue
            if not (a[0].startswith(cwd) and match_segs(rsp, a[0][len(cwd):], "any")):
                r["bad"].append(("C17 rspfile", "`build %s`: rspfile is %r, the rules give %r (in the working directory)" % (out0.decode("latin-1"), a[0], seg_raw(rsp))))
            if not match_segs(content, a[1], "any"):
                r["bad"].append(("C17 rspfile_content", "`build %s`: rspfile_content is %r, the rules give %r" % (out0.decode("latin-1"), a[1], seg_raw(content))))

def do_chunk(jobs):
    import traceback
    out = []
    for j in jobs:
        try: out.append(do_job(j))
        except Exception as e:
            out.append(dict(id=j["id"], bad=[], specbad=[], ran_ninja=False, error="%s\n%s" % (e, traceback.format_exc()[-1500:])))
    try:
        if jobs and jobs[0].get("driver"): check_rsp(out, jobs[0]["driver"])
    except Exception as e:
        out[0]["error"] = "%s\n%s" % (e, traceback.format_exc()[-1500:])
    for r, j in zip(out, jobs):
        if r.get("bad") and "files" not in r and r.get("dir"):
            V, files = render(j["case"], j["vseed"], j["style"])
            r["files"] = {k.decode("latin-1"): v.decode("latin-1") for k, v in files.items()}; r["stdout"] = ""; r["stderr"] = ""
        if r.get("dir") and not r.get("bad") and not r.get("specbad"): shutil.rmtree(r["dir"], ignore_errors=True)
        r.pop("rsp", None)
    return out

def swappable(case):
    """rule variables K such that every rule of the manifest binds K (so the manifest with K and command exchanged is valid)"""
    rules = [st for f in ("main", "f1", "f2") for st in case["ast"][f] if st["k"] == "rule"]
    if not rules or any(c["rule"] == "phony" for c in case["exp"]["cmds"]): return []
    ks = []
    for k in ("description", "depfile", "rspfile_content"):
        # (ninja rejects a rule whose `command =` is empty, so K must be bound to a non-empty text everywhere)
        if all(any(b["n"] == k for b in r["vars"]) and all(b["v"] for b in r["vars"] if b["n"] == k) for r in rules): ks.append(k)
    return ks

# ----------------------------------------------------------------------------- sh self-test of the quoting matcher
def sh_selftest(words):
    """words: list of (rendering bytes, path bytes) accepted by word_ends; ask /bin/sh what it reads"""
    bad = []
    words = [w for w in words if b"\n" not in w[0]]
    for i in range(0, len(words), 200):
        chunk = words[i:i + 200]
        script = b"printf '%s\\0' " + b" ".join(w[0] for w in chunk)
        r = subprocess.run(["/bin/sh", "-c", script], capture_output=True, timeout=60)
        got = r.stdout.split(b"\0")[:-1]
        if got != [w[1] for w in chunk]:
            for w, g in zip(chunk, got + [None] * len(chunk)):
                if g != w[1]: bad.append((w, g)); break
    return bad

# ----------------------------------------------------------------------------- driver
def enumerate_cases(tier, seed, wd):
    slices = SLICES_QUICK if tier == "quick" else SLICES_THOROUGH
    info = {}; allcases = {}
    items = list(slices.items())
    def one(it):
        name, consts = it
        return name, run_tlc(name, consts, wd, timeout=1800 if tier == "quick" else 2400, workers=3, coverage=True)
    for name, (cases, p) in vlib.parallel(one, items, n=4):
        info[name] = dict(distinct=p["distinct"], generated=p["states"], cases=len(cases), wall=round(p["wall"], 1), actions=p["actions"])
        for c in cases: allcases.setdefault(ast_key(c), c)
    # random simulation of the large family: each run draws its own sub-alphabets (so that the successor sets stay small)
    nruns, ntraces, depth = (6, 60, 10) if tier == "quick" else (16, 300, 10)
    if "nosim" in DEV: nruns = 0
    rng = random.Random(seed)
    def sub(n, k): return "{" + ",".join(str(i) for i in sorted(rng.sample(range(1, n + 1), k))) + "}"
    simcfgs = []
    for k in range(nruns):
        simcfgs.append((k, fam(FBSel=sub(11, 3), RCSel=sub(6, 2), RDSel=sub(4, 2), RESel=sub(8, 2), RNSel="{1,2}", BBSel=sub(10, 2),
                               OutSel=sub(4, 2), InSel=sub(6, 2), BRSel="{1,2,3}"), rng.randrange(1 << 30)))
    def sim(a):
        k, consts, s = a
        return run_tlc("sim%d" % k, consts, wd, simulate=ntraces, depth=depth, seed=s, workers=1, timeout=2400)
    simstates = 0; simcases = 0
    for cases, p in vlib.parallel(sim, simcfgs, n=8):
        simstates += p["states"]
        for c in cases:
            k = ast_key(c)
            if k not in allcases: allcases[k] = c; simcases += 1
    nsim = nruns * ntraces
    info["simulation"] = dict(traces=nsim, depth=depth, generated=simstates, new_cases=simcases, seed=seed)
    return list(allcases.values()), info

def make_jobs(cases, tier, seed, llbuild, wd, driver=None):
    rng = random.Random(seed)
    jobs = []
    nvar = 2 if tier == "quick" else 3
    for ci, c in enumerate(cases):
        for v in range(nvar):
            style = "plain" if v == 0 else "rich"
            if tier != "quick" and v == 2 and c["src"] not in SLICES_QUICK and not c["src"].startswith("sim"): continue   # third rendering: quick slices and samples only
            j = dict(id=len(jobs), ci=ci, case=c, vseed=rng.randrange(1 << 30), style=style, llbuild=llbuild, wd=wd,
                     ninja=(v == 1), swap=None, driver=driver)
            if j["ninja"]:
                ks = swappable(c)
                if ks and rng.random() < 0.5: j["swap"] = rng.choice(ks)
            jobs.append(j)
    return jobs

def run_jobs(jobs):
    chunks = [jobs[i:i + 64] for i in range(0, len(jobs), 64)]
    results = []
    with ProcessPoolExecutor(max_workers=16) as ex:
        for r in ex.map(do_chunk, chunks): results += r
    return results

def feature_counts(cases):
    f = dict(with_include=0, with_subninja=0, include_inside_subninja=0, build_binding_shadows=0, rule_over_file=0,
             excluded_statements=0, statements=0, phony=0, multi_output=0, implicit_or_orderonly=0, rule_from_parent=0,
             rebinding=0, continuation=0, escapes=0)
    for c in cases:
        a = c["ast"]; js = json.dumps(a)
        if '"k": "include"' in js: f["with_include"] += 1
        if '"k": "subninja"' in js: f["with_subninja"] += 1
        if any(st["k"] == "subninja" for st in a["main"]) and any(st["k"] == "include" for st in a["f1"]): f["include_inside_subninja"] += 1
        if '"t": "cont"' in js: f["continuation"] += 1
        if '"t": "esc"' in js: f["escapes"] += 1
        names = [st["n"] for ff in ("main", "f1", "f2") for st in a[ff] if st["k"] == "bind"]
        if len(names) != len(set(names)): f["rebinding"] += 1
        filevars = set(names)
        for ff in ("main", "f1", "f2"):
            for st in a[ff]:
                if st["k"] == "build":
                    bn = {b["n"] for b in st["binds"]}
                    if bn & (filevars | set(RULEVARS)): f["build_binding_shadows"] += 1
                if st["k"] == "rule" and {b["n"] for b in st["vars"]} & filevars: f["rule_over_file"] += 1
        for cm in c["exp"]["cmds"]:
            f["statements"] += 1
            if cm["excl"]: f["excluded_statements"] += 1
            if cm["rule"] == "phony": f["phony"] += 1
            if len(cm["outs"]) > 1: f["multi_output"] += 1
            if cm["imps"] or cm["oos"]: f["implicit_or_orderonly"] += 1
            if cm["up"] and cm["rule"] != "phony": f["rule_from_parent"] += 1
    return f

def run(pid, tier, seed):
    if pid != "C17": raise vlib.Infra("checks_c17 handles C17 only")
    t0 = time.time()
    b = vlib.build("hooks")
    llbuild = b + "/bin/llbuild"
    if not os.path.exists(llbuild): raise vlib.Infra("no llbuild binary at " + llbuild)
    wd = vlib.scratch("%s_%s" % (pid, tier))
    cases, info = enumerate_cases(tier, seed, wd)
    t1 = time.time()
    log("[C17] TLC: %d distinct manifest ASTs (%s) in %.0fs; all specification invariants hold" % (
        len(cases), ", ".join("%s %s" % (k, v.get("cases", v.get("new_cases"))) for k, v in info.items()), t1 - t0))
    driver = b + "/harness/ninja_load_driver"
    if not os.path.exists(driver): raise vlib.Infra("harness/ninja_load_driver was not built")
    jobs = make_jobs(cases, tier, seed, llbuild, wd, driver)
    results = run_jobs(jobs)
    t2 = time.time()
    errs = [r for r in results if r.get("error")]
    if errs: raise vlib.Infra("driver error in %d job(s), e.g. job %d: %s" % (len(errs), errs[0]["id"], errs[0]["error"]))
    # --- the specification against the reference implementation
    nin = [r for r in results if r["ran_ninja"]]
    specbad = [r for r in nin if r["specbad"]]
    ref_declined = sum(1 for r in nin if r.get("declined"))
    log("[C17] reference ninja agrees with the specification on %d of %d manifests (on %d of them it declined a statement with its false 'cycle in rule variables', as RefFalseCycle predicts)" % (len(nin) - len(specbad), len(nin), ref_declined))
    if specbad:
        r = specbad[0]
        p = vlib.save_replay(pid, "spec-mismatch", dict(property=pid, kind="spec-mismatch", what=r["specbad"], files=r.get("files"), case=jobs[r["id"]]["case"]))
        raise vlib.Infra("spec-mismatch: the reference ninja disagrees with spec/fn/NinjaEval.tla on %d of %d manifests (first: %s; see %s) - the specification must be corrected before any verdict is trusted" % (len(specbad), len(nin), r["specbad"][0], p))
    # --- the quoting matcher against the real shell: every accepted rendering of a path, read back by /bin/sh
    words = sorted({w for r in results for w in r["words"]})
    shbad = sh_selftest(words)
    if shbad: raise vlib.Infra("the sh-word matcher accepted a rendering that /bin/sh reads differently: %r" % (shbad[:3],))
    # --- verdicts
    groups = {}
    for r in results:
        for fp, text in r["bad"]:
            groups.setdefault(fp, []).append((r, text))
    violations = []
    for fp, items in sorted(groups.items()):
        ex = []
        seen = set()
        for r, text in items[:8]:
            if r["id"] in seen: continue
            seen.add(r["id"])
            j = jobs[r["id"]]
            ex.append(dict(what=text, vseed=j["vseed"], style=j["style"], case=j["case"], files=r.get("files"), stdout=r.get("stdout"), stderr=r.get("stderr")))
        path = vlib.save_replay(pid, "c17-%s" % "".join(ch if ch.isalnum() else "_" for ch in fp)[:60],
                                dict(property=pid, kind="c17", fingerprint=fp, count=len(items), examples=ex))
        violations.append(dict(replay=path, fingerprint=fp, what="%d manifest rendering(s) [%s], e.g. %s" % (len({r["id"] for r, _ in items}), fp, items[0][1][:400])))
    feats = feature_counts(cases)
    vf = dict(crlf=0, crlf_cont=0, high=0, cont=0)
    for r in results:
        for k in vf: vf[k] += 1 if r["features"][k] else 0
    nontriv = sum(1 for c in cases if any(cm["rule"] != "phony" and not cm["excl"] for cm in c["exp"]["cmds"]))
    states = sum(v["distinct"] or 0 for k, v in info.items() if k != "simulation")
    trans = sum(v["generated"] or 0 for k, v in info.items() if k != "simulation")
    acts = {}
    for k, v in info.items():
        for a, (taken, gen) in (v.get("actions") or {}).items():
            if a in ("Init", "Emit"): continue
            acts[a] = acts.get(a, 0) + taken
    never = [a for a, n in acts.items() if n == 0]
    if never: raise vlib.Infra("vacuity: specification action(s) %s never taken in any enumerated slice" % never)
    cov = dict(states=states, transitions=trans, simulation_states=info["simulation"]["generated"], families=info,
               programs=len(cases), evaluations=len(results), distinct_nontrivial=nontriv,
               rule="one program = one manifest AST (distinct statement lists per file) enumerated or sampled by TLC from spec/fn/NinjaEval.tla; one evaluation = one textual rendering loaded by `llbuild ninja load-manifest` and compared field by field; non-trivial = ASTs with at least one non-phony build statement whose rule variables are compared (not in the excluded re-binding class)",
               ast_features=feats, rendering_features=vf,
               quoted_words_read_back_by_sh=len(words),
               spec_vs_ninja=dict(manifests=len(nin), agree=len(nin) - len(specbad), reference_declined_false_cycle=ref_declined, swapped=sum(1 for j in jobs if j.get("swap"))),
               tlc_actions=acts,
               wall=dict(tlc=round(t1 - t0, 1), run=round(t2 - t1, 1)),
               samples=[dict(ast=c["ast"]) for c in cases[:1]])
    log("[C17] %d renderings of %d ASTs loaded (%d with CRLF, %d with high bytes, %d with continuations); %d violation class(es) in %.0fs" % (
        len(results), len(cases), vf["crlf"], vf["high"], vf["cont"], len(violations), t2 - t1))
    shutil.rmtree(wd, ignore_errors=True) if not violations else None
    return dict(level="translation_validation", coverage=cov, violations=violations,
                assumptions=["manifests are drawn from the bounded family of spec/fn/NinjaEval.tla (<=2 rules, <=2 build statements, <=3 file-level bindings, <=3 build-level and <=4 rule-level bindings, references nested <=2, <=2 include/subninja files); statements where a file-level variable is re-bound after a build statement that reads it through a rule variable are not compared (property's exclusion)",
                             "lexical matters (token boundaries, keywords, comments) and the shell-quoting function itself are decided by fn/NinjaLex and fn/ShellQuote; here path lists are compared modulo quoting style",
                             "rspfile / rspfile_content are not printed by `load-manifest`; they are read from the loaded manifest in-process (harness/ninja_load_driver)"])

def replay(pid, path):
    obj = json.load(open(path))
    if obj.get("kind") != "c17":
        print(json.dumps(obj, indent=1)[:3000]); return 2
    b = vlib.build("hooks"); llbuild = b + "/bin/llbuild"
    wd = vlib.scratch("%s_replay" % pid)
    still = 0
    for i, ex in enumerate(obj["examples"]):
        r = do_chunk([dict(id=i, case=ex["case"], vseed=ex["vseed"], style=ex["style"], llbuild=llbuild, wd=wd, ninja=False, swap=None, driver=b + "/harness/ninja_load_driver")])[0]
        hit = [t for fp, t in r["bad"] if fp == obj["fingerprint"]]
        if hit:
            still += 1
            if still == 1:
                for name, data in (r.get("files") or {}).items(): print("--- %s\n%s" % (name, data))
                print(hit[0])
    if still:
        print("VIOLATION property=%s replay=%s  (%d of %d stored examples still fail) [%s]" % (pid, path, still, len(obj["examples"]), obj["fingerprint"]))
        return 1
    print("no stored example of [%s] fails any more" % obj["fingerprint"]); return 0

if __name__ == "__main__":
    tier = sys.argv[1] if len(sys.argv) > 1 else "quick"
    seed = int(sys.argv[2]) if len(sys.argv) > 2 else 1
    try:
        res = run("C17", tier, seed)
    except vlib.Infra as e:
        print("INFRASTRUCTURE FAILURE:", e); sys.exit(2)
    print(json.dumps(dict(coverage=res["coverage"], violations=res["violations"]), indent=1, default=str)[:6000])
    sys.exit(1 if res["violations"] else 0)
