#!/usr/bin/env python3
"""Check for property C18 (Ninja builds converge to the clean-build state and do no unnecessary work).

(a) TLC model checking of spec/NinjaBuild.tla (harness spec/NinjaBuildMC.tla) on a bounded family of
    manifests x histories: the six property invariants hold in the specification;
(b) tools/ninja_driver.py realises hand-written scenario histories and seeded random
    (manifest, history, options) cases in private sandboxes and runs the real `llbuild ninja build`
    (--jobs 1 / 4, with database / --no-db, -k 1 / 0) for every build step;
(c) every recorded execution is validated against the specification (spec/NinjaBuildTrace.tla) in
    parallel TLC JVMs: each observed command execution / non-execution / exit status / file content /
    database row must be a step of the specification, and the property invariants are evaluated in
    every state of the validated behaviour.  The reference `ninja` is only used as a second opinion on
    the specification's clean-build oracle (CleanCheck lines)."""
import json, os, random, sys, time, threading, copy
sys.path.insert(0, os.path.dirname(os.path.abspath(__file__)))
import vlib, ninja_driver
from vlib import log

MC = {"quick": ("MC_C18_quick.cfg", 600), "thorough": ("MC_C18_thorough.cfg", 2400)}
N_RANDOM = {"quick": 240, "thorough": 2500}
BATCH = 30
MODULE, CFG = "NinjaBuildTrace.tla", "NinjaBuildTrace.cfg"

def model_check(tier):
    cfg, tmo = MC[tier]
    t0 = time.time()
    rc, out = vlib.tlc("NinjaBuildMC.tla", cfg, workers=max(4, vlib.NCPU // 2) if tier == "quick" else vlib.NCPU,
                       heap="-Xmx16g", timeout=tmo, extra=("-coverage", "1") if tier == "thorough" else ())
    p = vlib.parse_tlc(out)
    if p["error"] or (p["distinct"] is None and not p["violated"] and rc != 124):
        raise vlib.Infra("model checking %s failed: %s\n%s" % (cfg, p["error"], out[-3000:]))
    p["wall"] = time.time() - t0; p["out"] = out; p["rc"] = rc; p["cfg"] = cfg
    p["actions"] = vlib.coverage_actions(out)
    return p

def vacuity(tier):
    """every witness predicate W_x of NinjaBuildMC.tla (an action / situation the properties depend on) must be
    reachable: one short TLC run per witness, each must report W_x violated"""
    import re
    base = [l for l in open(vlib.SPEC + "/MC_C18_vacuity.cfg").read().split("\n") if not l.startswith("INVARIANT")]
    ws = re.findall(r"^(W_\w+)\s*==", open(vlib.SPEC + "/NinjaBuildMC.tla").read(), re.M)
    def one(w):
        cfg = os.path.join(vlib.SPEC, ".vac_%s_%d.cfg" % (w, os.getpid()))
        open(cfg, "w").write("\n".join(base) + "\nINVARIANT %s\n" % w)
        try:
            rc, out = vlib.tlc("NinjaBuildMC.tla", os.path.basename(cfg), workers=2, timeout=1800, heap="-Xmx4g")
        finally:
            os.unlink(cfg)
        p = vlib.parse_tlc(out)
        if p["error"]: raise vlib.Infra("vacuity run %s failed: %s" % (w, p["error"]))
        return w, p["violated"] == w
    return dict(vlib.parallel(one, ws, n=8))

def nontrivial(lines):
    """incremental machinery exercised: in some build after the first, a command ran while another command
    that had run before did not"""
    ran_before = set(); builds = 0; cur = None; ok = False
    for ln in lines:
        if ln.startswith('{"e":"Build"'):
            builds += 1; cur = set()
        elif ln.startswith('{"e":"Exec"'):
            cur.add(json.loads(ln)["c"])
        elif ln.startswith('{"e":"BuildEnd"'):
            if builds > 1 and cur and (ran_before - cur): ok = True
            ran_before |= cur or set()
    return ok

def signature(case):
    c = copy.deepcopy(case); c.pop("id", None)
    return json.dumps(c, sort_keys=True)

def run_cases(cases, llbuild, wd, reference=2):
    def one(c):
        try:
            return ninja_driver.run_case(c, llbuild, wd, reference=reference)
        except Exception as e:
            raise vlib.Infra("driver failed on case %s: %r" % (c["id"], e))
    return vlib.parallel(one, cases)

FP = {"D1": "C18-D1-phony-alias-always-dirty", "D2": "C18-D2-declared-input-not-in-signature",
      "D3": "C18-D3-failed-generator-not-retried", "D4": "C18-D4-phony-alias-hides-failed-input",
      "D5": "C18-D5-input-rule-key-screen-path"}
SCENARIO_FP = {"_alias_fail_": "D4", "_alias_": "D1", "_declare_later_": "D2", "_oo_edit_": "D2", "_gen_fail_": "D3",
               "_lookup_by_name_": "D5"}

def classify(case, rej):
    """stable id of the failing class for the five defects found on the unchanged tree (None = anything else).
    Decided from the observed build.db rows of the rejected build (signatures of the unfixed behaviour), with the
    scenario name as a shortcut for the hand-written scenarios."""
    try:
        cid = (case or {}).get("id", "")
        for pat, d in SCENARIO_FP.items():
            if pat in cid: return FP[d]
        lines = rej["lines"][:rej["at"] + 1]
        evs = [json.loads(l) for l in lines]
        ends = [e for e in evs if e.get("e") == "BuildEnd"]
        # the BuildEnd of the rejected build may not be in the excerpt when an Exec line was rejected
        full = [json.loads(l) for l in rej["lines"]]
        i = rej["at"] - 1
        while i < len(full) and full[i].get("e") != "BuildEnd": i += 1
        cur = full[i] if i < len(full) else None
        prev = None
        for e in full[:max(0, i)]:
            if e.get("e") == "BuildEnd": prev = e
        mf = None
        for e in full[:i + 1]:
            if e.get("e") in ("Reset", "Manifest"): mf = e["mf"]
        if not cur or not mf: return None
        rows = {r["k"]: r for r in cur.get("db", [])}
        prows = {r["k"]: r for r in (prev or {}).get("db", [])}
        cmds = mf["cmds"]
        # D4 / D1: the row of a phony alias
        for n, c in cmds.items():
            if not c["phony"]: continue
            r = rows.get(c["outs"][0])
            if r and r["kind"] == "success":
                if any(rows.get(p, {}).get("kind") in ("failed", "skipped") for p in c["ins"]): return FP["D4"]
                if r["infos"] and not r["infos"][0]["ex"] and any(rows.get(p, {}).get("kind") == "success" for p in c["ins"]): return FP["D1"]
        # D3: a generator command went from failed to success without an execution
        execd = set()
        j = i - 1
        while j >= 0 and full[j].get("e") == "Exec": execd.add(full[j]["c"]); j -= 1
        for n, c in cmds.items():
            k = c["outs"][0] if len(c["outs"]) == 1 else n
            if c["gen"] and c["fail"] != "none" and prows.get(k, {}).get("kind") == "failed" and rows.get(k, {}).get("kind") == "success" and n not in execd:
                return FP["D3"]
        # D5: an unchanged source was recomputed
        for k, r in rows.items():
            pr = prows.get(k)
            if pr and r["kind"] == "existing" and pr["kind"] == "existing" and r["infos"] == pr["infos"] and r["built"] != pr["built"] and r["built"] == r["computed"]:
                return FP["D5"]
        # D2: the declared inputs of a command changed (command line unchanged) and the command did not run
        mfs = [e["mf"] for e in full[:i + 1] if e.get("e") in ("Reset", "Manifest")]
        for a, bb in zip(mfs, mfs[1:]):
            for n in bb["cmds"]:
                ca, cb = a["cmds"].get(n), bb["cmds"][n]
                # an input was ADDED or REMOVED (a mere move between the sections is not this class)
                if ca and sorted(ca["imp"] + ca["oo"]) != sorted(cb["imp"] + cb["oo"]) and ca["ins"] == cb["ins"] and ca["ver"] == cb["ver"] and not cb["gen"]:
                    return FP["D2"]
    except Exception:
        return None
    return None

def validate(pid, seed, wd, cases, execs, tag, batch=BATCH, max_rejects=4):
    byid = {c["id"]: c for c in cases}
    batches = [execs[i:i + batch] for i in range(0, len(execs), batch)]
    def val(ib):
        i, ch = ib
        return vlib.validate_executions(ch, wd, "%s%d" % (tag, i), module=MODULE, cfg=CFG, max_rejects=max_rejects)
    acc = 0; states = 0; events = 0; viol = []
    for bi, (a, rej, st, evs) in enumerate(vlib.parallel(val, list(enumerate(batches)))):
        acc += a; states += st; events += evs
        for j, r in enumerate(rej):
            try: cid = json.loads(r["lines"][0]).get("id")
            except Exception: cid = None
            what = "%s; first unmatched/violating line %d of case %s: %s" % (r["reason"], r["at"], cid, (r["event"] or "")[:220])
            path = vlib.save_replay(pid, "ninja-trace-%d-%s" % (seed, cid or ("%s%d_%d" % (tag, bi, j))),
                                    dict(property=pid, kind="ninja-trace", reason=r["reason"], at=r["at"], event=r["event"][:2000],
                                         case=byid.get(cid), trace=r["lines"][:r["at"] + 2]))
            viol.append(dict(replay=path, what=what, fingerprint=classify(byid.get(cid), r)))
    return acc, states, events, viol

def run(pid, tier, seed):
    t0 = time.time()
    b = vlib.build("hooks")
    llbuild = b + "/bin/llbuild"
    wd = vlib.scratch("%s_%s" % (pid, tier))
    violations = []
    # (a) model checking, concurrently with the sandbox runs
    mcres = {}
    def mc():
        try: mcres["r"] = model_check(tier)
        except Exception as e: mcres["e"] = e
    th = threading.Thread(target=mc); th.start()
    # (b) sandboxes
    rng = random.Random(seed * 1000003 + 18)
    cases = ninja_driver.scenario_cases("sc%d" % seed)
    cases += [ninja_driver.gen_case(rng, "r%d_%d" % (seed, i)) for i in range(N_RANDOM[tier])]
    t1 = time.time()
    execs = run_cases(cases, llbuild, wd)
    t_run = time.time() - t1
    builds = sum(1 for ex in execs for ln in ex if ln.startswith('{"e":"Build"'))
    commands = sum(1 for ex in execs for ln in ex if ln.startswith('{"e":"Exec"'))
    refchecks = sum(1 for ex in execs for ln in ex if ln.startswith('{"e":"CleanCheck"'))
    nt = set(signature(c) for c, ex in zip(cases, execs) if nontrivial(ex))
    log("[%s] %d cases, %d builds, %d command executions, %d reference-ninja clean builds in %.0fs" % (pid, len(cases), builds, commands, refchecks, t_run))
    # (c) trace validation
    t2 = time.time()
    nsc = sum(1 for c in cases if c["id"].startswith("sc"))       # scenarios first, in small batches: one rejection per defect class
    acc, states, events, viol = validate(pid, seed, wd, cases, execs[:nsc], "s", batch=6, max_rejects=6)
    acc2, states2, events2, viol2 = validate(pid, seed, wd, cases, execs[nsc:], "b")
    acc += acc2; states += states2; events += events2; viol += viol2
    violations += viol
    log("[%s] traces: %d executions, %d accepted, %d events, %d rejections, %.0fs" % (pid, len(execs), acc, events, len(viol), time.time() - t2))
    th.join()
    if "e" in mcres: raise mcres["e"]
    mc_ = mcres["r"]
    if mc_["violated"]:
        tr = os.path.join(vlib.REPLAY, pid); os.makedirs(tr, exist_ok=True)
        p = os.path.join(tr, "tlc-counterexample-%s.txt" % tier); open(p, "w").write(mc_["out"][-300000:])
        violations.append(dict(replay=p, what="TLC: invariant %s violated in the specification (%s)" % (mc_["violated"], mc_["cfg"]), fingerprint=None))
    log("[%s] model checking %s: %s distinct states, %s generated, depth %s, %.0fs%s" %
        (pid, mc_["cfg"], mc_["distinct"], mc_["states"], mc_["depth"], mc_["wall"], " (TIMEOUT: partial)" if mc_["rc"] == 124 else ""))
    sample = execs[0][1:30] if execs else []
    cov = dict(states=mc_["distinct"] or 0, transitions=mc_["states"] or 0, tlc_config=mc_["cfg"], tlc_depth=mc_["depth"],
               tlc_wall_s=round(mc_["wall"], 1), exhaustive=mc_["rc"] != 124,
               traces_validated_against_impl=acc, executions=len(execs), evaluations=events, trace_states=states,
               builds=builds, command_executions=commands, reference_ninja_clean_builds=refchecks,
               distinct_nontrivial=len(nt),
               rule="cases = hand-written scenario histories (one per rule of the table, x {db,--no-db} x {--jobs 1,4}) + seeded random "
                    "(manifest, history, options) triples from tools/ninja_driver.py; distinct = canonical JSON of (manifest, history, options); "
                    "non-trivial = in some build after the first a command ran while a command that ran earlier did not",
               samples=[dict(kind="implementation trace (first events of the first scenario)", events=[s[:400] for s in sample])])
    if mc_["actions"]: cov["tlc_action_coverage"] = {k: v[0] for k, v in mc_["actions"].items()}
    if tier == "thorough":
        vac = vacuity(tier)
        cov["vacuity_witnesses_reached"] = sorted(w for w, ok in vac.items() if ok)
        cov["vacuity_witnesses_unreached"] = sorted(w for w, ok in vac.items() if not ok)
        log("[%s] vacuity: %d/%d witnesses reached%s" % (pid, sum(vac.values()), len(vac),
            "" if all(vac.values()) else " UNREACHED: %s" % cov["vacuity_witnesses_unreached"]))
    return dict(level="model_checking", coverage=cov, violations=violations,
                assumptions=["generated commands are deterministic functions of their command line and of the files they read (tools/ninja_driver.py run.sh)",
                             "edits are observable: every write gets a strictly larger mtime (logical clock); back-dated edits and edits that keep size+mtime are outside the property",
                             "every read of a generated command is a declared input, or reported in its depfile and ordered after its producer (race-free manifests)",
                             "TLC explores the manifest family and history bounds of %s exhaustively under the canonical schedule; other manifests, --jobs 4 and -k 0 only through validated implementation traces" % mc_["cfg"],
                             "externally overwritten outputs that are newer than their inputs are kept by design (Ninja's mtime semantics); the clean-output clause excludes them"])

def replay(pid, path):
    obj = json.load(open(path))
    if not obj.get("case"):
        print("replay file has no case; excerpt:"); print(open(path).read()[:3000]); return 1
    b = vlib.build("hooks")
    wd = vlib.scratch("replay_c18")
    ex = ninja_driver.run_case(obj["case"], b + "/bin/llbuild", wd)
    acc, rej, st, ev = vlib.validate_executions([ex], wd, "replay", module=MODULE, cfg=CFG)
    if not rej:
        print("replay: trace accepted (%d events) - the violation does not reproduce" % ev); return 0
    for r in rej:
        print("replay: REJECTED - %s at line %d: %s" % (r["reason"], r["at"], r["event"][:400]))
        for ln in r["lines"][max(0, r["at"] - 8):r["at"]]: print("    ", ln[:300])
    print("VIOLATION property=%s replay=%s" % (pid, path))
    return 1
