#!/usr/bin/env python3
"""C19 "No input file can crash, hang or over-read a parser"  (and, callable separately, the lexer and
shell-quoting parts of C17).

Decided by (DESIGN.md sections 6, 7): the NoReadPastEnd / Tiling / EOFOnlyAtEnd / RoundTrip / MalformedReported /
OperandsWithinBuffer / BadInputIsError invariants of the transcribed parsers (spec/fn/NinjaLex, MakeDeps, DepInfo,
BuildFileShape; TLC, bounded-exhaustive over format-special alphabets) and replay of every enumerated input - plus
generator-produced grammar mutations of valid manifests / dependency files - through the real parsers in exact-size
heap buffers (harness/parse_driver): comparison with the specification on the plain build, memory safety and hangs on
the ASan+UBSan build with a per-input CPU alarm.   level: exploration (bounded-exhaustive)."""
import json, os, sys, time
sys.path.insert(0, os.path.dirname(os.path.abspath(__file__)))
import vlib, checks_parsers as cp
from vlib import log

def pack(pid, bad, maxrep=16):
    """mismatch records -> violation dicts, one replay file per fingerprint class"""
    groups = {}
    for b in bad: groups.setdefault(b.get("fingerprint") or b["kind"], []).append(b)
    out = []
    for fp, items in list(groups.items())[:maxrep]:
        items.sort(key=lambda b: len(b.get("input", "")))            # shortest failing inputs first
        cases = [dict(family=b.get("family"), case=b.get("case"), what=b["what"][:600], build=b.get("build")) for b in items[:20]]
        name = "fn-" + "".join(ch if ch.isalnum() else "_" for ch in fp)[:70]
        path = vlib.save_replay(pid, name, dict(property=pid, kind="parsers", fingerprint=fp, count=len(items), cases=cases))
        out.append(dict(replay=path, what="%d case(s) [%s], e.g. %s" % (len(items), fp, items[0]["what"][:500]), fingerprint=fp))
    return out

def drivers():
    plain = vlib.build("hooks") + "/harness/" + cp.DRIVER
    asan = vlib.build("asan") + "/harness/" + cp.DRIVER
    for b in (plain, asan):
        if not os.path.exists(b): raise vlib.Infra("driver %s was not built" % b)
    return plain, asan

C19_PARTS = [
    ("lexer", lambda tier, b, a, seed: cp.lexer_cases(tier, b, asan=a)),
    ("makedeps", lambda tier, b, a, seed: cp.makedeps_cases(tier, b, asan=a)),
    ("depinfo", lambda tier, b, a, seed: cp.depinfo_cases(tier, b, asan=a)),
    ("mutations", lambda tier, b, a, seed: cp.manifest_mutation_cases(tier, b, asan=a, seed=seed)),
    ("buildfile", lambda tier, b, a, seed: cp.buildfile_cases(tier, b, asan=a)),
]
C17_PARTS = [
    ("lexer-keywords-highbytes", lambda tier, b, a, seed: cp.lexer_keyword_highbyte_cases(tier, b, asan=a)),
    ("shellquote", lambda tier, b, a, seed: cp.shellquote_cases(tier, b, asan=a)),
]

def run_parts(pid, parts, tier, seed):
    plain, asan = drivers()
    bad = []; cov = dict(parts={}, states=0, transitions=0, evaluations=0, distinct_nontrivial=0, samples=[])
    for name, fn in parts:
        t0 = time.time()
        cases, mism, p = fn(tier, plain, asan, seed)
        dt = time.time() - t0
        log("[%s] %-26s %8d inputs (%d non-trivial) replayed on the plain and asan builds, TLC %s distinct states, %d mismatch(es), %.0fs"
            % (pid, name, len(cases), cases.nontrivial, p.get("distinct"), len(mism), dt))
        cov["parts"][name] = dict(inputs=len(cases), nontrivial=cases.nontrivial, classes=cases.by, tlc_distinct=p.get("distinct"), tlc_runs=p.get("runs", 1),
                                  spec_invariant_violated=p.get("violated"), mismatches=len(mism), wall_s=round(dt, 1))
        cov["states"] += p.get("distinct") or 0; cov["transitions"] += p.get("states") or 0
        cov["evaluations"] += 2 * len(cases); cov["distinct_nontrivial"] += cases.nontrivial
        cov["samples"] += ["%s: %s" % (name, json.dumps(s, separators=(",", ":"), default=str)[:300]) for s in cases.samples[:2]]
        bad += mism
    cov["traces_validated_against_impl"] = cov["evaluations"]
    cov["exhaustive"] = True
    return bad, cov

def run(pid, tier, seed):
    if pid == "C19":
        bad, cov = run_parts(pid, C19_PARTS, tier, seed)
        cov["rule"] = ("every input is one enumerated byte string (TLC: all strings up to the length bound over the format-special alphabet of each parser, "
                       "keyword spellings +-1 character, rendered rule lists, YAML shapes) or one grammar mutant of a valid file, replayed through the real parser "
                       "in an exact-size heap buffer on the plain build (result compared with the specification's: token lists exactly; callback sequences exactly "
                       "for inputs in the documented format, 'an error is reported' for malformed ones, nothing for inputs the format leaves open) and on the "
                       "ASan+UBSan build (no report, no crash, no CPU-alarm); non-trivial = lexer inputs with more than one token before EOF, dependency files that "
                       "produce at least one callback, well-formed dependency-info files, mutants that produce an error callback, YAML shapes whose verdict is 'error'")
        return dict(level="exploration", coverage=cov, violations=pack(pid, bad),
                    assumptions=["bounded-exhaustive: byte strings up to the stated lengths over the stated format-special alphabets, single-edit (and seeded multi-edit) mutants of 5 manifests, 2 dependency files and 1 dependency-info file; no coverage-guided search beyond that",
                                 "the YAML text itself is parsed by llvm::yaml on a NUL-terminated copy (the property quantifies over well-formed YAML documents, not over bytes, for the build description)",
                                 "include/subninja files are served from memory: 'inc.ninja' when the case provides it, every other path 'does not exist'"])
    if pid == "C17":
        bad, cov = run_parts(pid, C17_PARTS, tier, seed)
        cov["rule"] = "function-level parts of C17 only: keywords as whole words, bytes 0x80-0xFF ordinary (NinjaLex.tla), shell quoting round trip judged by /bin/sh (ShellQuote.tla)"
        return dict(level="translation_validation", coverage=cov, violations=pack(pid, bad), assumptions=["partial: the evaluation rules of C17 (NinjaEval) are checked elsewhere"])
    raise vlib.Infra("checks_c19 has no check for " + pid)

def replay(pid, path):
    obj = json.load(open(path))
    plain, asan = drivers()
    by = {}
    for c in obj.get("cases", []):
        if c.get("family") and c.get("case") is not None: by.setdefault(c["family"], []).append(c["case"])
    found = []
    for fam, cases in by.items(): found += cp.recheck(fam, cases, plain, asan)
    print("replay of %s [%s]: %d stored case(s), %d mismatch(es) now" % (pid, obj.get("fingerprint"), sum(len(v) for v in by.values()), len(found)))
    for b in found[:10]: print("  ", b["what"][:700])
    if found:
        print("VIOLATION property=%s replay=%s" % (pid, path)); return 1
    print("no longer reproduces"); return 0
