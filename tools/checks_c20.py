#!/usr/bin/env python3
"""C20: every history is driven once through the C++ interface (engine_driver) and once through the
libllbuild C interface (engine_driver_capi).  The C trace is validated against Engine.tla
(EngineTraceC.tla: events the C interface cannot express are inferred by TLC) and compared event by
event with the projection of the C++ trace onto the C-observable vocabulary."""
import json, os, random, sys, time, copy
sys.path.insert(0, os.path.dirname(os.path.abspath(__file__)))
import vlib, enginegen, engine_check, checks_engine
from vlib import log

C_EVENTS = ("Reset", "Engine", "Attach", "Mutate", "Build", "Top", "Status", "Valid", "Create", "Start", "Provide", "Avail",
            "Disc", "Complete", "Cycle", "Return", "Snapshot", "End")

def project(lines):
    out = []
    for ln in lines:
        d = json.loads(ln)
        if d["e"] not in C_EVENTS: continue
        if d["e"] == "Return": d = {k: d[k] for k in ("e", "v", "cycle", "error")}
        if d["e"] == "Build": d = {k: d[k] for k in ("e", "k")}
        out.append(json.dumps(d, sort_keys=True))
    return out

def gen(rng, cid, wd, tag):
    cb = enginegen.gen_case(rng, cid, dbdir=wd, modes=("sync", "det"), cancel_p=0.0, restart_p=0.2, sigchange_p=0, rewire_p=0,
                            allow=("follow", "dyn", "disc", "force", "invalid", "out"), db_p=0.6, adversarial=(rng.random() < 0.3),
                            cyclic=(rng.random() < 0.15), repeat_p=0.2)
    return cb

def to_c(text):   # the C interface has no rule signatures: every rule carries the default signature 0
    return text.replace('"sig":1', '"sig":0').replace(' sig=1 ', ' sig=0 ')

def run(pid, tier, seed):
    b = vlib.build("hooks")
    wd = vlib.scratch("C20_%s" % tier)
    rng = random.Random(seed * 2654435761 % (1 << 31) + 20)
    n = 900 if tier == "quick" else 20000
    cases = [gen(rng, "x%d_%d" % (seed, i), wd, "") for i in range(n)]
    violations = []
    batches = [cases[i:i + 50] for i in range(0, n, 50)]
    def one(ib):
        i, bs = ib
        res = dict(acc=0, rej=[], diffs=[], states=0, events=0, execs=0, sample=None, nontrivial=set())
        texts = {}
        for api in ("cxx", "c"):
            d = os.path.join(wd, "b%d_%s" % (i, api)); os.makedirs(d, exist_ok=True)
            cf = d + "/c.cases"
            with open(cf, "w") as f:
                for c in bs: f.write(to_c(c.text()).replace(wd + "/", d + "/"))
            binary = b + "/harness/" + ("engine_driver" if api == "cxx" else "engine_driver_capi")
            rc, err = engine_check.run_driver(binary, cf, d + "/t.trace")
            lines = engine_check.read_trace(d + "/t.trace")
            texts[api] = (rc, vlib.split_executions(lines))
        rc_c, ex_c = texts["c"]; rc_x, ex_x = texts["cxx"]
        # (1) the C trace is a behaviour of Engine.tla
        acc, rej, st, evs = vlib.validate_executions(ex_c, wd, "c20_%d" % i, "EngineTraceC.tla", "EngineTraceC.cfg")
        byid = {c.cid: c for c in bs}
        for r in rej:
            try: cid = json.loads(r["lines"][0]).get("id")
            except Exception: cid = None
            r["case"] = to_c(byid[cid].text()) if cid in byid else None; r["cid"] = cid
        res.update(acc=acc, rej=rej, states=st, events=evs, execs=len(ex_c))
        if rc_c != 0 and not rej:
            res["rej"].append(dict(lines=ex_c[-1] if ex_c else [], reason="C driver exit %d" % rc_c, at=0, event="", case=None, cid=None, violated=None))
        # (2) event-by-event twin comparison
        for c, a, x in zip(bs, ex_c, ex_x):
            pa, px = project(a), project(x)
            if pa != px:
                k = next((j for j in range(min(len(pa), len(px))) if pa[j] != px[j]), min(len(pa), len(px)))
                res["diffs"].append(dict(cid=c.cid, at=k, c=pa[max(0, k - 5):k + 2], cxx=px[max(0, k - 5):k + 2], case=to_c(c.text())))
            if engine_check.nontrivial(a): res["nontrivial"].add(c.signature())
        if i == 0 and ex_c: res["sample"] = ex_c[0][:40]
        return res
    results = vlib.parallel(one, list(enumerate(batches)))
    acc = sum(r["acc"] for r in results); states = sum(r["states"] for r in results); events = sum(r["events"] for r in results)
    execs = sum(r["execs"] for r in results); nt = set().union(*[r["nontrivial"] for r in results])
    j = 0
    for r in results:
        for rej in r["rej"]:
            violations.append(checks_engine.mk_violation(pid, seed, j, rej, "capi-trace")); j += 1
        for d in r["diffs"][:3]:
            p = vlib.save_replay(pid, "capi-diff-%d-%s" % (seed, d["cid"]), dict(property=pid, kind="capi-twin", **d))
            violations.append(dict(replay=p, what="C and C++ interfaces observe different events at position %d: C %s / C++ %s" % (d["at"], d["c"][-1:] , d["cxx"][-1:]), fingerprint=None)); j += 1
    sample = next((r["sample"] for r in results if r["sample"]), [])
    log("[C20] %d histories through both interfaces: %d C traces accepted, %d rejections, %d event-sequence differences" % (execs, acc, sum(len(r["rej"]) for r in results), sum(len(r["diffs"]) for r in results)))
    cov = dict(states=max(states, 1), transitions=max(states, 1), traces_validated_against_impl=acc, samples=[dict(kind="C interface trace (first 40 events)", events=sample)],
               evaluations=events, distinct_nontrivial=len(nt),
               rule="cases = seeded random (program, history, schedule) triples restricted to what core.h can express (no signatures, single-use, prior value, cancellation); distinct = canonical hash of (program, history); non-trivial as for C01",
               twin_pairs_compared=execs, trace_spec="EngineTraceC.tla (TLC infers NeedsRun/PriorValue/setRuleResult/setCurrentIteration)",
               note="states/transitions here are the states TLC visited while validating the C traces; the exhaustive model checking of Engine.tla itself is reported under C01-C07")
    return dict(level="model_checking", coverage=cov, violations=violations,
                assumptions=["both drivers interpret the same program records (shared harness/driver_common.h)",
                             "the database read-back (Snapshot) uses the C++ BuildDB interface as an independent observer"])

def replay(pid, path):
    obj = json.load(open(path)); print(json.dumps({k: obj[k] for k in obj if k not in ("trace", "case")}, indent=1)[:3000])
    if obj.get("case"):
        b = vlib.build("hooks"); wd = vlib.scratch("replay20")
        open(wd + "/c.cases", "w").write(obj["case"])
        for api, binary in (("c", "engine_driver_capi"), ("cxx", "engine_driver")):
            engine_check.run_driver(b + "/harness/" + binary, wd + "/c.cases", wd + "/%s.trace" % api)
        pa = project(engine_check.read_trace(wd + "/c.trace")); px = project(engine_check.read_trace(wd + "/cxx.trace"))
        acc, rej, st, ev = vlib.validate_executions(vlib.split_executions(engine_check.read_trace(wd + "/c.trace")), wd, "r", "EngineTraceC.tla", "EngineTraceC.cfg")
        if pa == px and not rej: print("replay: no difference and trace accepted - does not reproduce"); return 0
        for r in rej: print("rejected:", r["reason"], r["at"], r["event"][:200])
    print("VIOLATION property=%s replay=%s" % (pid, path)); return 1
