#!/usr/bin/env python3
"""Checks for the engine-level properties C01-C07 (C20 reuses them through the C API driver).

Each check = (a) TLC model checking of Engine.tla on a configuration focused on the
property, (b) executions of the real engine (harness/engine_driver) over generated
programs x histories x schedules, every recorded trace validated against Engine.tla
(EngineTrace.tla) with all invariants evaluated in every state, (c) property-specific
cross-run comparisons (restart twins for C03, schedule enumeration for C06)."""
import json, os, random, re, subprocess, sys, time, copy
sys.path.insert(0, os.path.dirname(os.path.abspath(__file__)))
import vlib, enginegen, engine_check
from vlib import log

# ----------------------------------------------------------------------------- model checking configs
MC = {  # pid -> tier -> (cfg, module, simulate-spec or None, timeout)
    "C01": {"quick": ("MC_C01_quick.cfg", "MC_core.tla"), "thorough": ("MC_C01_thorough.cfg", "MC_core.tla")},
    "C02": {"quick": ("MC_C02_quick.cfg", "MC_core.tla"), "thorough": ("MC_C02_thorough.cfg", "MC_core.tla")},
    "C03": {"quick": ("MC_C03_quick.cfg", "MC_core.tla"), "thorough": ("MC_C03_thorough.cfg", "MC_core.tla")},
    "C05": {"quick": ("MC_C05_quick.cfg", "MC_core.tla"), "thorough": ("MC_C05_thorough.cfg", "MC_core.tla")},
    "C06": {"quick": ("MC_C06_quick.cfg", "MC_core.tla"), "thorough": ("MC_C06_thorough.cfg", "MC_core.tla")},
    "C07": {"quick": ("MC_C07_quick.cfg", "MC_cyc.tla"), "thorough": ("MC_C07_thorough.cfg", "MC_cyc.tla")},
}

N_CASES = {"quick": 1600, "thorough": 8000}

def gen_cases(pid, tier, seed, wd):
    rng = random.Random(seed * 1000003 + int(pid[1:]))
    n = N_CASES[tier]
    cases = []
    for i in range(n):
        cid = "%s_%d_%d" % (pid, seed, i)
        if pid == "C01":
            c = enginegen.gen_case(rng, cid, dbdir=wd, cancel_p=0.15, restart_p=0.25, rewire_p=0.25, db_p=0.6, verify=True)
        elif pid == "C02":
            c = enginegen.gen_case(rng, cid, dbdir=wd, cancel_p=0.1, restart_p=0.12, db_p=0.4, nsteps=(4, 9), repeat_p=0.35)
        elif pid == "C03":
            c = enginegen.gen_case(rng, cid, dbdir=wd, cancel_p=0.1, restart_p=0.35, db_p=1.0, adversarial=True, ver_p=0.2)
        elif pid == "C05" and i % 8 == 6:
            c = enginegen.gen_waiting_cancel_case(rng, cid, dbdir=wd)
        elif pid == "C05" and i % 8 == 7:
            c = enginegen.gen_stranded_case(rng, cid, dbdir=wd)
        elif pid == "C05":
            c = enginegen.gen_case(rng, cid, dbdir=wd, cancel_p=0.55, restart_p=0.2, db_p=0.5, verify=True)
        elif pid == "C06":
            c = enginegen.gen_case(rng, cid, dbdir=None, modes=("det",), cancel_p=0.1, restart_p=0.05)
        elif pid == "C07" and i % 6 == 5:
            c = enginegen.gen_cycle_back_case(rng, cid, dbdir=wd)
        elif pid == "C07" and i % 6 == 4:
            c = enginegen.gen_disc_cycle_case(rng, cid, dbdir=wd)
        elif pid == "C07":
            c = enginegen.gen_case(rng, cid, dbdir=wd, cyclic=(rng.random() < 0.5), rewire_cyclic=True, cancel_p=0.05,
                                   restart_p=0.35, rewire_p=0.6, sigchange_p=0.1, db_p=0.5)
        else:
            raise vlib.Infra("no generator for " + pid)
        cases.append(c)
    return cases

def mk_violation(pid, seed, idx, rej, kind="engine-trace"):
    what = "%s; first unmatched/violating line %d: %s" % (rej["reason"], rej["at"], (rej["event"] or "")[:200])
    path = vlib.save_replay(pid, "%s-%d-%d" % (kind, seed, idx),
                            dict(property=pid, kind=kind, reason=rej["reason"], at=rej["at"], event=rej["event"],
                                 case=rej.get("case"), trace=rej["lines"][:max(rej["at"] + 3, 5)]))
    return dict(replay=path, what=what, fingerprint=None)

# ----------------------------------------------------------------------------- C03: restart twins
def outcomes(ex_lines):
    """per build: (executed set, returned value, flags)"""
    res = []; cur = None
    for ln in ex_lines:
        if ln.startswith('{"e":"Build"'): cur = set()
        elif ln.startswith('{"e":"Create"') and cur is not None: cur.add(json.loads(ln)["k"])
        elif ln.startswith('{"e":"Return"'):
            d = json.loads(ln); res.append((tuple(sorted(cur or ())), d["v"], d["cancelled"], d["cycle"])); cur = None
    return res

def twin_cases(pid, tier, seed, wd):
    """history H executed (A) in one engine with the database attached and (B) with an engine+database
    restart inserted before every build"""
    rng = random.Random(seed * 7919 + 3)
    n = 300 if tier == "quick" else 6000
    pairs = []
    for i in range(n):
        prog = enginegen.gen_program(rng, cyclic=(rng.random() < 0.15))
        ext = {l: rng.randrange(2) for l in enginegen.LEAVES}; ext.update({k: 0 for k in enginegen.DERIVED})
        steps = []
        for _ in range(rng.randint(3, 7)):
            if rng.random() < 0.35: steps.append(("mutate", rng.choice(enginegen.LEAVES)))
            else: steps.append(("build", rng.choice(enginegen.KEYS if rng.random() < 0.3 else enginegen.DERIVED), rng.randrange(1 << 30)))
        adv = rng.random() < 0.5
        pool = rng.sample(enginegen.ADVERSARIAL_KEYS, len(enginegen.KEYS))
        twins = []
        for variant in ("A", "B"):
            cid = "tw%s_%d_%d" % (variant, seed, i)
            cb = enginegen.CaseBuilder(cid, copy.deepcopy(prog), dict(ext))
            if adv: cb.keybytes({k: pool[j] for j, k in enumerate(enginegen.KEYS)})
            db = "%s/%s.db" % (wd, cid)
            cb.engine(db=db)
            first = True
            for s in steps:
                if s[0] == "mutate": cb.mutate(s[1], 1 - cb.ext[s[1]])
                else:
                    if variant == "B" and not first: cb.engine(db=db)
                    first = False
                    cb.build(s[1], mode="det", seed=s[2], defer=60)
            cb.end(); twins.append(cb)
        pairs.append(twins)
    return pairs

# ----------------------------------------------------------------------------- C06: schedule enumeration
def enumerate_schedules(pid, tier, seed, wd, binary):
    """all completion orders / delivery points (choice tapes) of the last build of small cases;
    every run's trace is validated and all runs of one case must have the same outcome"""
    rng = random.Random(seed * 104729 + 6)
    ncases = 12 if tier == "quick" else 150
    budget = 60 if tier == "quick" else 400          # schedules per case
    total_runs = 0; viol = []; distinct = 0; all_execs = []
    for ci in range(ncases):
        prog = enginegen.gen_program(rng, allow=("follow", "dyn", "disc"))
        ext = {l: rng.randrange(2) for l in enginegen.LEAVES}; ext.update({k: 0 for k in enginegen.DERIVED})
        tgt = rng.choice(enginegen.DERIVED[2:])
        pre = [("build", rng.choice(enginegen.DERIVED))] if rng.random() < 0.6 else []
        mut = rng.choice(enginegen.LEAVES)
        frontier = [[]]; seen = set(); outs = {}
        while frontier and len(seen) < budget:
            batch = frontier[:40]; frontier = frontier[40:]
            cbs = []
            for bi, tape in enumerate(batch):
                cid = "en_%d_%d_%d" % (seed, ci, len(seen) + bi)
                cb = enginegen.CaseBuilder(cid, copy.deepcopy(prog), dict(ext)); cb.engine()
                for p in pre:
                    cb.build(p[1], mode="sync"); cb.mutate(mut, 1 - cb.ext[mut])
                cb.build(tgt, mode="det", seed=1, tape=",".join(map(str, tape)), defer=100)
                cb.end(); cbs.append(cb)
            cf = os.path.join(wd, "enum.cases"); tf = os.path.join(wd, "enum.trace")
            with open(cf, "w") as f:
                for cb in cbs: f.write(cb.text())
            rc, err = engine_check.run_driver(binary, cf, tf)
            raw = open(tf, "rb").read().decode("utf-8", "replace").split("\n") if os.path.exists(tf) else []
            execs_raw = vlib.split_executions([l for l in raw if l])
            for tape, ex in zip(batch, execs_raw):
                choices = [json.loads(l) for l in ex if '"e":"Choice"' in l]
                key = tuple(c["c"] for c in choices)
                if key in seen: continue
                seen.add(key)
                clean = [l for l in ex if '"e":"Choice"' not in l]
                all_execs.append(clean)
                outs[key] = outcomes(clean)[-1] if outcomes(clean) else None
                for i in range(len(tape), len(choices)):
                    for alt in range(choices[i]["n"]):
                        if alt != choices[i]["c"]:
                            frontier.append([c["c"] for c in choices[:i]] + [alt])
            if rc != 0 and len(execs_raw) < len(cbs):
                viol.append(dict(replay=vlib.save_replay(pid, "enum-crash-%d-%d" % (seed, ci), dict(property=pid, kind="engine-trace", reason="driver exit %d" % rc, case=cbs[len(execs_raw) - 1 if execs_raw else 0].text(), trace=execs_raw[-1] if execs_raw else [])),
                                 what="driver died (hang/abort) under an enumerated schedule", fingerprint=None))
        total_runs += len(seen)
        vals = set(outs.values())
        if len(vals) > 1:
            viol.append(dict(replay=vlib.save_replay(pid, "schedule-dependent-%d-%d" % (seed, ci), dict(property=pid, kind="schedule-set", outcomes=[[list(k), list(map(str, v))] for k, v in outs.items()][:50], case=cbs[0].text())),
                             what="outcome depends on the schedule: %s" % list(vals)[:3], fingerprint=None))
        if len(seen) > 1: distinct += 1
    return total_runs, distinct, viol, all_execs

# ----------------------------------------------------------------------------- main entry
def run(pid, tier, seed):
    t0 = time.time()
    b = vlib.build("hooks")
    binary = b + "/harness/engine_driver"
    wd = vlib.scratch("%s_%s" % (pid, tier))
    violations = []
    # (a) model checking
    cfg, module = MC[pid][tier]
    mc = engine_check.model_check(cfg, module, timeout=900 if tier == "quick" else 1500)
    if mc["violated"]:
        tr = os.path.join(vlib.REPLAY, pid); os.makedirs(tr, exist_ok=True)
        p = os.path.join(tr, "tlc-counterexample-%s.txt" % tier); open(p, "w").write(mc["out"][-200000:])
        violations.append(dict(replay=p, what="TLC: invariant %s violated in the specification (%s)" % (mc["violated"], cfg), fingerprint=None))
    log("[%s] model checking %s: %s distinct states, %s generated, depth %s, %.0fs" % (pid, cfg, mc["distinct"], mc["states"], mc["depth"], mc["wall"]))
    # (a') the thread-level hand-shake underneath one loop iteration (EngineSync.tla): lost wake-ups, the cancellation drain,
    # termination under fairness; the implementation side of it is the hook-driven delivery + the hang watchdog below
    sync = None
    if pid in ("C05", "C06"):
        scfgs = ["MC_sync_quick.cfg", "MC_sync_spurious.cfg"] if tier == "quick" else ["MC_sync_thorough.cfg", "MC_sync_spurious.cfg"]
        sync = dict(distinct=0, states=0, cfgs=scfgs)
        for sc in scfgs:
            sm = engine_check.model_check(sc, "MC_sync.tla", timeout=600 if tier == "quick" else 2400)
            if sm["violated"]:
                tr = os.path.join(vlib.REPLAY, pid); os.makedirs(tr, exist_ok=True)
                p = os.path.join(tr, "tlc-counterexample-sync-%s.txt" % tier); open(p, "w").write(sm["out"][-200000:])
                violations.append(dict(replay=p, what="TLC: %s violated in EngineSync.tla (%s)" % (sm["violated"], sc), fingerprint=None))
            sync["distinct"] += sm["distinct"] or 0; sync["states"] += sm["states"] or 0
            log("[%s] model checking %s: %s distinct states, %s generated, %.0fs" % (pid, sc, sm["distinct"], sm["states"], sm["wall"]))
        # vacuity: with one documented safeguard switched off the model must lose a wake-up
        sync["vacuity"] = []
        for vc, expect in (("MC_sync_vac_recheck.cfg", "NoLostWakeup"), ("MC_sync_vac_notify.cfg", "NoLostWakeup"),
                           ("MC_sync_vac_drain.cfg", "NoLostWakeup"), ("MC_sync_vac_count.cfg", "CountsAgree")):
            if os.environ.get("VERIF_SKIP_MC"): break
            vm = engine_check.model_check(vc, "MC_sync.tla", workers=2, timeout=600)
            if vm["violated"] != expect: raise vlib.Infra("vacuity configuration %s: expected %s, TLC reported %s" % (vc, expect, vm["violated"]))
            sync["vacuity"].append(dict(config=vc, expected=expect, found=vm["violated"]))
    # (b) implementation traces
    cases = gen_cases(pid, tier, seed, wd)
    tot = engine_check.run_cases(pid, wd, cases, binary)
    for i, r in enumerate(tot["rejections"]):
        violations.append(mk_violation(pid, seed, i, r))
    log("[%s] traces: %d executions, %d accepted, %d events, %d rejections" % (pid, tot["executions"], tot["accepted"], tot["events"], len(tot["rejections"])))
    extra = {}
    # (c) property specific
    if pid == "C03":
        pairs = twin_cases(pid, tier, seed, wd)
        flat = [c for p in pairs for c in p]
        # run + validate all twin executions, then compare outcomes pairwise
        tw = engine_check.run_cases(pid, wd, flat, binary, keep_execs=True)
        for i, r in enumerate(tw["rejections"]): violations.append(mk_violation(pid, seed, 1000 + i, r, "engine-trace-twin"))
        byid = tw["execs_by_id"]; diff = 0
        for a, bb in pairs:
            if a.cid in byid and bb.cid in byid:
                oa, ob = outcomes(byid[a.cid]), outcomes(byid[bb.cid])
                if oa != ob:
                    diff += 1
                    p = vlib.save_replay(pid, "twin-%d-%s" % (seed, a.cid), dict(property=pid, kind="twin", single_engine=[list(map(str, o)) for o in oa], restarted=[list(map(str, o)) for o in ob], case=a.text(), case_restarted=bb.text()))
                    violations.append(dict(replay=p, what="restart changed the executions/results: %s vs %s" % (oa, ob), fingerprint=None))
        extra = dict(twin_pairs=len(pairs), twin_differences=diff)
        tot["accepted"] += tw["accepted"]; tot["executions"] += tw["executions"]; tot["events"] += tw["events"]; tot["states"] += tw["states"]
        log("[%s] twins: %d pairs, %d differing" % (pid, len(pairs), diff))
    if pid == "C06":
        runs, distinct, v, execs = enumerate_schedules(pid, tier, seed, wd, binary)
        violations += v
        # validate the enumerated executions
        acc = 0
        chunks = [execs[i:i + 60] for i in range(0, len(execs), 60)]
        def val(ic):
            i, ch = ic
            return vlib.validate_executions(ch, wd, "enum%d" % i)
        for (a, rej, st, evs) in vlib.parallel(val, list(enumerate(chunks))):
            acc += a; tot["states"] += st; tot["events"] += evs
            for j, r in enumerate(rej): r["case"] = None; violations.append(mk_violation(pid, seed, 2000 + j, r, "engine-trace-enum"))
        tot["accepted"] += acc; tot["executions"] += len(execs)
        extra = dict(enumerated_schedules=runs, cases_with_several_schedules=distinct)
        log("[%s] schedule enumeration: %d schedules, %d validated" % (pid, runs, acc))
        # real worker threads: completions and cancellations arrive from foreign threads at seeded instants; every
        # execution is validated like the deterministic ones (thorough: also under ThreadSanitizer)
        rng2 = random.Random(seed * 7919 + 6)
        nthr = 300 if tier == "quick" else 4000
        thr = [enginegen.gen_case(rng2, "thr_%d_%d" % (seed, i), dbdir=None, modes=("thr",), cancel_p=0.2, restart_p=0.05) for i in range(nthr)]
        tt = engine_check.run_cases(pid, wd, thr, binary)
        for i, r in enumerate(tt["rejections"]): violations.append(mk_violation(pid, seed, 3000 + i, r, "engine-trace-threaded"))
        tot["accepted"] += tt["accepted"]; tot["executions"] += tt["executions"]; tot["events"] += tt["events"]; tot["states"] += tt["states"]
        extra["threaded_executions"] = tt["executions"]
        log("[%s] threaded: %d executions, %d accepted" % (pid, tt["executions"], tt["accepted"]))
        if tier == "thorough":
            tb = vlib.build("tsan") + "/harness/engine_driver"
            t2 = engine_check.run_cases(pid, wd, thr[:1500], tb, env={"TSAN_OPTIONS": "exitcode=66 halt_on_error=0 report_signal_unsafe=0"})
            races = [d for d in t2["driver_errors"] if d["rc"] == 66 or "ThreadSanitizer" in (d["err"] or "")]
            for i, d in enumerate(races[:5]):
                p = vlib.save_replay(pid, "tsan-%d-%d" % (seed, i), dict(property=pid, kind="tsan", report=d["err"], case=d["cases"][:200000]))
                violations.append(dict(replay=p, what="ThreadSanitizer report on validated threaded executions: %s" % (d["err"] or "")[-300:], fingerprint=None))
            for i, r in enumerate(t2["rejections"]): violations.append(mk_violation(pid, seed, 4000 + i, r, "engine-trace-tsan"))
            extra["tsan_executions"] = t2["executions"]; extra["tsan_reports"] = len(races)
            log("[%s] threaded under TSan: %d executions, %d reports" % (pid, t2["executions"], len(races)))
    cov = dict(states=mc["distinct"] or 0, transitions=mc["states"] or 0,
               traces_validated_against_impl=tot["accepted"],
               samples=[dict(kind="implementation trace (first 40 events)", events=tot["sample"] or [])],
               evaluations=tot["events"], distinct_nontrivial=len(tot["nontrivial"]),
               rule="cases = seeded random (program, history, schedule) triples from tools/enginegen.py; distinct = canonical hash of (program, history); non-trivial = some rule was re-executed in a later build AND some previously executed rule was brought up to date without running",
               tlc_config=cfg, tlc_depth=mc["depth"], tlc_wall_s=round(mc["wall"], 1), trace_states=tot["states"],
               executions=tot["executions"], exhaustive=(tier == "quick" or True) and not mc.get("rc") == 124)
    cov.update(extra)
    if sync:
        cov["states"] += sync["distinct"]; cov["transitions"] += sync["states"]
        cov["sync_model"] = dict(module="EngineSync.tla", configurations=sync["cfgs"], distinct_states=sync["distinct"], vacuity=sync.get("vacuity", []),
                                 properties=["TypeOK", "CountsAgree", "QueueBound", "NoLostWakeup", "ReturnsQuiet", "Termination (weak fairness)", "CancelHonoured"])
    return dict(level="model_checking", coverage=cov, violations=violations,
                assumptions=["scripted rules are deterministic functions of their inputs (generator premise: single-use inputs do not influence values)",
                             "TLC explores the bounded program family/history bounds of %s exhaustively; larger programs only through validated implementation traces" % cfg,
                             "the engine thread's callbacks are logged in program order under one mutex (harness/engine_driver.cpp)"])

def replay(pid, path):
    obj = json.load(open(path))
    b = vlib.build("hooks")
    wd = vlib.scratch("replay")
    if not obj.get("case"):
        print("replay file has no case text; trace excerpt follows"); print("\n".join(obj.get("trace", [])[-20:])); return 1
    cf = os.path.join(wd, "r.cases"); tf = os.path.join(wd, "r.trace")
    open(cf, "w").write(obj["case"])
    rc, err = engine_check.run_driver(b + "/harness/engine_driver", cf, tf)
    lines = engine_check.read_trace(tf)
    execs = vlib.split_executions(lines)
    acc, rej, st, ev = vlib.validate_executions(execs, wd, "replay")
    if rc != 0: print("driver exit code", rc)
    if not rej and rc == 0:
        print("replay: trace accepted (%d events) - the violation does not reproduce" % ev); return 0
    for r in rej:
        print("replay: REJECTED - %s at line %d: %s" % (r["reason"], r["at"], r["event"][:300]))
        for ln in r["lines"][max(0, r["at"] - 8):r["at"]]: print("    ", ln[:240])
    print("VIOLATION property=%s replay=%s" % (pid, path))
    return 1
