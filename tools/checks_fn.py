#!/usr/bin/env python3
"""Function-level parts of C13, C14, C15, C17, C19, C11, C09 (see DESIGN.md section 6)."""
import json, os, sys, time
sys.path.insert(0, os.path.dirname(os.path.abspath(__file__)))
import vlib, fnlib
from vlib import log

def prefix_cases(tier, binary):
    """C14: pathIsPrefixedByPath against spec/fn/PathPrefix.tla.  returns (cases, mismatches, tlc)"""
    cases, p, out = fnlib.enumerate_cases("PathPrefix.tla", "PathPrefix.cfg", consts={"MaxLen": 4 if tier == "quick" else 5})
    if p["violated"]: return cases, [dict(kind="spec", what="invariant %s of PathPrefix.tla violated" % p["violated"])], p
    lines = ["prefix\t%s\t%s" % (fnlib.hx(c["path"]), fnlib.hx(c["root"])) for c in cases]
    rc, res, err = fnlib.run_driver(binary, lines)
    bad = []
    for c, o in zip(cases, res):
        r = (o == "1")
        if c["must"] and not r: bad.append(dict(kind="under", path=c["path"], root=c["root"], what="path %r lies beneath root %r by whole components but the predicate says no (nothing would be removed)" % (c["path"], c["root"])))
        if (not c["may"]) and r: bad.append(dict(kind="over", path=c["path"], root=c["root"], what="path %r is NOT beneath root %r but the predicate says yes (would be removed)" % (c["path"], c["root"])))
    return cases, bad, p

def st(o): return "%s:%s:%s" % (o["type"], o["content"], o["mtime"])

def fileinfo_cases(tier, binary, wd):
    """C13: FileInfo comparison in the three file-system modes against spec/fn/FileInfoCmp.tla"""
    cases, p, out = fnlib.enumerate_cases("FileInfoCmp.tla", "FileInfoCmp.cfg")
    os.makedirs(wd, exist_ok=True)
    lines = ["fileinfo\t%s\t%s\t%s\t%s\t%s" % (fnlib.hx(c["mode"]), fnlib.hx(st(c["a"])), fnlib.hx(st(c["b"])), fnlib.hx("1" if c["sameIno"] else "0"), fnlib.hx(wd)) for c in cases]
    rc, res, err = fnlib.run_driver(binary, lines)
    bad = []
    for c, o in zip(cases, res):
        f = o.split()
        if len(f) != 3: bad.append(dict(kind="driver", case=c, what="driver output %r" % o)); continue
        verdict = f[0]
        desc = "%s mode: %s -> %s (%s inode)" % (c["mode"], st(c["a"]), st(c["b"]), "same" if c["sameIno"] else "new")
        if c["verdict"] != "open" and verdict != c["verdict"]:
            bad.append(dict(kind="changed-but-equal" if c["verdict"] == "ne" else "untouched-but-unequal", mode=c["mode"], a=st(c["a"]), b=st(c["b"]), sameIno=c["sameIno"],
                            what="%s: observations must compare %s but compare %s" % (desc, c["verdict"], verdict)))
        if (c["a"]["type"] != "missing" and f[1] == "m1") or (c["b"]["type"] != "missing" and f[2] == "m2"):
            bad.append(dict(kind="missing-sentinel", mode=c["mode"], a=st(c["a"]), b=st(c["b"]), sameIno=c["sameIno"], what="%s: the all-zero missing record was produced for an existing object" % desc))
        if (c["a"]["type"] == "missing" and f[1] != "m1") or (c["b"]["type"] == "missing" and f[2] != "m2"):
            bad.append(dict(kind="missing-not-reported", mode=c["mode"], a=st(c["a"]), b=st(c["b"]), sameIno=c["sameIno"], what="%s: a missing path was not reported as missing" % desc))
    return cases, bad, p

def _b(seq): return bytes(seq)
def codec_cases(tier, binary):
    """C15: BuildValue / BuildKey wire formats against spec/fn/Codec.tla"""
    cases, p, out = fnlib.enumerate_cases("Codec.tla", "Codec.cfg")
    bad = []
    if p["violated"]: bad.append(dict(kind="spec", what="invariant %s of Codec.tla violated: the specified format itself is not lossless" % p["violated"]))
    lines = []
    for c in cases:
        x = c["x"]
        if c["what"] == "value":
            f = ["value", fnlib.hx(x["kind"]), fnlib.hx(_b(x["sig"])), fnlib.hx(str(len(x["infos"])))]
            for i in x["infos"]:
                f += [fnlib.hx(_b(i[k])) for k in ("device", "inode", "mode", "size", "sec", "nsec", "sum")]
            f.append(fnlib.hx(str(len(x["strs"]))))
            f += [fnlib.hx(_b(s)) for s in x["strs"]]
        else:
            f = ["key", fnlib.hx(x["kind"]), fnlib.hx(_b(x["name"])), fnlib.hx(str(len(x["filters"])))] + [fnlib.hx(_b(s)) for s in x["filters"]] + [fnlib.hx(_b(x["data"]))]
        lines.append("\t".join(f))
    rc, res, err = fnlib.run_driver(binary, lines)
    if rc != 0: bad.append(dict(kind="crash", what="fn_driver exit %d: %s" % (rc, err[-300:])))
    seen = {}
    for c, o in zip(cases, res):
        parts = o.split()
        if len(parts) != 2: bad.append(dict(kind="driver", what="driver output %r for %s" % (o[:80], c["x"]["kind"]))); continue
        got = bytes.fromhex(parts[0]); want = _b(c["bytes"])
        desc = "%s %s" % (c["what"], c["x"]["kind"])
        if got != want:
            bad.append(dict(kind="bytes-differ", fingerprint="bytes-differ %s" % desc, case=c["x"], what="%s: implementation encodes %s, the format says %s" % (desc, got.hex(), want.hex())))
        if parts[1] != "rt=ok":
            bad.append(dict(kind="round-trip", fingerprint="round-trip %s" % desc, case=c["x"], what="%s: decode(encode(x)) does not give x back (fields or re-encoding differ)" % desc))
        key = (c["what"], got)
        if key in seen and seen[key] != c["x"]:
            bad.append(dict(kind="collision", fingerprint="collision %s" % desc, case=c["x"], what="%s: two different %ss encode to the same bytes %s" % (desc, c["what"], got.hex())))
        seen[key] = c["x"]
    return cases, bad, p
