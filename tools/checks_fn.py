#!/usr/bin/env python3
"""Function-level parts of C13, C14, C15, C17, C19, C11, C09 (see DESIGN.md section 6)."""
import json, os, sys, time
sys.path.insert(0, os.path.dirname(os.path.abspath(__file__)))
import vlib, fnlib
from vlib import log

def prefix_cases(tier, binary):
    """C14: pathIsPrefixedByPath against spec/fn/PathPrefix.tla.  returns (cases, mismatches, tlc)"""
    cases, p, out = fnlib.enumerate_cases("PathPrefix.tla", "PathPrefix.cfg", consts={"MaxLen": 4 if tier == "quick" else 5})
    if p["violated"]: return cases, [dict(kind="spec", what="invariant %s of PathPrefix.tla violated" % p["violated"])], p
    lines = ["prefix\t%s\t%s" % (fnlib.hx(c["path"]), fnlib.hx(c["root"])) for c in cases]
    rc, res, err = fnlib.run_driver(binary, lines)
    bad = []
    for c, o in zip(cases, res):
        r = (o == "1")
        if c["must"] and not r: bad.append(dict(kind="under", path=c["path"], root=c["root"], what="path %r lies beneath root %r by whole components but the predicate says no (nothing would be removed)" % (c["path"], c["root"])))
        if (not c["may"]) and r: bad.append(dict(kind="over", path=c["path"], root=c["root"], what="path %r is NOT beneath root %r but the predicate says yes (would be removed)" % (c["path"], c["root"])))
    return cases, bad, p
