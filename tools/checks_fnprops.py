#!/usr/bin/env python3
"""Properties decided at function level only: C13 (file change detection), C15 (wire codecs)."""
import json, os, sys, time
sys.path.insert(0, os.path.dirname(os.path.abspath(__file__)))
import vlib, fnlib, checks_fn
from vlib import log

def pack(pid, seed, bad, maxrep=12):
    """turn mismatch records into violation dicts (one replay file per fingerprint class)"""
    groups = {}
    for b in bad:
        fp = b.get("fingerprint") or b["kind"]
        groups.setdefault(fp, []).append(b)
    out = []
    for fp, items in list(groups.items())[:maxrep]:
        path = vlib.save_replay(pid, "fn-%s" % "".join(ch if ch.isalnum() else "_" for ch in fp)[:60], dict(property=pid, kind="fn", fingerprint=fp, count=len(items), cases=items[:25]))
        out.append(dict(replay=path, what="%d case(s) [%s], e.g. %s" % (len(items), fp, items[0]["what"]), fingerprint=fp))
    return out

def run(pid, tier, seed):
    b = vlib.build("hooks")
    binary = b + "/harness/fn_driver"
    wd = vlib.scratch("%s_%s" % (pid, tier))
    if pid == "C13":
        cases, bad, p = checks_fn.fileinfo_cases(tier, binary, wd)
        decided = sum(1 for c in cases if c["verdict"] != "open")
        nontriv = sum(1 for c in cases if c["verdict"] == "ne")
        log("[C13] %d (mode, state pair) cases enumerated by TLC, %d with a demanded verdict, %d mismatches" % (len(cases), decided, len(bad)))
        cov = dict(programs=len(cases), disagreements_checked=decided, samples=cases[:3] + cases[-2:], evaluations=len(cases), distinct_nontrivial=nontriv,
                   rule="TLC enumerates every (mode, first observation, second observation, inode kept?) of spec/fn/FileInfoCmp.tla; each is realised on a scratch directory (explicit utimensat, in-place rewrite vs rename) and observed through createLocalFileSystem / DeviceAgnosticFileSystem / ChecksumOnlyFileSystem; non-trivial = pairs the property demands to compare unequal",
                   states=p["distinct"], exhaustive=True)
        return dict(level="translation_validation", coverage=cov, violations=pack(pid, seed, bad),
                    assumptions=["the abstract state domain (3 contents, 3 mtimes, file/dir/symlink/missing, inode kept or replaced) is representative; the scratch directory is on one local file system"])
    if pid == "C15":
        cases, bad, p = checks_fn.codec_cases(tier, binary)
        nv = sum(1 for c in cases if c["what"] == "value"); nk = len(cases) - nv
        nontriv = sum(1 for c in cases if len(c["bytes"]) > 1)
        log("[C15] %d values and %d keys enumerated by TLC (round trip and tag distinctness hold on the specification: %s), %d mismatches with the implementation" % (nv, nk, not p["violated"], len(bad)))
        cov = dict(programs=len(cases), disagreements_checked=len(cases), samples=[dict(x=c["x"], bytes=bytes(c["bytes"]).hex()) for c in (cases[:2] + cases[-2:])],
                   evaluations=len(cases), distinct_nontrivial=nontriv, states=p["distinct"], exhaustive=True,
                   rule="TLC enumerates every value kind x {0..3 outputs from 3 file infos | one info varied field by field over a 64-bit edge set} x signatures x string lists, and every key kind x names over {a, NUL, /, 0xFF} x filter lists; for each: implementation bytes == specified bytes, implementation decode gives every field back and re-encodes identically, no two distinct items share an encoding; non-trivial = encodings longer than the tag byte")
        return dict(level="translation_validation", coverage=cov, violations=pack(pid, seed, bad),
                    assumptions=["injectivity is decided on the bounded domain and on the byte-level structure (64-bit fields as opaque 8-byte strings); no claim for unbounded values",
                                 "string-list elements contain no NUL (the constructor's documented precondition)"])
    raise vlib.Infra("no function-level check for " + pid)

def replay(pid, path):
    obj = json.load(open(path)); print(json.dumps(obj, indent=1)[:4000])
    print("VIOLATION property=%s replay=%s" % (pid, path)); return 1
