#!/usr/bin/env python3
"""Function-level checks of the hand-written parsers (C19) and of the lexer / shell-quoting parts of C17.

Pattern (DESIGN.md section 6): TLC enumerates a bounded domain of spec/fn/<Module>.tla together with the expected
result of the INTENDED function and checks the property's invariants on the specification; the cases are replayed
through the real functions by harness/parse_driver (exact-size heap buffers, one forked worker, per-case CPU alarm)
- on the plain build for the comparison with the specification, on the ASan+UBSan build for memory safety and hangs.

Every `*_cases(tier, binary, asan=None, ...)` returns (cases, mismatches, tlc_parse):
  cases       a Cases object: len() = number of inputs replayed, .samples a few of them, .nontrivial a count
  mismatches  list of dict(kind, fingerprint, what, input=<hex>, ...)   (empty = held)
  tlc_parse   merged vlib.parse_tlc() result of the TLC runs (states/distinct summed, violated = first violated)
`shellquote_cases` and `lexer_cases(..., families=("kw",))` / `lexer_keyword_highbyte_cases` are self-contained so
that the C17 check can call them."""
import json, multiprocessing, os, random, re, subprocess, sys, tempfile, time, threading
from concurrent.futures import ProcessPoolExecutor
sys.path.insert(0, os.path.dirname(os.path.abspath(__file__)))
import vlib
from vlib import log

DRIVER = "parse_driver"
_seq = [0]; _seq_lock = threading.Lock()

class Cases:
    """summary of a replayed domain (the domains are too large to keep every case as a Python object)"""
    def __init__(self): self.n = 0; self.samples = []; self.nontrivial = 0; self.by = {}
    def __len__(self): return self.n
    def __iter__(self): return iter(self.samples)
    def add(self, k, n=1): self.by[k] = self.by.get(k, 0) + n
    def merge(self, o):
        self.n += o.n; self.nontrivial += o.nontrivial
        if len(self.samples) < 8: self.samples += o.samples[:2]
        for k, v in o.by.items(): self.add(k, v)

def hx(b):
    if isinstance(b, (list, tuple)): b = bytes(b)
    if isinstance(b, str): b = b.encode("latin-1")
    return b.hex() if b else "-"

def show(b):
    """printable rendering of a byte string for messages"""
    if isinstance(b, (list, tuple)): b = bytes(b)
    return json.dumps(b.decode("latin-1"))

# ----------------------------------------------------------------------------- TLC enumeration
def tlc_cases(module, cfg, consts=None, timeout=3000, heap="-Xmx3g"):
    """run TLC on spec/fn/<module> with the constants of <cfg> overridden; returns (list of CASE records, parse, out)"""
    cfgpath = os.path.join(vlib.SPEC, "fn", cfg)
    txt = open(cfgpath).read()
    for k, v in (consts or {}).items():
        txt, n = re.subn(r"(CONSTANT\s+%s\s*=\s*)\S+" % k, lambda m: m.group(1) + str(v), txt)
        if n != 1: raise vlib.Infra("constant %s not found in %s" % (k, cfg))
    os.makedirs(vlib.OUT, exist_ok=True)
    with _seq_lock: _seq[0] += 1; tag = "%d_%d" % (os.getpid(), _seq[0])
    tmpcfg = os.path.join(vlib.OUT, "pcfg_%s_%s.cfg" % (cfg.replace(".cfg", ""), tag))
    open(tmpcfg, "w").write(txt)
    try:
        rc, out = vlib.tlc(module, tmpcfg, cwd=os.path.join(vlib.SPEC, "fn"), workers=1, heap=heap, timeout=timeout)
    finally:
        try: os.unlink(tmpcfg)
        except OSError: pass
    p = vlib.parse_tlc(out)
    if rc == 124: raise vlib.Infra("TLC timed out on fn/%s %s" % (module, consts))
    m = re.search(r'"(NoReadPastEnd|CursorBeyondEnd)"', out)
    if m: p["violated"] = m.group(1); p["error"] = None
    if (p["error"] or p["distinct"] is None) and not p["violated"]:
        raise vlib.Infra("TLC failed on fn/%s: %s\n%s" % (module, p["error"], out[-2000:]))
    cases = []; seen = set()
    for m in re.finditer(r'^<<"CASE", "(.*)">>$', out, re.M):
        s = m.group(1)
        if "\\" in s: s = s.replace('\\"', '"').replace("\\\\", "\\")
        if s in seen: continue
        seen.add(s)
        cases.append(json.loads(s))
    return cases, p, out

def merge_parse(ps):
    res = dict(states=0, distinct=0, violated=None, error=None, runs=len(ps))
    for p in ps:
        res["states"] += p.get("states") or 0; res["distinct"] += p.get("distinct") or 0
        if p.get("violated") and not res["violated"]: res["violated"] = p["violated"]
    return res

def setstr(xs): return "{%s}" % ",".join(str(x) for x in xs)

def partitions2(alphabet, ngroups2, with_empty=True):
    """(First, Second) constant pairs that split the strings over `alphabet` on their first two bytes:
    one group of jobs per first byte, the second bytes dealt into `ngroups2` groups (256 = 'no such byte')"""
    al = list(alphabet); res = []
    for ai, a in enumerate(al):
        seconds = al + [256]
        k = max(1, min(ngroups2, len(seconds)))
        for gi in range(k):
            first = [a] + ([256] if with_empty and ai == 0 and gi == 0 else [])
            res.append((setstr(first), setstr(seconds[gi::k])))
    return res

def pool_map(fn, jobs, n=None):
    """run top-level function `fn` over `jobs` in forked worker processes (TLC run + JSON parsing + comparison per job:
    the Python share is not negligible, threads would serialise it)"""
    if not jobs: return []
    n = min(n or vlib.NCPU, len(jobs))
    with ProcessPoolExecutor(max_workers=n, mp_context=multiprocessing.get_context("fork")) as ex:
        return list(ex.map(fn, jobs))

def partitions(alphabet, n, with_empty=True):
    """split the first-byte set into at most n groups (the empty buffer, coded 256, goes into the first)"""
    al = list(alphabet); groups = [[] for _ in range(min(n, len(al)))]
    for i, a in enumerate(al): groups[i % len(groups)].append(a)
    if with_empty: groups[0].append(256)
    return ["{%s}" % ",".join(str(x) for x in g) for g in groups]

# ----------------------------------------------------------------------------- driver
def drive(binary, lines, timeout=3000, cwd=None):
    """replay `lines` through parse_driver; one result per line (the driver isolates crashes itself)"""
    if not lines: return []
    if not os.path.exists(binary): raise vlib.Infra("driver %s missing" % binary)
    env = dict(os.environ); env.setdefault("PARSE_DRIVER_CPU_MS", "4000")
    try:
        r = subprocess.run([binary], input=("\n".join(lines) + "\n").encode(), capture_output=True, timeout=timeout, env=env, cwd=cwd)
    except subprocess.TimeoutExpired:
        raise vlib.Infra("parse_driver did not finish %d cases within %ds" % (len(lines), timeout))
    res = r.stdout.decode("latin-1").split("\n")
    if res and res[-1] == "": res.pop()
    if r.returncode != 0 or len(res) != len(lines):
        raise vlib.Infra("parse_driver exit %d, %d results for %d cases: %s" % (r.returncode, len(res), len(lines), r.stderr.decode("latin-1")[-500:]))
    return res

def safety_fingerprint(fn, res):
    """stable class of an abnormal ('@...') driver result"""
    if res.startswith("@timeout"): return "%s hang (CPU alarm)" % fn
    m = re.search(r"AddressSanitizer: ([\w-]+)", res)
    if m:
        f = re.search(r"SUMMARY: .*? in ([\w:~]+)", res)
        func = f.group(1).split("::")[-1] if f else "?"
        if m.group(1) == "stack-overflow": func = "recursion"
        return "%s asan %s %s" % (fn, m.group(1), func)
    m = re.search(r"runtime error: ([^|]*?)( of type| \||$)", res)
    if m:
        loc = re.search(r"(\w+\.(?:cpp|h)):\d+", res)
        return "%s ubsan %s %s" % (fn, m.group(1).strip()[:50], loc.group(1) if loc else "?")
    m = re.match(r"@crash sig=(\d+)", res)
    if m: return "%s crash sig=%s" % (fn, m.group(1))
    return "%s abnormal exit" % fn

def safety_check(fn, lines, inputs, binary, label, bad, extra_bad=None, cwd=None, cases=None, per=1):
    """run `lines` through `binary`; every abnormal result becomes a mismatch.  returns the result list.
    cases[k // per] is the enumerated case line k belongs to (kept in the mismatch for replay)"""
    res = drive(binary, lines, cwd=cwd)
    for k, (ln, inp, r) in enumerate(zip(lines, inputs, res)):
        case = cases[k // per] if cases is not None else dict(line=ln)
        if r == "@skipped": continue            # the driver stops after 25 abnormal results per run
        if r.startswith("@"):
            fp = safety_fingerprint(fn, r)
            bad.append(dict(kind="safety", family=fn, fingerprint=fp, input=hx(inp), line=ln, build=label, case=case,
                            what="%s build: %s on input %s: %s" % (label, fp, show(inp[:200]), r[:300])))
        elif extra_bad:
            w = extra_bad(r)
            if w: bad.append(dict(kind="safety", family=fn, fingerprint="%s %s" % (fn, w), input=hx(inp), line=ln, build=label, case=case,
                                  what="%s build: %s on input %s: %s" % (label, w, show(inp[:200]), r[:200])))
    return res

# ----------------------------------------------------------------------------- Ninja lexer  (C19 tiling/EOF, C17 keywords/high bytes)
LEX_ALPHABET = [97, 32, 12, 10, 13, 36, 58, 124, 61, 35, 255, 128]
KW = {6: b"build", 7: b"default", 8: b"include", 9: b"pool", 10: b"rule", 11: b"subninja"}
KIND = ["Colon", "Comment", "EndOfFile", "Equals", "Indentation", "Identifier", "KWBuild", "KWDefault", "KWInclude", "KWPool", "KWRule",
        "KWSubninja", "Newline", "Pipe", "PipePipe", "String", "Unknown"]
def _cj(x): return json.dumps(x, separators=(",", ":"))
def _is_ident(c): return (97 <= c <= 122) or (65 <= c <= 90) or (48 <= c <= 57) or c in (95, 46, 45)

def lex_diagnose(buf, mode, got, want):
    """name the clause of the property that the implementation's token list breaks"""
    n = len(buf)
    if "STUCK" in got: return "no-progress", "lex() did not reach EndOfFile within len+2 calls (tokens %s)" % _cj(got[:6])
    prev = 0
    for t in got:
        k, a, l = t
        if a < 0 or l < 0 or a + l > n: return "token-outside-buffer", "token %s lies outside the %d-byte buffer" % (t, n)
        if k != 2 and l == 0: return "no-progress", "zero-length %s token at offset %d" % (KIND[k], a)
        if a < prev: return "overlap", "token %s overlaps the previous one (ends at %d)" % (t, prev)
        if k == 2 and a != n: return "eof-before-end", "EndOfFile reported at offset %d of %d" % (a, n)
        gap = buf[prev:a]
        if any(c not in (32, 9, 11, 12, 36, 10, 13) for c in gap): return "gap", "bytes %s between tokens were skipped" % show(gap)
        prev = a + l
    if not got or got[-1][0] != 2: return "no-eof", "the token list does not end with EndOfFile"
    if mode == "N":
        for t in got:
            w = bytes(buf[t[1]:t[1] + t[2]])
            if 6 <= t[0] <= 11 and KW[t[0]] != w: return "keyword-not-whole-word", "%s lexed as %s" % (show(w), KIND[t[0]])
            if t[0] == 5 and w in KW.values(): return "keyword-missed", "%s lexed as Identifier" % show(w)
    if any(c >= 128 for c in buf): return "high-byte", "tokens differ on a buffer with bytes >= 0x80"
    return "tokens-differ", "token lists differ"

def _lex_compare(cases, binary, asan, bad, summary):
    lines = ["lex4\t" + hx(c["i"]) for c in cases]
    inputs = [bytes(c["i"]) for c in cases]
    res = safety_check("lex", lines, inputs, binary, "plain", bad, cases=cases)
    for c, r in zip(cases, res):
        if r.startswith("@"): continue
        want = "N=%s;I=%s;P=%s;V=%s" % (_cj(c["N"]), _cj(c["I"]), _cj(c["P"]), _cj(c["V"]))
        if r == want: continue
        got = dict(kv.split("=", 1) for kv in r.split(";"))
        for m in "NIPV":
            g = json.loads(got[m])
            if g != c[m]:
                cls, why = lex_diagnose(c["i"], m, g, c[m])
                bad.append(dict(kind="lex", family="lex", case=c, fingerprint="lex %s" % cls, input=hx(c["i"]), mode=m, got=got[m], want=_cj(c[m]),
                                what="Ninja lexer, mode %s, buffer %s: %s; implementation %s, specification %s"
                                     % (m, show(c["i"]), why, " ".join("%s@%d+%d" % (KIND[t[0]], t[1], t[2]) if t != "STUCK" else "STUCK" for t in g[:8]),
                                        " ".join("%s@%d+%d" % (KIND[t[0]], t[1], t[2]) for t in c[m][:8]))))
                break
    if asan:
        ares = safety_check("lex", lines, inputs, asan, "asan", bad, cases=cases)
        for ln, a, r in zip(lines, ares, res):
            if not a.startswith("@") and not r.startswith("@") and a != r:
                bad.append(dict(kind="lex", family="mutation", case=dict(line=ln), fingerprint="lex plain/asan builds disagree", input=ln.split("\t")[1], what="plain and asan drivers return different token lists for %s" % ln))
    summary.n += len(cases)
    summary.nontrivial += sum(1 for c in cases if len(c["N"]) > 2)
    for c in cases:
        if any(6 <= t[0] <= 11 for t in c["N"]): summary.add("with_keyword")
        if any(b >= 128 for b in c["i"]): summary.add("with_high_byte")
    if not summary.samples: summary.samples = cases[:2] + cases[-1:]

def _job_lex(args):
    consts, binary, asan = args
    cases, p, out = tlc_cases("NinjaLex.tla", "NinjaLex.cfg", consts)
    mine = []; s = Cases()
    if p["violated"]:
        mine.append(dict(kind="spec", fingerprint="spec NinjaLex %s" % p["violated"], what="invariant %s of NinjaLex.tla violated: %s" % (p["violated"], out[-600:])))
    for i in range(0, len(cases), 100000): _lex_compare(cases[i:i + 100000], binary, asan, mine, s)
    return mine[:2000], s, p

LEX_DEEP = [36, 32, 12, 10, 13, 97, 255]      # the bytes the lexer's special cases are about: $ blank formfeed LF CR letter 0xFF
def lexer_cases(tier, binary, asan=None, families=("all", "kw"), maxlen=None):
    """Ninja lexer in its four modes against spec/fn/NinjaLex.tla.
    family "all": every buffer up to MaxLen over the 12-byte format alphabet (quick 4, thorough 6), and deeper (quick 6, thorough 7)
    over the 7 bytes the lexer's special cases are about; "kw": keyword spellings +-1 char in contexts"""
    if maxlen is None: maxlen = 4 if tier == "quick" else 6
    jobs = []
    if "all" in families:
        for f, g in partitions2(LEX_ALPHABET, 1 if maxlen <= 4 else 13):
            jobs.append(dict(MaxLen=maxlen, First=f, Second=g, Family='"all"'))
        deep = maxlen + 2 if maxlen <= 4 else maxlen + 1
        for f, g in partitions2(LEX_DEEP, 1 if deep <= 6 else 8, with_empty=False):
            jobs.append(dict(MaxLen=deep, First=f, Second=g, Family='"all"', Alphabet=setstr(LEX_DEEP)))
    if "kw" in families:
        jobs.append(dict(MaxLen=0, Family='"kw"'))
    bad = []; summary = Cases(); ps = []
    for mine, s, p in pool_map(_job_lex, [(j, binary, asan) for j in jobs]):
        bad.extend(mine); summary.merge(s); ps.append(p)
    return summary, bad, merge_parse(ps)

def lexer_keyword_highbyte_cases(tier, binary, asan=None):
    """the C17 clauses only: keywords as whole words, bytes 0x80-0xFF ordinary (keyword family + short exhaustive strings)"""
    summary, bad, p = lexer_cases(tier, binary, asan=asan, families=("all", "kw"), maxlen=3 if tier == "quick" else 5)
    return summary, [b for b in bad if b["kind"] != "lex" or b["fingerprint"] in ("lex keyword-not-whole-word", "lex keyword-missed", "lex high-byte", "lex eof-before-end")], p

# ----------------------------------------------------------------------------- Makefile-style dependency files
MD_ALPHABET = [97, 32, 35, 36, 92, 58, 10, 13, 9, 47]
def _md_events(res):
    """driver line -> (event list in the specification's shape, flags)"""
    ev = []; flags = set()
    if res == "-": return ev, flags
    for tok in res.split(" "):
        if tok == ".": ev.append(["X"])
        elif tok.startswith("S:") or tok.startswith("D:"): ev.append([tok[0], list(bytes.fromhex(tok[2:])) if tok[2:] != "-" else []])
        elif tok.startswith("!:"): ev.append(["E"])
        else: flags.add(tok)
    return ev, flags

def _md_show(ev): return " ".join(e[0] if len(e) == 1 else "%s(%s)" % (e[0], show(e[1])) for e in ev)

def _md_compare(cases, binary, asan, bad, summary):
    lines = []; inputs = []
    for c in cases:
        for flag in ("0", "1"):
            lines.append("makedeps\t%s\t%s" % (hx(flag), hx(c["i"]))); inputs.append(bytes(c["i"]))
    extra = lambda r: ("callback-out-of-buffer" if " OOB" in " " + r else "callback-protocol" if "PROTOCOL" in r else None)
    res = safety_check("makedeps", lines, inputs, binary, "plain", bad, extra, cases=cases, per=2)
    for k, c in enumerate(cases):
        for f, key in ((0, "ev0"), (1, "ev1")):
            r = res[2 * k + f]
            if r.startswith("@"): continue
            ev, flags = _md_events(r)
            want = c[key]
            if c["cls"] == "wf":
                if ev != want:
                    fam = "round-trip" if c.get("fam") == "render" else "documented-format"
                    bad.append(dict(kind="makedeps", family="makedeps", case=c, fingerprint="makedeps %s" % fam, input=hx(c["i"]), flag=f,
                                    what="dependency file %s (ignoreSubsequentOutputs=%d): callbacks %s, the format says %s" % (show(c["i"]), f, _md_show(ev) or "none", _md_show(want) or "none")))
            elif c["cls"] == "err":
                if any(e[0] == "E" for e in want) and not any(e[0] == "E" for e in ev):
                    bad.append(dict(kind="makedeps", family="makedeps", case=c, fingerprint="makedeps malformed-not-reported", input=hx(c["i"]), flag=f,
                                    what="malformed dependency file %s (ignoreSubsequentOutputs=%d) produced no error callback: %s" % (show(c["i"]), f, _md_show(ev) or "none")))
    if asan:
        ares = safety_check("makedeps", lines, inputs, asan, "asan", bad, extra, cases=cases, per=2)
    summary.n += len(cases)
    for c in cases: summary.add(c["cls"])
    summary.nontrivial += sum(1 for c in cases if len(c["ev0"]) > 0)
    if len(summary.samples) < 3: summary.samples += cases[:1] + cases[-1:]

def _job_md(args):
    consts, binary, asan = args
    cases, p, out = tlc_cases("MakeDeps.tla", "MakeDeps.cfg", consts)
    mine = []; s = Cases()
    if p["violated"]:
        mine.append(dict(kind="spec", fingerprint="spec MakeDeps %s" % p["violated"], what="invariant %s of MakeDeps.tla violated: %s" % (p["violated"], out[-600:])))
    for i in range(0, len(cases), 50000): _md_compare(cases[i:i + 50000], binary, asan, mine, s)
    return mine[:2000], s, p

MD_DEEP = [97, 32, 92, 58, 10, 36]           # letter, blank, backslash, colon, newline, dollar
MD_PATH_FIRST = [97, 32, 35, 36, 92, 47]     # first bytes of rendered paths (a ':' cannot start a path)
def makedeps_cases(tier, binary, asan=None, families=("all", "render"), maxlen=None, deplen=None):
    """MakefileDepsParser against spec/fn/MakeDeps.tla: raw strings over the 10-byte format alphabet (quick <= 5, thorough <= 6,
    plus <= maxlen + 2 over 6 of the bytes), and rendered rule lists (RoundTrip) with paths <= 2 (first prerequisite <= 3 in thorough)"""
    if maxlen is None: maxlen = 5 if tier == "quick" else 6
    if deplen is None: deplen = 2 if tier == "quick" else 3
    jobs = []
    if "all" in families:
        for f, g in partitions2(MD_ALPHABET, 1 if maxlen <= 5 else 11):
            jobs.append(dict(MaxLen=maxlen, First=f, Second=g, Family='"all"'))
        if tier != "quick":
            for f, g in partitions2(MD_DEEP, 7, with_empty=False):
                jobs.append(dict(MaxLen=maxlen + 2, First=f, Second=g, Family='"all"', Alphabet=setstr(MD_DEEP)))
    if "render" in families:
        for f, g in partitions2(MD_PATH_FIRST, 1 if deplen <= 2 else 7, with_empty=False):
            jobs.append(dict(MaxLen=0, First=f, Second=g, Family='"render"', PathLen=2, DepLen=deplen))
    bad = []; summary = Cases(); ps = []
    for mine, s, p in pool_map(_job_md, [(j, binary, asan) for j in jobs]):
        bad.extend(mine); summary.merge(s); ps.append(p)
    return summary, bad, merge_parse(ps)

# ----------------------------------------------------------------------------- dependency-info files
DI_ALPHABET = [0, 16, 17, 64, 127, 97]
def _di_events(res):
    ev = []; flags = set()
    if res == "-": return ev, flags
    for tok in res.split(" "):
        if tok[:2] in ("V:", "I:", "M:", "O:"): ev.append([tok[0], list(bytes.fromhex(tok[2:])) if tok[2:] != "-" else []])
        elif tok.startswith("!:"): ev.append(["E"])
        else: flags.add(tok)
    return ev, flags

def _di_compare(cases, binary, asan, bad, summary):
    lines = ["depinfo\t" + hx(c["i"]) for c in cases]; inputs = [bytes(c["i"]) for c in cases]
    extra = lambda r: ("operand-out-of-buffer" if "OOB" in r else None)
    res = safety_check("depinfo", lines, inputs, binary, "plain", bad, extra, cases=cases)
    for c, r in zip(cases, res):
        if r.startswith("@"): continue
        ev, flags = _di_events(r)
        if c["cls"] == "wf" and ev != c["ev"]:
            bad.append(dict(kind="depinfo", family="depinfo", case=c, fingerprint="depinfo records-differ", input=hx(c["i"]), what="dependency-info file %s: callbacks %s, the format says %s" % (bytes(c["i"]).hex(), _md_show(ev), _md_show(c["ev"]))))
        if c["cls"] == "err" and not any(e[0] == "E" for e in ev):
            bad.append(dict(kind="depinfo", family="depinfo", case=c, fingerprint="depinfo bad-input-accepted", input=hx(c["i"]), what="malformed dependency-info file %s produced no error callback: %s" % (bytes(c["i"]).hex(), _md_show(ev))))
    if asan: safety_check("depinfo", lines, inputs, asan, "asan", bad, extra, cases=cases)
    summary.n += len(cases)
    for c in cases: summary.add(c["cls"])
    summary.nontrivial += sum(1 for c in cases if c["cls"] == "wf")
    if len(summary.samples) < 3: summary.samples += [c for c in cases if c["cls"] == "wf"][:1] + cases[-1:]

def _job_di(args):
    consts, binary, asan = args
    cases, p, out = tlc_cases("DepInfo.tla", "DepInfo.cfg", consts)
    mine = []; s = Cases()
    if p["violated"]: mine.append(dict(kind="spec", fingerprint="spec DepInfo %s" % p["violated"], what="invariant %s of DepInfo.tla violated: %s" % (p["violated"], out[-600:])))
    for i in range(0, len(cases), 100000): _di_compare(cases[i:i + 100000], binary, asan, mine, s)
    return mine[:2000], s, p

def depinfo_cases(tier, binary, asan=None, maxlen=None):
    """DependencyInfoParser against spec/fn/DepInfo.tla: every byte string up to MaxLen (quick 6, thorough 8) over
    {NUL/version, the three other opcodes, an unknown opcode 0x7F, 'a'}"""
    if maxlen is None: maxlen = 6 if tier == "quick" else 8
    bad = []; summary = Cases(); ps = []
    jobs = [(dict(MaxLen=maxlen, First=part), binary, asan) for part in partitions(DI_ALPHABET, 6)]
    for mine, s, p in pool_map(_job_di, jobs):
        bad.extend(mine); summary.merge(s); ps.append(p)
    return summary, bad, merge_parse(ps)

# ----------------------------------------------------------------------------- shell quoting (C17)
SQ_ALPHABET = [97, 32, 39, 34, 36, 92, 35, 61, 42, 126, 10, 9, 59, 38, 124, 60, 40]

def sh_unquote_real(quoted, workdir):
    """run the quoted texts for real: `set -- <quoted>` in /bin/sh, report (number of words, first word) per text.
    One sh process per batch; a batch whose output does not parse (a syntax error, an open quote swallowing
    the following lines) is re-run text by text."""
    def run(items):
        script = []
        for i, q in items:
            script.append(b"set -- " + q + b"\n" + b"printf 'R%s\\0%s\\0%s\\0' " + str(i).encode() + b' "$#" "$1"\n')
        try:
            r = subprocess.run(["/bin/sh"], input=b"".join(script), capture_output=True, timeout=300, cwd=workdir)   # the script is read from stdin
        except subprocess.TimeoutExpired:
            return None
        f = r.stdout.split(b"\0")
        if f and f[-1] == b"": f.pop()
        if len(f) != 3 * len(items): return None
        res = {}
        for k, (i, q) in enumerate(items):
            if f[3 * k] != b"R" + str(i).encode(): return None
            res[i] = (int(f[3 * k + 1]), f[3 * k + 2])
        return res
    out = {}
    items = list(enumerate(quoted))
    def batch(chunk):
        r = run(chunk)
        if r is None:
            r = {}
            for it in chunk:
                one = run([it])
                r[it[0]] = one[it[0]] if one else (-1, b"")
        return r
    chunks = [items[i:i + 4000] for i in range(0, len(items), 4000)]
    for r in vlib.parallel(batch, chunks): out.update(r)
    return [out[i] for i in range(len(quoted))]

def _sq_judge(strings, expected_q, binary, asan, bad, workdir, summary):
    """strings: list of bytes; expected_q: the specification's quoting (or None).  The judge is /bin/sh."""
    lines = ["shq\t" + hx(s) for s in strings]
    cs = [dict(i=list(x), q=(list(expected_q[k]) if expected_q is not None else None)) for k, x in enumerate(strings)]
    res = safety_check("shq", lines, strings, binary, "plain", bad, cases=cs)
    if asan: safety_check("shq", lines, strings, asan, "asan", bad, cases=cs)
    idx = [k for k, r in enumerate(res) if not r.startswith("@")]
    quoted = [bytes.fromhex(res[k]) if res[k] != "-" else b"" for k in idx]
    real = sh_unquote_real(quoted, workdir)
    differ = 0
    for k, q, (nw, w) in zip(idx, quoted, real):
        s = strings[k]
        if expected_q is not None and q != expected_q[k]: differ += 1
        if nw != 1 or w != s:
            cls = "empty-string" if s == b"" else "comment" if q[:1] == b"#" else "unquoted-special" if q == s else "quoting"
            got = "a syntax error / no result" if nw < 0 else "%d word(s), first %s" % (nw, show(w))
            bad.append(dict(kind="shellquote", family="shq", case=cs[k], fingerprint="shq %s" % cls, input=hx(s), quoted=q.hex(),
                            what="shellEscaped(%s) = %s which /bin/sh reads as %s instead of the one word %s" % (show(s), show(q), got, show(s))))
    summary.n += len(strings); summary.add("bytes_differ_from_spec", differ)
    summary.nontrivial += sum(1 for q, s in zip(quoted, [strings[k] for k in idx]) if q != s)

def _job_sq(args):
    consts, binary, asan, workdir = args
    cases, p, out = tlc_cases("ShellQuote.tla", "ShellQuote.cfg", consts)
    mine = []; s = Cases()
    if p["violated"]: mine.append(dict(kind="spec", fingerprint="spec ShellQuote %s" % p["violated"], what="invariant %s of ShellQuote.tla violated (the intended quoting does not round-trip through the shell model): %s" % (p["violated"], out[-600:])))
    for i in range(0, len(cases), 50000):
        ch = cases[i:i + 50000]
        _sq_judge([bytes(c["i"]) for c in ch], [bytes(c["q"]) for c in ch], binary, asan, mine, workdir, s)
    s.samples = cases[:1] + cases[-1:]
    return mine[:2000], s, p

def shellquote_cases(tier, binary, asan=None, maxlen=None, workdir=None):
    """shellEscaped against spec/fn/ShellQuote.tla; every output is also evaluated by the real /bin/sh.
    Domain: strings up to MaxLen (quick 4, thorough 5) over 17 shell-special bytes (TLC), plus every string of length <= 2 over the bytes 1..255"""
    if maxlen is None: maxlen = 4 if tier == "quick" else 5
    workdir = workdir or vlib.scratch("shq_%d" % os.getpid())
    bad = []; summary = Cases(); ps = []
    jobs = [(dict(MaxLen=maxlen, First=part), binary, asan, workdir) for part in partitions(SQ_ALPHABET, 17)]
    for mine, s, p in pool_map(_job_sq, jobs):
        bad.extend(mine); summary.merge(s); ps.append(p)
    # every 1- and 2-byte string (no NUL): a whitelist widened by ANY character is seen by the real shell
    full = [bytes([a]) for a in range(1, 256)] + [bytes([a, b]) for a in range(1, 256) for b in range(1, 256) if a < 128 or b < 128]
    s2 = Cases(); _sq_judge(full, None, binary, None, bad, workdir, s2)
    summary.n += s2.n; summary.nontrivial += s2.nontrivial; summary.add("all_bytes_len<=2", s2.n)
    return summary, bad, merge_parse(ps)

# ----------------------------------------------------------------------------- grammar mutations of valid files
BASE_MANIFESTS = [
  (b"# a comment\ncflags = -O2 $\n    -g\nworld = w$ x$:y$$\n\npool link\n  depth = 2\n\nrule cc\n  command = cc ${cflags} -c $in -o $out\n  description = CC $out\n"
   b"  depfile = $out.d\n  deps = gcc\n\nrule ld\n  command = ld $in -o $out $extra\n  pool = link\n\n"
   b"build a.o: cc a.c | h.h || gen\n  cflags = -O0\nbuild b$ c.o: cc $world.c\nbuild prog: ld a.o b$ c.o\n  extra = -l$world\n\tdescription = LINK\n"
   b"build gen: phony\ndefault prog\ninclude inc.ninja\nsubninja inc.ninja\n",
   b"incvar = 1\nrule r\n  command = touch $out $incvar\nbuild i.out: r\n"),
  (b"ninja_required_version = 1.5\r\nrule r\r\n  command = a $\r\n  b ${in} $out\r\n  rspfile = $out.rsp\r\n  rspfile_content = $in_newline\r\n  restat = 1\r\n  generator = 1\r\n"
   b"build x y: r z $\r\n  w | i1 i2 || o1\r\n  pool = console\r\nbuild all: phony x y\r\ndefault all\r\n", None),
  (b"rule cc\n  command = $command\nbuild a: cc b\n", None),                       # S12: a rule variable that refers to itself
  (b"rule cc\n  command = $a\n  description = $b\nbuild o: cc i\n  a = $b\n  b = 1\nbuild p: cc\n  description = $description\n", None),
  (b"x=$y\xff\x80\nbuild \xffo$ $:: phony $x|$x||$x\ndefault \xffo$ $:\n", None),
]
BASE_DEPS = [b"a.o: a.c \\\n  /usr/include/h\\ x.h $$y \\\r\n c\\#d.h e:f.h\n\nb.o : b.c\r\n", b"out\\\\\\ 1: dep\\\\1 dep\\ 2\n# trailing\n"]
BASE_DEPINFO = [b"\x00ld64-253\x00\x10/in/a.o\x00\x10/in/b.o\x00\x11/missing\x00\x40/out/prog\x00"]
SPLICE = [36, 58, 124, 61, 35, 10, 13, 9, 32, 12, 11, 255, 128, 0, 123, 125, 92]

def _tokens(data):
    """split into grammar tokens: words, single punctuation bytes, newlines, blank runs"""
    return re.findall(rb"[A-Za-z0-9_.\-/]+|\r\n|[ \t]+|.", data, re.S)

def mutations(data, rnd, nrandom, specials=SPLICE):
    """deterministic single-edit mutants of `data` plus `nrandom` seeded multi-edit mutants"""
    out = []; seen = set()
    def add(b):
        if b not in seen: seen.add(b); out.append(b)
    add(data)
    for i in range(len(data)): add(data[:i])                                   # truncate at every offset
    toks = _tokens(data)
    for i in range(len(toks)):
        add(b"".join(toks[:i] + toks[i + 1:]))                                  # delete one token
        add(b"".join(toks[:i + 1] + toks[i:]))                                  # duplicate one token
        if i + 1 < len(toks): add(b"".join(toks[:i] + [toks[i + 1], toks[i]] + toks[i + 2:]))   # swap two tokens
    for i in range(len(data) + 1):
        for s in specials:
            add(data[:i] + bytes([s]) + data[i:])                               # splice a special byte in
            if i < len(data): add(data[:i] + bytes([s]) + data[i + 1:])         # overwrite with a special byte
    for _ in range(nrandom):
        b = data
        for _ in range(rnd.randint(2, 4)):
            k = rnd.random(); i = rnd.randrange(len(b) + 1)
            if k < 0.35: b = b[:i] + bytes([rnd.choice(specials)]) + b[i:]
            elif k < 0.55: b = b[:i] + b[i + rnd.randint(1, 6):]
            elif k < 0.75: j = rnd.randrange(len(b) + 1); b = b[:i] + b[min(i, j):max(i, j)][:12] + b[i:]
            elif k < 0.9: b = b[:i]
            else: b = b[:i] + bytes([rnd.choice(specials), rnd.choice(specials)]) + b[i:]
        add(b)
    return out

def _mut_extra(r):
    if r.startswith("ok") or r.startswith("?"): return None
    if " OOB" in " " + r: return "callback-out-of-buffer"
    if "PROTOCOL" in r: return "callback-protocol"
    return None

def _mut_compare(lines, binary, label, bad):
    """safety only: a mutated input must give a normal result line"""
    res = drive(binary, lines)
    for ln, r in zip(lines, res):
        f = ln.split("\t"); fn = f[0]; inp = bytes.fromhex(f[-1]) if f[-1] != "-" else b""
        if fn == "manifest": inp = bytes.fromhex(f[1]) if f[1] != "-" else b""
        if r == "@skipped": continue
        if r.startswith("@"):
            fp = safety_fingerprint(fn, r)
            bad.append(dict(kind="safety", family="mutation", case=dict(line=ln), fingerprint=fp, input=hx(inp), line=ln, build=label,
                            what="%s build: %s on mutated input %s: %s" % (label, fp, show(inp[:200]), r[:300])))
        else:
            w = _mut_extra(r)
            if w: bad.append(dict(kind="safety", family="mutation", case=dict(line=ln), fingerprint="%s %s" % (fn, w), input=hx(inp), line=ln, build=label,
                                  what="%s build: %s on mutated input %s" % (label, w, show(inp[:200]))))
    return res

def manifest_mutation_cases(tier, binary, asan=None, seed=1):
    """generator-produced grammar mutations of valid manifests / dependency files / dependency-info files:
    truncate at every offset, delete / duplicate / swap one token, splice or overwrite special bytes, seeded multi-edits.
    Expected: the parser terminates, reads nothing outside the buffer, reports through its callbacks (no expectation on what)."""
    rnd = random.Random(seed)
    nrandom = 300 if tier == "quick" else 6000
    lines = []; fns = []
    for main, inc in BASE_MANIFESTS:
        for m in mutations(main, rnd, nrandom):
            lines.append("manifest\t%s%s" % (hx(m), ("\t" + hx(inc)) if inc is not None else "")); fns.append("manifest")
        if inc is not None:
            for m in mutations(inc, rnd, nrandom // 3):
                lines.append("manifest\t%s\t%s" % (hx(main), hx(m))); fns.append("manifest")
    for d in BASE_DEPS:
        for m in mutations(d, rnd, nrandom, specials=[36, 58, 35, 10, 13, 9, 32, 92, 0, 255]):
            for flag in ("0", "1"): lines.append("makedeps\t%s\t%s" % (hx(flag), hx(m))); fns.append("makedeps")
    for d in BASE_DEPINFO:
        for m in mutations(d, rnd, nrandom, specials=[0, 16, 17, 64, 127, 97]):
            lines.append("depinfo\t%s" % hx(m)); fns.append("depinfo")
    bad = []; summary = Cases()
    def part(args):
        label, b, lo, hi = args
        mine = []
        res = _mut_compare(lines[lo:hi], b, label, mine)
        return mine, res
    n = len(lines); step = max(1, (n + vlib.NCPU - 1) // vlib.NCPU)
    jobs = [("plain", binary, lo, min(n, lo + step)) for lo in range(0, n, step)]
    if asan: jobs += [("asan", asan, lo, min(n, lo + step)) for lo in range(0, n, step)]
    nerr = 0
    for mine, res in vlib.parallel(part, jobs):
        bad.extend(mine)
        nerr += sum(1 for r in res if ("errs=" in r and "errs=0" not in r) or "!:" in r)
    summary.n = n; summary.nontrivial = nerr // (2 if asan else 1)
    for f in fns: summary.add(f)
    summary.samples = [dict(line=lines[0][:120]), dict(line=lines[n // 2][:120])]
    return summary, bad, dict(states=None, distinct=None, violated=None, error=None, runs=0)

# ----------------------------------------------------------------------------- build description (YAML shapes)
SECTION_YAML = {
  "client": {"ok": "client:\n  name: basic\n  version: 0\n", "scalar": "client: basic\n", "seq": "client:\n  - name\n", "emptymap": "client: {}\n",
             "badversion": "client:\n  name: basic\n  version: x\n", "seqkey": "client:\n  name: basic\n  [a]: b\n", "extra": "client:\n  name: basic\n  version: 0\n  some-property: v\n"},
  "tools": {"ok": "tools:\n  shell: {}\n", "scalar": "tools: shell\n", "seq": "tools:\n  - shell\n", "emptymap": "tools: {}\n",
            "unknown-tool": "tools:\n  no-such-tool: {}\n", "unknown-attr": "tools:\n  shell:\n    no-such-attr: 1\n", "tool-scalar": "tools:\n  shell: x\n",
            "attr-seq": "tools:\n  shell:\n    no-such-attr: [a, b]\n", "attr-map": "tools:\n  shell:\n    no-such-attr: {a: b}\n"},
  "targets": {"ok": "targets:\n  \"\": [\"<all>\"]\n  all: [\"<all>\"]\n", "scalar": "targets: all\n", "seq": "targets:\n  - all\n", "emptymap": "targets: {}\n",
              "value-scalar": "targets:\n  all: x\n", "value-map": "targets:\n  all: {a: b}\n", "nested-seq": "targets:\n  all: [[a]]\n"},
  "default": {"ok": "default: all\n", "seq": "default: [all]\n", "map": "default: {a: b}\n", "unknown-target": "default: nosuch\n"},
  "nodes": {"ok": "nodes:\n  \"<all>\": {is-virtual: true}\n  out: {}\n", "scalar": "nodes: x\n", "seq": "nodes:\n  - x\n", "emptymap": "nodes: {}\n",
            "unknown-attr": "nodes:\n  out:\n    no-such-attr: 1\n", "node-scalar": "nodes:\n  out: x\n", "attr-seq": "nodes:\n  out:\n    is-virtual: [a]\n"},
  "commands": {"ok": "commands:\n  C1:\n    tool: shell\n    inputs: [in]\n    outputs: [out, \"<all>\"]\n    args: [\"true\"]\n    description: D\n",
               "scalar": "commands: x\n", "seq": "commands:\n  - x\n", "emptymap": "commands: {}\n",
               "no-tool-first": "commands:\n  C1:\n    inputs: [in]\n    tool: shell\n", "unknown-tool": "commands:\n  C1:\n    tool: no-such-tool\n",
               "tool-seq": "commands:\n  C1:\n    tool: [shell]\n", "cmd-scalar": "commands:\n  C1: x\n", "empty-cmd": "commands:\n  C1: {}\n",
               "inputs-scalar": "commands:\n  C1:\n    tool: shell\n    inputs: in\n    args: [\"true\"]\n", "inputs-nested": "commands:\n  C1:\n    tool: shell\n    inputs: [[in]]\n    args: [\"true\"]\n",
               "outputs-map": "commands:\n  C1:\n    tool: shell\n    outputs: {a: b}\n    args: [\"true\"]\n", "description-seq": "commands:\n  C1:\n    tool: shell\n    description: [a]\n    args: [\"true\"]\n",
               "unknown-attr": "commands:\n  C1:\n    tool: shell\n    args: [\"true\"]\n    no-such-attr: 1\n", "attr-map": "commands:\n  C1:\n    tool: shell\n    args: [\"true\"]\n    env: {A: B}\n",
               "no-args": "commands:\n  C1:\n    tool: shell\n", "dup": "commands:\n  C1:\n    tool: shell\n    args: [\"true\"]\n  C1:\n    tool: shell\n    args: [\"true\"]\n",
               "two-producers": "commands:\n  C1:\n    tool: shell\n    outputs: [out]\n    args: [\"true\"]\n  C2:\n    tool: shell\n    outputs: [out]\n    args: [\"true\"]\n"},
  "bogus": {"ok": "bogus: 1\n"},
}
ROOT_DOCS = {"empty": "", "emptymap": "{}\n", "scalar": "client\n", "seq": "- client\n", "null": "~\n", "two-docs": "client:\n  name: basic\n---\nclient:\n  name: basic\n",
             "comment-only": "# nothing\n", "emptykey": "? \n: x\n", "flow": "{client: {name: basic}, tools: {}}\n", "seqkey": "[client]: {name: basic}\n", "mapkey": "{client: x}: {name: basic}\n",
             "nullvalue": "client:\n", "alias": "client: &a {name: basic}\ntools: *a\n"}

def render_buildfile(shape):
    """shape: list of [section, kind]  (from spec/fn/BuildFileShape.tla)  ->  YAML text"""
    return "".join(SECTION_YAML[s][k] for s, k in shape)

# value shapes below the section level (family "values" of BuildFileShape.tla)
_EL = {"s": "x", "n": "", "q": "[a]", "eq": "[]", "m": "{a: b}", "em": "{}"}     # "n": an empty value is a NullNode ("~" is a plain scalar for llvm::yaml)
_KEY = {"s": None, "q": "? [a] ", "m": "? {a: b} "}
def render_value(v):
    """value shape {top, el} -> YAML flow text"""
    if v["top"] == "scalar": return "x"
    if v["top"] == "null": return ""
    if v["top"] == "seq": return "[" + ", ".join(_EL[e] for e in v["el"]) + "]"
    parts = []
    for i, (k, e) in enumerate(v["el"]):
        parts.append(("k%d: %s" % (i + 1, _EL[e])) if k == "s" else (_KEY[k] + ": " + _EL[e]))
    return "{" + ", ".join(parts) + "}"

def render_value_doc(sec, attr, v):
    """one build file in which the place <sec, attr> holds the value shape v (everything else is well-formed)"""
    head = "client:\n  name: basic\n"
    if attr in ("#entry", "#attr"):
        key = "? [a] " if v["top"] == "seq" else "? {a: b} "
        if attr == "#entry":
            body = {"commands": "{tool: shell, args: [\"true\"]}", "tools": "{}", "nodes": "{}", "targets": "[out]"}[sec]
            return head + "%s: {%s: %s}\n" % (sec, key, body)
        inner = {"commands": "C1: {tool: shell, args: [\"true\"], %s: x}", "tools": "shell: {%s: x}", "nodes": "out: {%s: x}"}[sec] % key
        return head + "%s: {%s}\n" % (sec, inner)
    val = render_value(v)
    if sec == "commands":
        pre = "" if attr == "args" else "    args: [\"true\"]\n"
        return head + "commands:\n  C1:\n    tool: shell\n%s    %s: %s\n" % (pre, attr, val)
    if sec == "tools": return head + "tools:\n  shell:\n    %s: %s\n" % (attr, val)
    if sec == "nodes": return head + "nodes:\n  out:\n    %s: %s\n" % (attr, val)
    if sec == "targets": return head + "targets:\n  all: %s\n" % val
    raise vlib.Infra("unknown section %r" % sec)

def _bf_compare(docs, binary, asan, bad):
    """docs: list of dict(yaml, verdict, shape)"""
    lines = ["buildfile\t" + hx(d["yaml"]) for d in docs]; inputs = [d["yaml"].encode() for d in docs]
    res = safety_check("buildfile", lines, inputs, binary, "plain", bad, cases=docs)
    for d, r in zip(docs, res):
        if r.startswith("@"): continue
        m = re.match(r"(loaded|failed) errs=(\d+)", r)
        if not m: raise vlib.Infra("driver output %r" % r)
        loaded = m.group(1) == "loaded"; errs = int(m.group(2))
        desc = " ".join("%s:%s" % (s, k) for s, k in d["shape"])
        rec = dict(kind="buildfile", family="buildfile", case=d, input=hx(d["yaml"]))
        if not loaded and errs == 0:
            bad.append(dict(rec, fingerprint="buildfile silent-failure", what="build file [%s] failed to load without any error callback" % desc))
        if d["verdict"] == "loads" and (not loaded or errs):
            bad.append(dict(rec, fingerprint="buildfile valid-rejected", what="well-formed build file [%s] %s was rejected (%s)" % (desc, show(d["yaml"].encode()), r)))
        if d["verdict"] == "error" and loaded and errs == 0:
            bad.append(dict(rec, fingerprint="buildfile malformed-accepted", what="malformed build file [%s] %s loaded without any error callback" % (desc, show(d["yaml"].encode()))))
    if asan: safety_check("buildfile", lines, inputs, asan, "asan", bad, cases=docs)

def buildfile_cases(tier, binary, asan=None):
    """build-description loader against spec/fn/BuildFileShape.tla:
    family "sections" (section order / node kinds of whole sections -> verdict class), family "values" (the node kind at every
    place the per-section parsers inspect: attribute values, elements of sequence-valued attributes, keys and values of
    map-valued attributes, target node lists, entry and attribute keys), plus a hand list of root-level documents"""
    cases, p, out = tlc_cases("BuildFileShape.tla", "BuildFileShape.cfg", dict(Depth=1 if tier == "quick" else 2, Family='"sections"'))
    vcases, p2, out2 = tlc_cases("BuildFileShape.tla", "BuildFileShape.cfg", dict(Family='"values"'))
    bad = []; summary = Cases()
    for q in (p, p2):
        if q["violated"]: bad.append(dict(kind="spec", fingerprint="spec BuildFileShape %s" % q["violated"], what="invariant %s of BuildFileShape.tla violated" % q["violated"]))
    docs = [dict(yaml=render_buildfile(c["shape"]), verdict=c["verdict"], shape=c["shape"]) for c in cases]
    docs += [dict(yaml=render_value_doc(c["sec"], c["attr"], c["v"]), verdict=c["verdict"],
                  shape=[[c["sec"], c["attr"]], ["value", (render_value(c["v"]) or "<null>") if c["attr"] not in ("#entry", "#attr") else c["v"]["top"] + "-key"]]) for c in vcases]
    docs += [dict(yaml=y, verdict="loads" if k == "flow" else "error", shape=[["root", k]]) for k, y in ROOT_DOCS.items()]
    n = len(docs); step = max(1, (n + vlib.NCPU - 1) // vlib.NCPU)
    def part(lo):
        mine = []; _bf_compare(docs[lo:lo + step], binary, asan, mine); return mine
    for mine in vlib.parallel(part, list(range(0, n, step))): bad.extend(mine)
    summary.n = n; summary.nontrivial = sum(1 for d in docs if d["verdict"] == "error")
    for v in ("loads", "error", "open"): summary.add(v, sum(1 for d in docs if d["verdict"] == v))
    summary.add("section_shapes", len(cases)); summary.add("value_shapes", len(vcases))
    summary.samples = [dict(shape=d["shape"], verdict=d["verdict"]) for d in docs[:1] + docs[len(cases):len(cases) + 2] + docs[-1:]]
    pm = merge_parse([p, p2])
    return summary, bad, pm

# ----------------------------------------------------------------------------- replay support
def recheck(family, cases, binary, asan=None, workdir=None):
    """re-run stored cases of one family (the `case` field of mismatch records) and return the mismatches found now"""
    bad = []; s = Cases()
    if not cases: return bad
    if family == "lex": _lex_compare(cases, binary, asan, bad, s)
    elif family == "makedeps": _md_compare(cases, binary, asan, bad, s)
    elif family == "depinfo": _di_compare(cases, binary, asan, bad, s)
    elif family == "shq":
        _sq_judge([bytes(c["i"]) for c in cases], [bytes(c["q"]) for c in cases] if all(c.get("q") is not None for c in cases) else None,
                  binary, asan, bad, workdir or vlib.scratch("shq_replay_%d" % os.getpid()), s)
    elif family == "buildfile": _bf_compare(cases, binary, asan, bad)
    elif family == "mutation":
        _mut_compare([c["line"] for c in cases], binary, "plain", bad)
        if asan: _mut_compare([c["line"] for c in cases], asan, "asan", bad)
    else: raise vlib.Infra("unknown case family %r" % family)
    return bad
