#!/bin/bash
# Confirm a seeded change produced by a sub-agent, then archive it under /verif/seeded/<name>.
#   usage: confirm_seed.sh C01_1 [needs-text]
N=$1; WT=/tmp/wt/$N; SO=/tmp/seed_out/$N; DEST=/verif/seeded/$N
set -u
[ -d $WT ] && [ -f $SO/patch.diff ] || { echo "missing $WT or $SO/patch.diff"; exit 2; }
cd $WT
git diff > /tmp/seed_out/$N.actual.diff
if ! diff -q <(grep '^[+-]' /tmp/seed_out/$N.actual.diff) <(grep '^[+-]' $SO/patch.diff) >/dev/null; then echo "NOTE: worktree diff differs from patch.diff; re-applying"; git checkout -- . ; git apply $SO/patch.diff || exit 2; fi
cmake --build _b > /tmp/seed_out/$N.build.log 2>&1 || { echo "BUILD FAILS with patch"; exit 1; }
pass=0; fail=0
for t in _b/bin/*Tests; do out=$($t 2>&1 | grep -E "^\[  PASSED  \]" | grep -oE "[0-9]+"); [ -n "$out" ] && pass=$((pass+out)); $t >/dev/null 2>&1 || fail=$((fail+1)); done
echo "tests with patch: passed=$pass failing_binaries=$fail"
( cd $SO && timeout 900 bash ./run_demo.sh > /tmp/seed_out/$N.demo_with.log 2>&1 ); with=$?
echo "demo with patch: exit $with"
git apply -R $SO/patch.diff && cmake --build _b > /tmp/seed_out/$N.build2.log 2>&1
( cd $SO && timeout 900 bash ./run_demo.sh > /tmp/seed_out/$N.demo_without.log 2>&1 ); without=$?
echo "demo without patch: exit $without"
if [ $pass -ge 83 ] && [ $fail -eq 0 ] && [ $with -ne 0 ] && [ $without -eq 0 ]; then
  mkdir -p $DEST; cp $SO/patch.diff $DEST/; for f in $SO/*; do case $(basename $f) in patch.diff|demo|*.o) ;; *) [ -f $f ] && [ $(stat -c %s $f) -lt 200000 ] && cp $f $DEST/;; esac; done
  python3 - "$N" "$pass" "$with" "$without" <<'PY'
import json, sys
n, p, w, wo = sys.argv[1:5]
json.dump(dict(name=n, property=n.split("_")[0], needs="see README.md (written by the independent sub-agent)",
               confirmed=dict(existing_tests_passed_with_patch=int(p), demo_exit_with_patch=int(w), demo_exit_without_patch=int(wo)),
               ran=["cmake --build _b (patched)", "for t in _b/bin/*Tests; do $t; done", "run_demo.sh (patched) -> non-zero", "git apply -R patch.diff; cmake --build _b; run_demo.sh -> 0"],
               detected_by=None), open("/verif/seeded/%s/meta.json" % n, "w"), indent=1)
PY
  echo "CONFIRMED $N"
  git -C /repo worktree remove --force $WT
else
  echo "NOT CONFIRMED $N"; exit 1
fi
