#!/usr/bin/env python3
"""Engine-level checks (C01-C07, C20): TLC model checking of Engine.tla on a focused
configuration + trace validation of engine_driver executions against Engine.tla."""
import json, os, random, subprocess, sys, time
sys.path.insert(0, os.path.dirname(__file__))
import vlib, enginegen
from vlib import log

INV2PROP = {"TCleanResult": "C01", "TFreshInputs": "C01", "TAtMostOnce": "C02", "TNullBuild": "C02",
            "TJustified": "C02", "TDBConsistent": "C04"}

def run_driver(binary, casefile, outfile, env=None, timeout=600):
    e = dict(os.environ); e.update(env or {})
    try:
        r = subprocess.run([binary, casefile, outfile], env=e, capture_output=True, text=True, timeout=timeout)
        return r.returncode, r.stderr[-2000:]
    except subprocess.TimeoutExpired:
        return 124, "driver timeout"

def read_trace(path):
    lines = []
    with open(path, "rb") as f:
        for ln in f.read().decode("utf-8", "replace").split("\n"):
            if ln and '"e":"Choice"' not in ln: lines.append(ln)
    return lines

def nontrivial(ex_lines):
    """an execution is non-trivial if the incremental machinery was exercised: some rule was
    brought up to date without running in a build after it had run in an earlier one, and
    some rule ran in a build that was not the first."""
    builds = 0; ran_before = set(); up = False; rerun = False
    for ln in ex_lines:
        if ln.startswith('{"e":"Build"'): builds += 1
        elif ln.startswith('{"e":"Create"'):
            k = json.loads(ln)["k"]
            if builds > 1 and k in ran_before: rerun = True
            ran_before.add(k)
        elif ln.startswith('{"e":"Status"') and '"uptodate"' in ln:
            if json.loads(ln)["k"] in ran_before: up = True
    return up and rerun

def run_cases(pid, workdir, cases, binary, batch=60, env=None, module="EngineTrace.tla", cfg="EngineTrace.cfg", keep_execs=False):
    """cases: list of CaseBuilder.  returns dict with counts and rejections."""
    batches = [cases[i:i + batch] for i in range(0, len(cases), batch)]
    def one(ib):
        i, b = ib
        cf = os.path.join(workdir, "b%d.cases" % i); tf = os.path.join(workdir, "b%d.trace" % i)
        with open(cf, "w") as f:
            for c in b: f.write(c.text())
        rc, err = run_driver(binary, cf, tf, env=env)
        lines = read_trace(tf) if os.path.exists(tf) else []
        execs = vlib.split_executions(lines)
        crashed = None
        if rc != 0:
            crashed = dict(rc=rc, err=err)
        acc, rej, states, events = vlib.validate_executions(execs, workdir, "b%d" % i, module, cfg)
        nt = set(); 
        for c, ex in zip(b, execs):
            if nontrivial(ex): nt.add(c.signature())
        # attach case text to rejections
        byid = {c.cid: c for c in b}
        for r in rej:
            try: cid = json.loads(r["lines"][0]).get("id")
            except Exception: cid = None
            r["case"] = byid[cid].text() if cid in byid else None
            r["cid"] = cid
        if crashed and not rej and len(execs) < len(b):
            # the driver died (hang / abort / crash) in an execution whose partial trace is a prefix
            c = b[len(execs) - 1] if execs else b[0]
            rej.append(dict(lines=execs[-1] if execs else [], reason="driver exit %s" % crashed["rc"], at=0,
                            event=(execs[-1][-1] if execs and execs[-1] else ""), violated=None, case=c.text(), cid=c.cid))
        os.unlink(cf)
        if os.path.exists(tf): os.unlink(tf)
        keep = {}
        if keep_execs:
            for ex in execs:
                try: keep[json.loads(ex[0]).get("id")] = ex
                except Exception: pass
        return dict(accepted=acc, rejections=rej, states=states, events=events, executions=len(execs), nontrivial=nt,
                    sample=(execs[0][:40] if execs and i == 0 else None), execs_by_id=keep,
                    driver_errors=([dict(rc=crashed["rc"], err=crashed["err"], cases="".join(c.text() for c in b))] if crashed else []))
    results = vlib.parallel(one, list(enumerate(batches)))
    tot = dict(accepted=0, rejections=[], states=0, events=0, executions=0, nontrivial=set(), sample=None, execs_by_id={}, driver_errors=[])
    for r in results:
        tot["accepted"] += r["accepted"]; tot["rejections"] += r["rejections"]; tot["states"] += r["states"]
        tot["events"] += r["events"]; tot["executions"] += r["executions"]; tot["nontrivial"] |= r["nontrivial"]
        if r["sample"] and not tot["sample"]: tot["sample"] = r["sample"]
        tot["execs_by_id"].update(r["execs_by_id"]); tot["driver_errors"] += r["driver_errors"]
    return tot

def model_check(cfgname, module, workers=None, timeout=3000, heap="-Xmx20g", simulate=None):
    t0 = time.time()
    if os.environ.get("VERIF_SKIP_MC"):      # development only (tools/seedrun.sh): the model does not depend on the code
        return dict(states=0, distinct=0, depth=0, violated=None, error=None, wall=0.0, out="", rc=0)
    rc, out = vlib.tlc(module, cfgname, workers=workers or vlib.NCPU, heap=heap, timeout=timeout, simulate=simulate)
    p = vlib.parse_tlc(out)
    if p["error"] or (p["distinct"] is None and not p["violated"] and rc != 124 and not simulate):
        raise vlib.Infra("model checking %s failed: %s\n%s" % (cfgname, p["error"], out[-3000:]))
    p["wall"] = time.time() - t0; p["out"] = out; p["rc"] = rc
    return p
