#!/usr/bin/env python3
"""Generator of scripted-program cases for harness/engine_driver (C01-C07, C20).

A case = program (rule records, the same records Engine.tla interprets) + initial
external state + history (engine creation/restart, mutate, build, reset).
The text format read by the driver is documented in engine_driver.cpp (main)."""
import json, random, hashlib

LEAVES = ["a", "b", "c", "d"]
DERIVED = ["e", "f", "g", "h"]
KEYS = LEAVES + DERIVED

def leaf_rule(sig=1):
    return dict(leaf=True, start=[], dynOn="none", dynThen=[], dynElse=[], disc=[], proj=[],
                base=0, force=False, valid=True, sig=sig, out=False)

def gen_program(rng, cyclic=False, allow=("follow", "single", "dyn", "disc", "force", "invalid", "out")):
    prog = {k: leaf_rule() for k in LEAVES}
    for di, me in enumerate(DERIVED):
        earlier = LEAVES + DERIVED[:di]
        def pick():
            if cyclic and rng.random() < 0.35:
                return rng.choice(DERIVED)
            return rng.choice(earlier)
        used = set()
        start = []
        for _ in range(rng.choice([1, 1, 2, 2, 3])):
            k = pick()
            if k in used: continue
            used.add(k)
            r = rng.random()
            kind = "in"
            if r < 0.15 and "follow" in allow: kind = "follow"
            elif r < 0.27 and "single" in allow: kind = "single"
            start.append(dict(k=k, kind=kind))
        dynOn, dynThen, dynElse = "none", [], []
        if "dyn" in allow and rng.random() < 0.4:
            cands = [r["k"] for r in start if r["kind"] == "in"]  # a single-use input must not influence the value
            if cands:
                dynOn = rng.choice(cands)
                for lst in (dynThen, dynElse):
                    if rng.random() < 0.75:
                        k = pick()
                        if k not in used and all(x["k"] != k for x in lst):
                            kind = "in" if rng.random() < 0.8 or "follow" not in allow else "follow"
                            lst.append(dict(k=k, kind=kind))
                for x in dynThen + dynElse: used.add(x["k"])
                if not dynThen and not dynElse: dynOn = "none"
        disc = []
        if "disc" in allow and rng.random() < 0.3:
            l = rng.choice(LEAVES)
            # a discovered key may coincide with a key the task also requested as must-follow or single-use
            # (the recorded list then holds the key twice, with different flags)
            kinds = {r["kind"] for r in start + dynThen + dynElse if r["k"] == l}
            if l not in used or (kinds and kinds <= {"follow", "single"} and rng.random() < 0.7): disc.append(l)
        if "disc" in allow and di > 0 and rng.random() < 0.12:
            # a discovered DERIVED key (reported, not read): it is brought up to date after the task finished
            dk = rng.choice(DERIVED[:di])
            if dk not in used and dk not in disc: disc.append(dk)
        proj = [r["k"] for r in start if r["kind"] == "in" and rng.random() < 0.8]
        proj += [r["k"] for r in dynThen + dynElse if r["kind"] == "in" and r["k"] not in proj]
        prog[me] = dict(leaf=False, start=start, dynOn=dynOn, dynThen=dynThen, dynElse=dynElse, disc=disc,
                        proj=proj, base=rng.randrange(3),
                        force=("force" in allow and rng.random() < 0.12),
                        valid=not ("invalid" in allow and rng.random() < 0.12), sig=1,
                        out=("out" in allow and rng.random() < 0.3))
    return prog

def gen_cycle_back_case(rng, cid, dbdir=None):
    """C07: the key being built is itself part of a cycle that only exists in the second build: R is valid and being
    scanned (its recorded dependency chain leads to X) when X's new task requests R."""
    prog = gen_program(rng, cyclic=False, allow=("follow", "dyn", "disc", "force", "out"))
    chain = rng.sample(DERIVED, rng.randint(2, 3)); chain.sort(key=DERIVED.index, reverse=True)      # R = chain[0] ... X = chain[-1]
    for up, down in zip(chain, chain[1:]):
        if all(r["k"] != down for r in prog[up]["start"]): prog[up]["start"].insert(rng.randrange(len(prog[up]["start"]) + 1), dict(k=down, kind="in"))
        prog[up]["valid"] = True
    ext = {l: rng.randrange(2) for l in LEAVES}; ext.update({k: 0 for k in DERIVED})
    cb = CaseBuilder(cid, prog, ext)
    usedb = dbdir is not None and rng.random() < 0.6
    dbpath = "%s/%s.db" % (dbdir, cid) if usedb else None
    cb.engine(db=dbpath)
    R, X = chain[0], chain[-1]
    cb.build(R, mode=rng.choice(["sync", "det"]), seed=rng.randrange(1 << 30), defer=100)
    newprog = json.loads(json.dumps(cb.prog))
    newprog[X]["start"] = newprog[X]["start"] + [dict(k=R, kind=rng.choice(["in", "follow"]))]
    if rng.random() < 0.5: newprog[X]["sig"] += 1
    else: newprog[X]["valid"] = False
    if usedb or rng.random() < 0.5:
        cb.engine(db=dbpath, newprog=newprog)
        if not usedb: cb.build(R, mode="sync", seed=1)     # a database-less restart forgets everything: rebuild first
    else:
        cb.engine(db=dbpath, newprog=newprog)
    l = rng.choice(LEAVES)
    if rng.random() < 0.5: cb.mutate(l, 1 - cb.ext[l])
    cb.build(R, mode=rng.choice(["sync", "det"]), seed=rng.randrange(1 << 30), defer=100)
    cb.end()
    return cb

def gen_disc_cycle_case(rng, cid, dbdir=None):
    """C07: a cycle that exists only among recorded dependencies: A discovers the derived key D while it runs, D requests A
    (no cycle in that build: A is complete when D asks); a later build of a key R that was never built requests A while
    A and D are up to date and merely scanned: R -> A -> D -> A."""
    prog = gen_program(rng, cyclic=False, allow=("follow", "dyn", "force", "out"))
    A, D, R = rng.sample(DERIVED, 3)
    for k in (A, D, R):
        prog[k]["valid"] = True
        prog[k]["start"] = [r for r in prog[k]["start"] if r["k"] in LEAVES] or [dict(k=rng.choice(LEAVES), kind="in")]
        prog[k]["dynOn"] = "none"; prog[k]["dynThen"] = []; prog[k]["dynElse"] = []; prog[k]["disc"] = []
        prog[k]["proj"] = [r["k"] for r in prog[k]["start"] if r["kind"] == "in"]
    prog[A]["disc"] = [D]
    prog[D]["start"] = prog[D]["start"] + [dict(k=A, kind=rng.choice(["in", "follow"]))]
    prog[R]["start"] = prog[R]["start"] + [dict(k=A, kind="in")]; prog[R]["proj"].append(A)
    other = [k for k in DERIVED if k not in (A, D, R)][0]
    prog[other] = dict(prog[other]); prog[other]["start"] = [r for r in prog[other]["start"] if r["k"] in LEAVES] or [dict(k="a", kind="in")]
    prog[other]["dynOn"] = "none"; prog[other]["dynThen"] = []; prog[other]["dynElse"] = []; prog[other]["disc"] = []
    prog[other]["proj"] = [r["k"] for r in prog[other]["start"] if r["kind"] == "in"]
    ext = {l: rng.randrange(2) for l in LEAVES}; ext.update({k: 0 for k in DERIVED})
    cb = CaseBuilder(cid, prog, ext)
    usedb = dbdir is not None and rng.random() < 0.5
    dbpath = "%s/%s.db" % (dbdir, cid) if usedb else None
    cb.engine(db=dbpath)
    cb.build(A, mode=rng.choice(["sync", "det"]), seed=rng.randrange(1 << 30), defer=100)
    if usedb and rng.random() < 0.5: cb.engine(db=dbpath)
    if rng.random() < 0.3:
        l = rng.choice(LEAVES); cb.mutate(l, 1 - cb.ext[l])
    # ... or of A / D themselves: everything is up to date, no task is ever created, the SCANS of A and D wait for each other
    # (S36: the engine only looked for a cycle when tasks were in flight and returned the stored value)
    second = R if rng.random() < 0.5 else rng.choice([A, D])
    cb.build(second, mode=rng.choice(["sync", "det"]), seed=rng.randrange(1 << 30), defer=100)
    cb.end()
    return cb

def gen_waiting_cancel_case(rng, cid, dbdir=None):
    """C05 (seed C05_3): W requests the leaf X only DYNAMICALLY (after its first inputs arrived); X changes, W is demanded
    again and the build is cancelled while W's task is still waiting - its dependency list has been cleared and only the
    first inputs re-recorded; the next build of the same engine must run W again instead of scanning that partial list."""
    prog = gen_program(rng, cyclic=False, allow=("follow", "dyn", "force", "out"))
    W, M = rng.sample(DERIVED, 2); A, B, X = rng.sample(LEAVES, 3)
    for k in DERIVED:
        prog[k] = dict(prog[k]); prog[k]["valid"] = True; prog[k]["out"] = False; prog[k]["force"] = False
        prog[k]["start"] = [r for r in prog[k]["start"] if r["k"] in LEAVES and r["k"] != X] or [dict(k=A, kind="in")]
        prog[k]["dynOn"] = "none"; prog[k]["dynThen"] = []; prog[k]["dynElse"] = []; prog[k]["disc"] = []
        prog[k]["proj"] = [r["k"] for r in prog[k]["start"] if r["kind"] == "in"]
    # M: an intermediate rule W waits for (so that a cancel can land while W is waiting)
    prog[M]["start"] = [dict(k=B, kind="in")]; prog[M]["proj"] = [B]
    prog[W]["start"] = [dict(k=A, kind="in"), dict(k=M, kind="in")]; prog[W]["dynOn"] = A
    prog[W]["dynThen"] = [dict(k=X, kind="in")]; prog[W]["dynElse"] = [dict(k=X, kind="in")]; prog[W]["proj"] = [A, M, X]
    ext = {l: rng.randrange(2) for l in LEAVES}; ext.update({k: 0 for k in DERIVED})
    cb = CaseBuilder(cid, prog, ext)
    usedb = dbdir is not None and rng.random() < 0.4
    cb.engine(db=("%s/%s.db" % (dbdir, cid)) if usedb else None)
    cb.build(W, mode=rng.choice(["sync", "det"]), seed=rng.randrange(1 << 30), defer=100)
    cb.mutate(X, 1 - cb.ext[X])
    if rng.random() < 0.5: cb.mutate(B, 1 - cb.ext[B])          # (M runs as well: more points at which W is waiting)
    cb.build(W, mode=rng.choice(["sync", "det", "det"]), seed=rng.randrange(1 << 30), defer=rng.choice([100, 60]), cancel=rng.randint(2, 26), verify=1)
    cb.reset()
    cb.build(W, mode="sync", seed=rng.randrange(1 << 30), verify=1)
    cb.end()
    return cb

def gen_stranded_case(rng, cid, dbdir=None):
    """C05 (S37): R reads the leaf L through a DISCOVERED dependency; L has a record from an earlier build, changes, R is built
    and the build is cancelled at one of its first points - in some of them after R completed and before L was brought up
    to date; L then changes BACK to the recorded value and R is built again (same engine, or restarted from the database):
    the stale value of R must not look current."""
    prog = gen_program(rng, cyclic=False, allow=("follow", "dyn", "force", "out"))
    R = rng.choice(DERIVED); L, A = rng.sample(LEAVES, 2)
    prog[R] = dict(prog[R]); prog[R]["valid"] = True; prog[R]["out"] = False; prog[R]["force"] = False
    prog[R]["start"] = [dict(k=A, kind=rng.choice(["in", "single"]))]; prog[R]["dynOn"] = "none"; prog[R]["dynThen"] = []; prog[R]["dynElse"] = []
    prog[R]["disc"] = [L]; prog[R]["proj"] = [A] if prog[R]["start"][0]["kind"] == "in" else []
    for k in DERIVED:
        if k != R:
            prog[k] = dict(prog[k]); prog[k]["start"] = [r for r in prog[k]["start"] if r["k"] in LEAVES] or [dict(k="a", kind="in")]
            prog[k]["dynOn"] = "none"; prog[k]["dynThen"] = []; prog[k]["dynElse"] = []; prog[k]["disc"] = []
            prog[k]["proj"] = [r["k"] for r in prog[k]["start"] if r["kind"] == "in"]
    ext = {l: rng.randrange(2) for l in LEAVES}; ext.update({k: 0 for k in DERIVED})
    cb = CaseBuilder(cid, prog, ext)
    usedb = dbdir is not None and rng.random() < 0.5
    dbpath = "%s/%s.db" % (dbdir, cid) if usedb else None
    cb.engine(db=dbpath)
    cb.build(L, mode="sync", seed=rng.randrange(1 << 30))
    old = cb.ext[L]; cb.mutate(L, 1 - old)
    cb.build(R, mode=rng.choice(["sync", "det"]), seed=rng.randrange(1 << 30), defer=100, cancel=rng.randint(3, 22), verify=1)
    cb.reset()
    if usedb and rng.random() < 0.5: cb.engine(db=dbpath)
    cb.mutate(L, old)
    cb.build(R, mode="sync", seed=rng.randrange(1 << 30), verify=1)
    cb.end()
    return cb

def rule_line(k, r):
    def reqs(l): return ",".join("%s:%s" % (x["k"], x["kind"]) for x in l)
    return ("rule %s leaf=%d sig=%d base=%d force=%d valid=%d out=%d start=%s dyn=%s then=%s else=%s disc=%s proj=%s" %
            (k, r["leaf"], r["sig"], r["base"], r["force"], r["valid"], r.get("out", False), reqs(r["start"]),
             "" if r["dynOn"] == "none" else r["dynOn"], reqs(r["dynThen"]), reqs(r["dynElse"]),
             ",".join(r["disc"]), ",".join(r["proj"])))

ADVERSARIAL_KEYS = [b"1", b"01", b"1.0", b"1e2", b"in\x00put", b"in", b"\xff\xfe", b"x" * 300, b" ", b"a'b", b"0x10", b"-0", b"k\x00"]

class CaseBuilder:
    def __init__(self, cid, prog, ext):
        self.cid = cid; self.prog = prog; self.ext = dict(ext)
        self.lines = ["case %s" % cid,
                      "raw " + json.dumps(dict(e="Reset", id=cid, prog=prog, ext=ext), separators=(",", ":"))]
        for k in KEYS: self.lines.append(rule_line(k, prog[k]))
        for k, v in ext.items(): self.lines.append("ext %s %d" % (k, v))
        self.steps = []
    def keybytes(self, mapping):
        for k, b in mapping.items(): self.lines.append("keybytes %s %s" % (k, b.hex()))
    def valbytes(self, vals):
        self.lines.append("valbytes " + " ".join(("-" if not v else v.hex()) for v in vals))
    def engine(self, db=None, ver=1, recreate=1, newprog=None):
        if newprog is not None:
            self.prog = newprog
            for k in KEYS: self.lines.append(rule_line(k, newprog[k]))
            rest = ' rest="prog":' + json.dumps(newprog, separators=(",", ":"))
        else: rest = ""
        self.lines.append("engine db=%s ver=%d recreate=%d%s" % (db or "none", ver, recreate, rest))
        self.steps.append(("engine", bool(db), ver))
    def mutate(self, k, v):
        self.ext[k] = v; self.lines.append("mutate %s %d" % (k, v)); self.steps.append(("mutate", k, v))
    def build(self, k, **kw):
        self.lines.append("build %s %s" % (k, " ".join("%s=%s" % kv for kv in kw.items())))
        self.steps.append(("build", k, tuple(sorted(kw.items()))))
    def reset(self):
        self.lines.append("reset"); self.steps.append(("reset",))
    def raw(self, line):
        self.lines.append(line)
    def end(self):
        self.lines.append("end")
    def text(self):
        return "\n".join(self.lines) + "\n"
    def signature(self):
        """canonical hash of (program, history) ignoring schedule seeds"""
        hist = [s if s[0] != "build" else ("build", s[1], tuple(x for x in s[2] if x[0] in ("mode", "cancel"))) for s in self.steps]
        return hashlib.sha1(json.dumps([self.prog, hist], sort_keys=True).encode()).hexdigest()

def gen_case(rng, cid, dbdir=None, cyclic=False, modes=("sync", "det"), cancel_p=0.25, restart_p=0.15,
             nsteps=(3, 7), db_p=0.5, sigchange_p=0.3, rewire_p=0.3, rewire_cyclic=False, adversarial=False, allow=None, verify=False, repeat_p=0.0, ver_p=0.0):
    prog = gen_program(rng, cyclic=cyclic) if allow is None else gen_program(rng, cyclic=cyclic, allow=allow)
    ext = {l: rng.randrange(2) for l in LEAVES}; ext.update({k: 0 for k in DERIVED})
    cb = CaseBuilder(cid, prog, ext)
    if adversarial:
        pool = rng.sample(ADVERSARIAL_KEYS, len(KEYS))
        cb.keybytes({k: pool[i] for i, k in enumerate(KEYS)})
        cb.valbytes([b"", rng.choice([b"\x00", b"\x01", b"1"]), rng.choice([b"\x00\x00", b"\xff\x00\xfe", b"x" * 70000, b"0"])])
    usedb = dbdir is not None and rng.random() < db_p
    dbpath = "%s/%s.db" % (dbdir, cid) if usedb else None
    cb.engine(db=dbpath)
    ver = 1
    n = rng.randint(*nsteps)
    for _ in range(n):
        r = rng.random()
        if r < 0.28:
            outs = [k for k in DERIVED if cb.prog[k].get("out")]
            if outs and rng.random() < 0.3:       # tamper with / delete an output
                k = rng.choice(outs); cb.mutate(k, rng.choice([v for v in range(3) if v != cb.ext[k]]))
            else:
                l = rng.choice(LEAVES); cb.mutate(l, 1 - cb.ext[l])
        elif r < 0.28 + restart_p:
            newprog = None
            r2 = rng.random()
            if r2 < sigchange_p:
                newprog = json.loads(json.dumps(cb.prog))
                k = rng.choice(KEYS); newprog[k]["sig"] += 1
            elif r2 < sigchange_p + rewire_p:
                # a rule is redefined (new wiring, new signature); with cyclic=True the new wiring may
                # close a cycle through dependencies recorded by earlier builds
                newprog = json.loads(json.dumps(cb.prog))
                cyc2 = cyclic or (rewire_cyclic and rng.random() < 0.6)
                fresh = gen_program(rng, cyclic=cyc2) if allow is None else gen_program(rng, cyclic=cyc2, allow=allow)
                k = rng.choice(DERIVED)
                oldsig = newprog[k]["sig"]; newprog[k] = fresh[k]; newprog[k]["sig"] = oldsig + 1
            if rng.random() < ver_p: ver = 3 - ver        # the client (schema) version changes: the stored results must not be interpreted
            cb.engine(db=dbpath, newprog=newprog, ver=ver)
        else:
            k = rng.choice(KEYS if rng.random() < 0.3 else DERIVED)
            kw = dict(mode=rng.choice(modes), seed=rng.randrange(1 << 30))
            if kw["mode"] == "det": kw["defer"] = rng.choice([100, 100, 60, 30])
            cancel = rng.random() < cancel_p
            if cancel: kw["cancel"] = rng.randint(1, 45)
            if verify: kw["verify"] = 1
            cb.build(k, **kw)
            if cancel and rng.random() < 0.9: cb.reset()
            if rng.random() < repeat_p:          # immediate rebuild of the same key: a null build
                kw2 = dict(kw); kw2.pop("cancel", None); kw2["seed"] = rng.randrange(1 << 30)
                cb.build(k, **kw2)
    cb.end()
    return cb
