#!/usr/bin/env python3
"""Function-level checks: TLC enumerates the bounded input domain of a transcribed function together with the
expected result (spec/fn/*.tla print `CASE` records), the cases are replayed through the real function
(harness/fn_driver, exact-size buffers) and compared."""
import json, os, re, subprocess, sys, time
sys.path.insert(0, os.path.dirname(os.path.abspath(__file__)))
import vlib

def enumerate_cases(module, cfg, consts=None, timeout=3600, workers=1):
    """run TLC on spec/fn/<module> and collect the printed CASE records.  returns (cases, tlc_parse)"""
    cfgpath = os.path.join(vlib.SPEC, "fn", cfg)
    if consts:
        txt = open(cfgpath).read()
        for k, v in consts.items(): txt = re.sub(r"(%s\s*=\s*)\S+" % k, r"\g<1>%s" % v, txt)
        os.makedirs(vlib.OUT, exist_ok=True)
        cfgpath = os.path.join(vlib.OUT, "fncfg_%s_%d.cfg" % (cfg.replace(".cfg", ""), os.getpid()))
        open(cfgpath, "w").write(txt)
    rc, out = vlib.tlc(module, cfgpath, cwd=os.path.join(vlib.SPEC, "fn"), workers=workers, heap="-Xmx8g", timeout=timeout)
    # the verdict is parsed from what TLC says besides the printed cases (a case line can be hundreds of kilobytes of digits and
    # commas, on which the state-count pattern of parse_tlc backtracks quadratically)
    p = vlib.parse_tlc("\n".join(l for l in out.split("\n") if not l.startswith('<<"CASE"')))
    if p["error"] or p["distinct"] is None:
        if not p["violated"]:
            raise vlib.Infra("TLC failed on fn/%s: %s\n%s" % (module, p["error"], out[-2000:]))
    cases = []; seen = set()
    for m in re.finditer(r'^<<"CASE", "(.*)">>$', out, re.M):
        s = m.group(1).encode().decode("unicode_escape") if "\\" in m.group(1) else m.group(1)
        if s in seen: continue
        seen.add(s)
        cases.append(json.loads(s))
    if consts: os.unlink(cfgpath)
    return cases, p, out

def run_driver(binary, lines, timeout=3600, env=None):
    e = dict(os.environ); e.update(env or {})
    r = subprocess.run([binary], input="\n".join(lines) + "\n", capture_output=True, text=True, timeout=timeout, env=e)
    return r.returncode, r.stdout.split("\n"), r.stderr

def hx(b):
    if isinstance(b, str): b = b.encode("latin-1")
    return b.hex() if b else "-"
