#!/usr/bin/env python3
"""write known_findings.txt (one plain line per entry, the format of the task brief) from known_findings.jsonl"""
import json, os
root = os.path.dirname(os.path.dirname(os.path.abspath(__file__)))
out = []
for l in open(root + "/known_findings.jsonl"):
    if not l.strip(): continue
    e = json.loads(l); what = " ".join(e["what"].split())
    if e["status"] == "fixed": out.append("fixed: property=%s %s %s [%s]" % (e["property"], e["commit"], what, e["id"]))
    else: out.append("known: property=%s %s -- %s [%s]" % (e["property"], e["fingerprint"], what, e["id"]))
open(root + "/known_findings.txt", "w").write("\n".join(out) + "\n")
print(len(out), "entries")
