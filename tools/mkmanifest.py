#!/usr/bin/env python3
"""(re)generate /verif/MANIFEST.json from the table below"""
import json, subprocess
HOOK_COMMITS = ["766c66c"]
ENGINE_NOTE = ("Trusted base: TLC; the transcription of the scripted client rules in harness/engine_driver.cpp and in the 'client semantics' "
               "section of spec/Engine.tla (cross-checked by the CleanCheck events: a from-scratch build by the real engine must equal the "
               "specification's Clean operator); bounded program family and history length in the exhaustive configuration; implementation "
               "executions are sampled (seeded), each one fully validated against the specification.")
def eng(pid, text, technique, design="7"):
    return dict(property_id=pid, quick_cmd="./tools/check %s --tier quick" % pid, thorough_cmd="./tools/check %s --tier thorough" % pid,
                evidence_file="/verif/evidence/%s.json" % pid, replay_cmd_template="./tools/check %s --replay {path}" % pid,
                engine="tlc+engine_driver", level_claimed=dict(category="model_checking", text=text, design_ref="DESIGN.md §3, §7 " + pid),
                level_note=ENGINE_NOTE, technique=technique)
CHECKS = [
 eng("C01", "TLC checks CleanResult/FreshInputs on Engine.tla for every interleaving of every bounded history (mutate/build/restart with database) of the program family; every event of thousands of real-engine executions is validated against the same specification, which evaluates the Clean oracle at every provideValue and every successful return.",
     "TLA+ spec (Engine.tla) model-checked with TLC + trace validation of real engine executions"),
 eng("C02", "AtMostOnce/NullBuild/Justified are TLC invariants of Engine.tla; in trace validation the guard of NeedsRun(rule, reason, input) is the justification, evaluated against the observer's own record of epochs, so an unjustified or mis-reported execution has no matching specification step.",
     "TLA+ spec model-checked with TLC + trace validation (guards = justification of every execution)"),
 eng("C03", "Database image (db/txn) is part of Engine.tla: Restart loads exactly the committed rows, the version gate recreates; every DbLookup and post-build Snapshot of the real SQLite file is compared with the specification's image (values, signature, both epochs, ordered flagged dependency list) for adversarial key/value bytes; every history is also run as a single-engine/restart-at-every-build twin pair and the executions/results compared.",
     "TLA+ spec model-checked with TLC + trace validation of database reads/snapshots + restart-twin comparison"),
 eng("C05", "Cancel is an action enabled in every state of Engine.tla; TLC checks CleanResult/NoStall/DBConsistent on all behaviours with a cancellation anywhere followed by reset-and-rebuild or restart; the driver delivers cancelBuild at every callback/hook point of real builds, continues the history on the same engine and on restarted engines, and each trace is validated (a hang is reported by a watchdog).",
     "TLA+ spec model-checked with TLC + trace validation with cancellation injected at engine hook points"),
 eng("C06", "All interleavings of client Complete calls with engine steps are explored by TLC (protocol guards on Start/Prior/Provide/InputsAvailable); the deterministic driver enumerates completion orders and delivery points (inside inputsAvailable, loop top, before the wait, in the cancel drain) through the three engine hooks, validates every trace and compares the outcome of all schedules of the same history.",
     "TLA+ spec model-checked with TLC + systematic schedule enumeration on the real engine + trace validation"),
 eng("C07", "CycleDetected(list) is enabled only when the engine is Stuck and the list is a chain of real wait-for edges starting at the target and closing on itself; NoStall/NoFalseCycle are TLC invariants over a cyclic program family including rewired programs across restarts; every cycleDetected callback of the real engine is validated edge by edge.",
     "TLA+ spec model-checked with TLC + trace validation of cycle reports"),
 dict(property_id="C04", quick_cmd="./tools/check C04 --tier quick", thorough_cmd="./tools/check C04 --tier thorough",
      evidence_file="/verif/evidence/C04.json", replay_cmd_template="./tools/check C04 --replay {path}", engine="tlc+engine_driver+killshim",
      level_claimed=dict(category="fault_enumeration", text="The driver process is SIGKILLed before the N-th system call that touches the database or its journal, for every N inside every build of generated histories (all N in the thorough tier); a new process checks PRAGMA integrity_check, snapshots the file and continues the history; the spliced trace <prefix, Crash, Snapshot, continuation> must be a behaviour of Engine.tla, whose Crash/CrashAfterCommit actions admit exactly the last committed image (or the new one once setCurrentIteration was issued), and CleanResult is evaluated on every later build (tasks with output cells model outputs already modified). TLC also checks DBConsistent/CleanResult on the specification with Crash enabled in every state.", design_ref="DESIGN.md §7 C04"),
      level_note="Fault = process kill, not power loss. Interception at the libc entry points sqlite3 imports. Trusted: TLC, the LD_PRELOAD shim's call counting, synchronous completion mode making kill points reproducible.",
      technique="TLA+ spec (Crash actions) + kill-point enumeration on the real process, recovered traces validated against the spec"),
 dict(property_id="C20", quick_cmd="./tools/check C20 --tier quick", thorough_cmd="./tools/check C20 --tier thorough",
      evidence_file="/verif/evidence/C20.json", replay_cmd_template="./tools/check C20 --replay {path}", engine="tlc+engine_driver_capi",
      level_claimed=dict(category="model_checking", text="The same scripted programs are written against core.h (harness/engine_driver_capi.cpp); every history is driven through both interfaces, the C trace is validated against Engine.tla (EngineTraceC.tla, where the events the C interface cannot express are inferred by TLC and the database snapshot pins them) and compared event by event with the C++ run (callbacks, executions, results, persisted rows).", design_ref="DESIGN.md §7 C20"),
      level_note=ENGINE_NOTE + " The exhaustive model checking of Engine.tla itself is the one reported under C01-C07; this check contributes the binding of the C interface to that specification.",
      technique="trace validation of C-interface executions against the TLA+ spec + C/C++ twin comparison"),
 dict(property_id="C13", quick_cmd="./tools/check C13 --tier quick", thorough_cmd="./tools/check C13 --tier thorough",
      evidence_file="/verif/evidence/C13.json", replay_cmd_template="./tools/check C13 --replay {path}", engine="tlc+fn_driver",
      level_claimed=dict(category="translation_validation", text="spec/fn/FileInfoCmp.tla states, for every pair of abstract observations of a path (missing/file/dir/symlink x content x mtime incl. sub-second x inode kept or replaced) and each of the three file-system modes, the verdict the property demands (eq / ne / open). TLC enumerates the whole finite domain; every case is realised on disk and observed through createLocalFileSystem, DeviceAgnosticFileSystem and ChecksumOnlyFileSystem, and the comparison of the two FileInfo records must equal the demanded verdict; the missing sentinel must appear exactly for missing paths.", design_ref="DESIGN.md §6, §7 C13"),
      level_note="Exhaustive over the abstract domain, which is a finite abstraction of file states (3 contents of 2 sizes, 3 mtimes). Trusted: TLC as enumerator, the realisation code in harness/fn_cases.inc, one local file system.",
      technique="TLA+ function-level spec enumerated by TLC, cases replayed through the real file-system classes"),
 dict(property_id="C15", quick_cmd="./tools/check C15 --tier quick", thorough_cmd="./tools/check C15 --tier thorough",
      evidence_file="/verif/evidence/C15.json", replay_cmd_template="./tools/check C15 --replay {path}", engine="tlc+fn_driver",
      level_claimed=dict(category="translation_validation", text="spec/fn/Codec.tla transcribes the wire formats of BuildValue, BuildKey, StringList, FileInfo and the BinaryEncoder primitives as byte sequences; TLC checks Decode(Encode(x)) = x (hence injectivity) and tag distinctness on the whole bounded domain, and every enumerated (x, bytes) pair is compared with the bytes the implementation produces, its decode of those bytes (every field) and its re-encoding; collisions between distinct items are searched among the implementation's encodings.", design_ref="DESIGN.md §6, §7 C15"),
      level_note="Bounded domain (edge-value sets for 64-bit fields, names <= 2 bytes over {a, NUL, /, 0xFF}, <= 3 outputs, <= 2 strings). No claim of unbounded injectivity.",
      technique="TLA+ function-level spec (round trip checked by TLC) + byte-for-byte comparison with the implementation"),
]

BS_NOTE = ("Trusted base: TLC; the transcription of the build-system rules in spec/BuildSystem.tla (DESIGN.md Appendix E) - cross-checked on every "
           "validated history, where each database row, callback and file content the real system produced must equal what the specification computes; "
           "the generated command bodies (tools/bslib.py) as the meaning of 'deterministic command'; bounded description families and history lengths in the "
           "exhaustive configurations; implementation histories are sampled (seeded) and each one is validated completely. One action of the specification = "
           "one build under the canonical schedule; the interleavings inside a build are the engine-level properties C01-C07.")
def bs(pid, text, technique):
    return dict(property_id=pid, quick_cmd="./tools/check %s --tier quick" % pid, thorough_cmd="./tools/check %s --tier thorough" % pid,
                evidence_file="/verif/evidence/%s.json" % pid, replay_cmd_template="./tools/check %s --replay {path}" % pid,
                engine="tlc+bs_driver", level_claimed=dict(category="model_checking", text=text, design_ref="DESIGN.md §4.1, §7 " + pid),
                level_note=BS_NOTE, technique=technique)
CHECKS += [
 bs("C08", "OutputsClean (every file output reachable from the built key equals the content the independent CleanText oracle derives from the source files) and SeenCurrent are TLC invariants of BuildSystem.tla over description families with chains, multi-output commands, phony aggregators, discovered headers and description switches (command changed, rewired, removed so that a produced node becomes a source) x histories of edits, deletions, tampering, node builds and new frontends; generated descriptions and histories are executed by the real BuildSystemFrontend in sandboxes and every observation (needs-to-run callbacks with reasons, command starts/finishes, result, file contents, every database row) must match the build the specification computes, OutputsClean being evaluated on every validated build. Also modelled and exercised: client refusals (shouldCommandStart), builds cancelled at the first failure, command-timestamp and is-mutated nodes with in-place modification (family MC_BS4: InPlaceOnce, RunTogether). One listed finding (S19, allow-modified-outputs).",
    "TLA+ spec (BuildSystem.tla) model-checked with TLC + trace validation of real BuildSystemFrontend histories"),
 bs("C09", "NullBuildRunsNothing and NoSpuriousRerun (a command that ran had a changed input cone, definition or output) are TLC invariants; in trace validation the set of executed commands and each reported reason must equal the specification's, whose SignatureChanged decision is taken on the tuple of signature-relevant fields; single-attribute edits (arguments, environment, inputs, outputs, deps style, flags, explicit signature, list-boundary moves) and restarts are generated; the signatures stored in the database must be in bijection with the specification's signature tuples across all frontends of a history.",
    "TLA+ spec model-checked with TLC + trace validation (executed set, reasons, recorded signatures)"),
 bs("C10", "FailureStops (no non-phony consumer of a failed or skipped command runs; the build reports failure) and FailureRetried are TLC invariants; convergence after repair is OutputsClean on histories that remove the failure marker; bodies fail before or after writing their outputs, dependency files may be malformed, inputs may be missing; serial and 4-lane execution; every validated history compares statuses, propagated-failure values and the next build's executions with the specification; the client's delegate refuses commands in a fifth of the builds (SkippedCommand results are never valid and are retried) and cancels some builds at the first failure. One listed finding (S33: a refused command between a failed command and its consumer lets the consumer run; FailureStops is stated modulo refused commands, the strict form RefusalHidesNoFailure is checked on the pinned scenario).",
    "TLA+ spec model-checked with TLC + trace validation with failing command bodies"),
 bs("C11", "Discovered dependencies are part of the recorded dependency list in BuildSystem.tla (requests followed by discovered nodes, brought up to date after the command); OutputsClean/SeenCurrent over histories that edit, delete and create discovered headers are TLC invariants; generated bodies write Makefile-style and dependency-info files naming paths with spaces, '#', '$', backslashes, colons, relative to the working directory; the database rows must list exactly those node keys byte for byte, and malformed files must fail the command.",
    "TLA+ spec model-checked with TLC + trace validation with generated dependency files"),
 bs("C12", "A directory input's value is the TreeObs/StructObs observation of the specification (own info, visible names, child infos, recursively; names and types only for structure inputs; exclusion patterns applied per name); SeenCurrent and NoSpuriousRerun are TLC invariants over trees of depth 3 with every single edit (add, remove, retype, content, touch; hidden names) for plain, filtered and structure inputs; sandboxes apply random tree edits (including renames) between builds and the executed set and epochs must match; tree roots produced by mkdir, commands writing into the directory ordered by must-scan-after-paths (family MC_BS5: WriterCurrent) and produced children are modelled.",
    "TLA+ spec model-checked with TLC + trace validation over edited directory trees"),
 bs("C14", "StaleOnlyObsolete and StaleAllObsolete are TLC invariants over all (previous expected list, current list, roots) combinations of a path family with shared prefixes, trailing separators, relative paths and roots outside the tree, across new frontends with and without the database; in sandboxes the removal notes and the file system after the build must equal the specification's RemoveTree results; the path predicate itself is checked exhaustively at function level (spec/fn/PathPrefix.tla).",
    "TLA+ spec model-checked with TLC + trace validation + TLC-enumerated prefix cases replayed through pathIsPrefixedByPath"),
]

def gen(pid, engine, category, text, technique, note, design):
    return dict(property_id=pid, quick_cmd="./tools/check %s --tier quick" % pid, thorough_cmd="./tools/check %s --tier thorough" % pid,
                evidence_file="/verif/evidence/%s.json" % pid, replay_cmd_template="./tools/check %s --replay {path}" % pid,
                engine=engine, level_claimed=dict(category=category, text=text, design_ref=design), level_note=note, technique=technique)
CHECKS += [
 gen("C16", "tlc+queue_driver", "model_checking",
     "TLC explores spec/ExecQueue.tla exhaustively on the scenarios of MC_C16.tla (all interleavings of lanes, client, canceller, destructor and child-process events; ExactlyOnce, LaneBound, CompletionOnce, OutputBeforeCompletion, StatusTable, NoSpawnAfterCancel, ChildrenReaped, deadlock freedom, and Termination/CancelReaps under weak fairness; three deliberately broken variants of the specification must fail); the real lane-based queue, the serial queue and the subprocess layer are bound to it by trace validation (ExecQueueTrace.tla) of seeded multi-threaded scenarios of harness/queue_driver, the queue's unobservable critical sections being internal steps placed by TLC.",
     "TLA+ spec (ExecQueue.tla) model-checked with TLC incl. liveness + trace validation of real queue/subprocess executions",
     "Exhaustive only for the bounded scenarios of MC_C16.tla; larger job mixes, real output volumes, signals and the control channel are covered by validated implementation traces (sampled schedules, not all interleavings); environment precedence and output content are checked by a harness-side oracle; the queue's internal lock is not observable, so interval events + internal steps are used.",
     "DESIGN.md §5, §7 C16, §12.6"),
 gen("C17", "tlc+llbuild-cli+ninja+parse_driver", "translation_validation",
     "TLC enumerates (breadth-first on four to eight slices) and samples (simulation) manifest ASTs of a bounded family from spec/fn/NinjaEval.tla - a loader state machine with one action per statement kind - and checks the scoping invariants (BuildShadowsAll, RuleOverFileLazy, FileFallback, InOut, BuildValuesInFileScope, PathsSeeBuildBindings, ScopeTree) and action properties (OnlyCurrentScope, CmdsFinal, ExitRestores) on it; every AST is rendered to text variants (escapes, continuations, CRLF, indentation, high bytes) and loaded by `llbuild ninja load-manifest`; the loaded statements must equal the specification's, path lists modulo shell-quoting style. The specification itself is validated on the same manifests against ninja 1.11.1. Keyword/high-byte lexing (spec/fn/NinjaLex.tla) and the shell quoting round trip (spec/fn/ShellQuote.tla, judged by the real /bin/sh) are enumerated by TLC and replayed through the real functions.",
     "TLA+ loader state machine (fn/NinjaEval.tla) as enumerator and oracle, replay through `llbuild ninja load-manifest`; differential validation of the specification against the reference ninja; fn/NinjaLex + fn/ShellQuote cases replayed",
     "Bounded family (<=2 rules, <=2 builds, <=3 bindings per level, <=2 included files); statements whose rule variables read a file-level variable that is re-bound later are compared without their rule-variable strings (the property's exclusion); quoting style of $in/$out left open; ninja 1.11.1 deviates from its manual in two places, llbuild is held to the manual.",
     "DESIGN.md §6, §7 C17, §12.6"),
 gen("C18", "tlc+llbuild-cli+ninja", "model_checking",
     "TLC checks the six C18 invariants (NinjaOutputsClean, NinjaNullBuild, OrderOnlyOrdersButNeverTriggers, ImplicitAndDepfileTrigger, CommandLineChangeReruns, FailureStopsAndRetries) on spec/NinjaBuild.tla for 9 manifest families x all histories within MC_C18_<tier>.cfg; every sandbox run of `llbuild ninja build` (hand-written scenarios + seeded random manifests/histories, --jobs 1/4, -k 1/0, database / --no-db, logical clock) is validated against the specification (NinjaBuildTrace.tla) including the decoded build.db, with the invariants evaluated in every state; the reference ninja gives a second opinion on the specification's clean-build oracle.",
     "TLA+ spec (NinjaBuild.tla) model-checked with TLC + trace validation of CLI runs under a logical clock",
     "Exhaustive only inside the bounded manifest families and history bounds and under the canonical schedule; larger manifests, --jobs 4 and -k 0 only through validated implementation traces; the null-build clause is stated with the database only; strict mode, rspfile, console pool not modelled.",
     "DESIGN.md §4.2, §7 C18, §12.6"),
 gen("C19", "tlc+parse_driver(asan)", "exploration",
     "Bounded-exhaustive: every byte string up to 4-8 bytes over the format-special alphabet of each hand-written parser (TLC-enumerated from spec/fn/NinjaLex.tla, MakeDeps.tla, DepInfo.tla with the expected result of the transcribed function and the Tiling / EOFOnlyAtEnd / KeywordsWholeWord / RoundTrip / MalformedReported / OperandsWithinBuffer invariants checked on the specification), ~42k grammar mutants of valid manifests and dependency files and 1.3k YAML shapes (spec/fn/BuildFileShape.tla), each replayed through the real parser in an exact-size heap buffer on a plain build (comparison with the specification) and an ASan+UBSan build with a per-input CPU alarm (memory safety, hangs).",
     "function-level TLA+ specifications as enumerator and oracle; conformance by replay (harness/parse_driver) on plain and sanitizer builds",
     "Not coverage-guided (this family of technique has no counterpart to a fuzzer): lengths and alphabets bounded; YAML varied by shape only; include cycles and tool-specific attributes not judged.",
     "DESIGN.md §6, §7 C19, §10, §12.6"),
]
NA = []
claimed = {c["property_id"] for c in CHECKS}
for i in range(1, 21):
    pid = "C%02d" % i
    if pid not in claimed:
        NA.append(dict(property_id=pid, reason="check under construction in this session (specification and harness not yet registered); see DESIGN.md §11"))
m = dict(version=1, setup_cmd="./tools/setup",
         hooks=dict(guard="LLBUILD_VERIF", enable="tools/build.sh configures an out-of-tree build of /repo in /verif/.build/<variant> with -DCMAKE_CXX_FLAGS=-DLLBUILD_VERIF",
                    baseline_off_cmd="/verif/tools/baseline_off.sh", source_commits=HOOK_COMMITS, add_only=True),
         engines=[dict(name="tlc", path="/opt/veriftools/tla/tla2tools.jar", serves_properties=sorted(claimed), kind_free_text="TLC model checker on spec/*.tla (exhaustive configurations and trace validation)"),
                  dict(name="engine_driver", path="/verif/harness/engine_driver.cpp", serves_properties=["C01","C02","C03","C04","C05","C06","C07"], kind_free_text="scripted-program client of core::BuildEngine that records every API event as ndjson"),
                  dict(name="queue_driver", path="/verif/harness/queue_driver.cpp", serves_properties=["C16"], kind_free_text="scenario driver for the real lane-based/serial execution queues and the subprocess layer"),
                  dict(name="parse_driver", path="/verif/harness/parse_driver.cpp", serves_properties=["C17", "C19"], kind_free_text="replays TLC-enumerated inputs through the Ninja lexer/loader, the dependency-file parsers, shell quoting and the build-file loader in exact-size buffers (plain + ASan/UBSan builds)"),
                  dict(name="ninja_driver", path="/verif/tools/ninja_driver.py", serves_properties=["C18"], kind_free_text="sandbox driver for `llbuild ninja build` histories under a logical clock; decodes build.db"),
                  dict(name="bs_driver", path="/verif/harness/bs_driver.cpp", serves_properties=["C08","C09","C10","C11","C12","C14"], kind_free_text="BuildSystemFrontend client: executes generated descriptions and histories in sandboxes and records callbacks, database rows and file-system changes as ndjson")],
         checks=CHECKS, not_applicable=NA,
         notes="Every check rebuilds /repo's working tree out of tree with the hooks enabled (tools/build.sh), runs TLC on the property's configuration of the specification, runs the real code and validates its recorded traces against the specification. Known findings: known_findings.jsonl.")
json.dump(m, open("/verif/MANIFEST.json", "w"), indent=1)
print("wrote MANIFEST.json with", len(CHECKS), "checks")
