#!/usr/bin/env python3
"""Print the prompt given to an independent sub-agent asked to break one property.
usage: seed_prompt.py Cxx N   (worktree /tmp/wt/Cxx_N, output /tmp/seed_out/Cxx_N)"""
import json,sys
pid,n=sys.argv[1],sys.argv[2]
hint=sys.argv[3] if len(sys.argv)>3 else ""
for l in open('/verif/properties.jsonl'):
    p=json.loads(l)
    if p['id']==pid: break
wt=f"/tmp/wt/{pid}_{n}"; out=f"/tmp/seed_out/{pid}_{n}"
print(f"""You are helping test a verification effort for apple/swift-llbuild (a C++ incremental build engine). Your job: write ONE realistic source change ("seeded defect") to swift-llbuild that BREAKS the semantic property quoted below, while the code still compiles and ALL existing unit tests still pass. Then demonstrate the breakage with a small test or program.

PROPERTY {pid}: {p['title']}
Statement: {p['statement']}
Quantified over: {p['quantifier']['text']}

Workspace rules (strict):
- Work ONLY inside your own git worktree of the repository at {wt} (already created, at the current HEAD) and write your deliverables to {out}/ (create it). Do NOT read, write or run anything under /repo or /verif. Do not touch other directories under /tmp/wt or /tmp/seed_out.
- No network is available. Everything needed is installed.
- Build (≈30 s on 16 cores):  cd {wt} && cmake -G Ninja -S . -B _b -DCMAKE_BUILD_TYPE=RelWithDebInfo -DCMAKE_CXX_COMPILER=clang++-16 -DCMAKE_C_COMPILER=clang-16 -DCMAKE_CXX_FLAGS=-Wno-error -DCMAKE_C_FLAGS=-Wno-error >/dev/null && cmake --build _b
- Existing test suite (83 gtest cases, ≈25 s): for t in _b/bin/*Tests; do $t || echo FAIL; done   — every one must still say PASSED with your change applied.
- A standalone C++ demo can be compiled against the build like this:
  clang++-16 -std=c++14 -fno-rtti -fno-exceptions -I{wt}/include -I{wt}/lib/llvm -include {wt}/include/libstdc++14-workaround.h demo.cpp -L{wt}/_b/lib -lllbuildBuildSystem -lllbuildNinja -lllbuildCommands -lllbuildCore -lllbuildBasic -lllvmSupport -lLLVMDemangle -lsqlite3 -lcurses -ldl -lpthread -o demo
  (drop libraries you do not need; look at unittests/ and the CMake files if a link fails). The command line tool is _b/bin/llbuild (subcommands: `ninja build`, `ninja load-manifest`, `buildsystem build`, `buildengine`, ...), so a demo may also be a shell script driving it in a temp directory.

What kind of change: a plausible bug a developer could introduce (an off-by-one, a dropped field, a wrong comparison, a missing state reset, a skipped lock/notify, a mis-ordered write, a mishandled edge case ...), in the library code under lib/, include/ or products/ — NOT in tests. It must need something SPECIFIC to manifest: a particular interleaving, a crash or fault at a particular point, a multi-step sequence of operations, an unusual input, or two cooperating sites that each look fine alone. It must NOT be something ordinary use would expose at once (a clean build of a simple project must still behave). Keep the diff small (typically 1-15 changed lines). Do not modify lines that contain `LLBUILD_VERIF` or the file include/llbuild/Core/VerifHooks.h. {hint}

Deliverables in {out}/:
1. patch.diff  — output of `git -C {wt} diff` (source change only; no test/demo files in it).
2. The demonstration: source of a test or small program/script (plus a `run_demo.sh` that builds and runs it against the build in {wt}/_b, exits 0 when the property holds and non-zero when violated). It must FAIL with your change applied and PASS on the unmodified code — verify both (revert with `git apply -R patch.diff` and re-apply with `git apply patch.diff`, rebuilding each time; do NOT use `git stash`: the stash is shared with other worktrees).
3. README.md — what the change does, why it violates the property, exactly what is needed for it to manifest (input / sequence / schedule / fault point), and the commands you ran with their observed results (tests pass with patch; demo fails with patch; demo passes without patch).
Leave the worktree with the patch APPLIED and built when you finish. Report back briefly: the one-line idea of the change, files touched, and whether all three verifications succeeded.""")
