#!/usr/bin/env python3
"""Run every archived seeded change against the check of its property (tools/seedrun.sh: scratch worktree, /repo untouched),
record the outcome in seeded/<id>/meta.json (detected_by) and in seeded/RESULTS.md.   usage: seedmatrix.py [-j N] [seed ...]"""
import json, os, re, subprocess, sys, time
from concurrent.futures import ThreadPoolExecutor
ROOT = "/verif/seeded"
args = sys.argv[1:]; J = 3
if args[:1] == ["-j"]: J = int(args[1]); args = args[2:]
seeds = args or sorted(d for d in os.listdir(ROOT) if os.path.isfile(os.path.join(ROOT, d, "patch.diff")))
def run(s):
    t0 = time.time()
    r = subprocess.run(["/verif/tools/seedrun.sh", s], capture_output=True, text=True)
    line = next((l for l in r.stdout.split("\n") if l.startswith("SEED ")), r.stdout.strip()[:200])
    m = re.match(r"SEED (\S+) (\S+) rc=(\d+) ?(.*)", line)
    res = dict(seed=s, check=m.group(2) if m else None, rc=int(m.group(3)) if m else -1, first=(m.group(4) if m else line)[:400], wall=round(time.time() - t0))
    mp = os.path.join(ROOT, s, "meta.json"); meta = json.load(open(mp))
    meta["detected_by"] = dict(check="tools/check %s --tier quick" % res["check"], detected=res["rc"] == 1, first_violation=res["first"]) if res["rc"] in (0, 1) else dict(error=res["first"])
    json.dump(meta, open(mp, "w"), indent=1)
    print("%-8s %-4s rc=%d %4ds %s" % (s, res["check"], res["rc"], res["wall"], res["first"][:160]), flush=True)
    return res
with ThreadPoolExecutor(max_workers=J) as ex: results = list(ex.map(run, seeds))
old = {}
rp = os.path.join(ROOT, "RESULTS.md")
rows = {r["seed"]: r for r in results}
if os.path.exists(rp):
    for ln in open(rp):
        m = re.match(r"\| (\S+) \| (\S+) \| (\S+) \| (.*) \|$", ln.strip())
        if m and m.group(1) not in rows and m.group(1) != "seed": rows[m.group(1)] = dict(seed=m.group(1), check=m.group(2), rc={"detected": 1, "MISSED": 0}.get(m.group(3), 2), first=m.group(4))
with open(rp, "w") as f:
    f.write("# Seeded changes vs checks (written by tools/seedmatrix.py; each run in a scratch worktree with the patch applied)\n\n| seed | check | outcome | first violation line |\n|---|---|---|---|\n")
    for s in sorted(rows):
        r = rows[s]; f.write("| %s | %s | %s | %s |\n" % (s, r["check"], {1: "detected", 0: "MISSED"}.get(r["rc"], "error"), r["first"].replace("|", "/")[:300]))
