#!/bin/bash
# Run checks against a seeded change WITHOUT touching /repo: a scratch worktree of /repo's HEAD gets the
# patch, the checks run in scratch mode (VERIF_REPO / VERIF_SCRATCH), everything is removed afterwards.
#   usage: seedrun.sh <seed-name> [tier] [property ...]      (default: the seed's own property, quick)
# prints one line per property:  SEED <name> <property> rc=<exit>   (rc=1: violation reported = detected)
N=$1; TIER=${2:-quick}; shift; shift
D=/verif/seeded/$N
[ -f $D/patch.diff ] || { echo "no such seed $N"; exit 2; }
PROPS="$@"; [ -z "$PROPS" ] && PROPS=$(python3 -c "import json;print(json.load(open('$D/meta.json'))['property'])")
WT=/tmp/seedrun/$N; rm -rf $WT; mkdir -p /tmp/seedrun
git -C /repo worktree add --detach $WT HEAD > /dev/null 2>&1 || { echo "worktree failed"; exit 2; }
trap 'git -C /repo worktree remove --force $WT > /dev/null 2>&1; rm -rf /tmp/seedrun/$N.s' EXIT
git -C $WT apply $D/patch.diff || { echo "SEED $N patch does not apply"; exit 2; }
export VERIF_REPO=$WT VERIF_SCRATCH=/tmp/seedrun/$N.s VERIF_SKIP_MC=1
mkdir -p $VERIF_SCRATCH /verif/out/seedrun
for P in $PROPS; do
  timeout 3600 /verif/tools/check $P --tier $TIER > /verif/out/seedrun/$N.$P.log 2>&1; rc=$?
  echo "SEED $N $P rc=$rc $(grep -m1 -A1 '^VIOLATION' /verif/out/seedrun/$N.$P.log | tr '\n' ' ' | cut -c1-300)"
done
