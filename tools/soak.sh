#!/bin/bash
# false-alarm soak: run checks on the UNCHANGED tree with several seeds (scratch mode, model checking skipped).
#   usage: soak.sh "<pids>" "<seeds>" [tier]
export VERIF_SCRATCH=/tmp/soak VERIF_SKIP_MC=1
mkdir -p /verif/out/soak
for p in $1; do for s in $2; do
  VERIF_SEED=$s timeout 3600 /verif/tools/check $p --tier ${3:-quick} > /verif/out/soak/$p.$s.log 2>&1; rc=$?
  echo "SOAK $p seed=$s rc=$rc $(grep -m1 -A1 '^VIOLATION' /verif/out/soak/$p.$s.log | tr '\n' ' ' | cut -c1-250)"
done; done
