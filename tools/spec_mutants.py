#!/usr/bin/env python3
"""Vacuity self-test of the BuildSystem model-checking configurations: each mutant is a one-token change of a COPY of
spec/BuildSystem.tla; the named configuration must then report the named invariant as violated.  A mutant that
survives means the invariant was not exercised by that configuration.   usage: spec_mutants.py [name ...]"""
import os, re, shutil, subprocess, sys, time
sys.path.insert(0, os.path.dirname(os.path.abspath(__file__)))
import vlib

MUTANTS = [
 # name, (old, new), module, cfg, invariants one of which must be violated
 ("scan-ge", ("Get(S1.mem, d.k).computed > r.built", "Get(S1.mem, d.k).computed >= r.built"), "MC_BS1.tla", "MC_BS1_c09.cfg", {"NoSpuriousRerun", "NullBuildRunsNothing"}),
 ("scan-never", ("IF ~d.oo /\\ Get(S1.mem, d.k).computed > r.built", "IF FALSE /\\ Get(S1.mem, d.k).computed > r.built"), "MC_BS1.tla", "MC_BS1_quick.cfg", {"OutputsClean", "SeenCurrent"}),
 ("drop-discovered", ("Finish(S2, k, v, FALSE, ideps \\o DepsOf(disc))", "Finish(S2, k, v, FALSE, ideps)"), "MC_BS1.tla", "MC_BS1_c11.cfg", {"OutputsClean", "SeenCurrent"}),
 ("outputs-not-checked", ("IF IsMutated(d.outs[j]) THEN (v.i[j] = 0) = ~Exists(F, PathOf(d.outs[j])) ELSE v.i[j] = Info(F, PathOf(d.outs[j]))", "TRUE"), "MC_BS1.tla", "MC_BS1_quick.cfg", {"OutputsClean", "SeenCurrent"}),
 ("failure-feeds", ('ELSE IF v.k = "FailedInput" THEN "failed"', 'ELSE IF FALSE THEN "failed"'), "MC_BS1.tla", "MC_BS1_c10.cfg", {"FailureStops"}),
 ("sig-ignored", ("ELSE IF r.sig # SigOf(k) THEN RunRule(k, S, \"SignatureChanged\", NoKey)", "ELSE IF FALSE THEN RunRule(k, S, \"SignatureChanged\", NoKey)"), "MC_BS1.tla", "MC_BS1_c09.cfg", {"OutputsClean", "SeenCurrent"}),
 ("missing-command-silent", ("IF c \\notin Cmds THEN Finish(S, k, VInvalid, TRUE, <<>>)", "IF c \\notin Cmds THEN Finish(S, k, VInvalid, FALSE, <<>>)"), "MC_BS1.tla", "MC_BS1_quick.cfg", set()),
 ("tree-children-ignored", ("[q \\in kids |-> <<ChildObs(F, M, q), IF F[q].t = \"dir\" THEN TreeObsM(F, M, q, filt, TRUE) ELSE <<>> >>] >>", "[q \\in kids |-> <<0, IF F[q].t = \"dir\" THEN TreeObsM(F, M, q, filt, TRUE) ELSE <<>> >>] >>"), "MC_BS2.tla", "MC_BS2_quick.cfg", {"SeenCurrent", "OutputsClean"}),
 ("timestamp-constant", ("THEN 0 - (epoch + 2) ELSE -1", "THEN 0 - 2 ELSE -1"), "MC_BS4.tla", "MC_BS4_quick.cfg", {"RunTogether", "InPlaceOnce"}),
 ("mutated-compared", ("IF IsMutated(d.outs[j]) THEN (v.i[j] = 0) = ~Exists(F, PathOf(d.outs[j])) ELSE", "IF FALSE THEN (v.i[j] = 0) = ~Exists(F, PathOf(d.outs[j])) ELSE"), "MC_BS4.tla", "MC_BS4_quick.cfg", {"NullBuildRunsNothing", "NoSpuriousRerun"}),
 ("scan-after-ignored", ('IF NodeRec(k.n).kind = "dir" THEN EnsureAll([i \\in 1..Len(Msa(k.n)) |-> NK(Msa(k.n)[i])], S0) ELSE S0', 'IF FALSE THEN EnsureAll([i \\in 1..Len(Msa(k.n)) |-> NK(Msa(k.n)[i])], S0) ELSE S0'), "MC_BS5.tla", "MC_BS5_quick.cfg", {"WriterCurrent", "SeenCurrent"}),
 ("stale-removes-expected", ("/\\ p \\notin SeqToSet(d.expected)\n         /\\ (d.roots", "/\\ TRUE\n         /\\ (d.roots"), "MC_BS3.tla", "MC_BS3_quick.cfg", {"StaleOnlyObsolete"}),
 ("stale-ignores-roots", ("/\\ (d.roots = <<>> \\/ (desc.paths[p].abs /\\ \\E i \\in 1..Len(d.roots) : Under(p, d.roots[i]))))", "/\\ TRUE)"), "MC_BS3.tla", "MC_BS3_quick.cfg", {"StaleOnlyObsolete"}),
 ("stale-keeps-some", ("RemoveAll(F, ps) == IF ps = <<>> THEN F ELSE RemoveAll(RemovePath(F, Head(ps)), Tail(ps))", "RemoveAll(F, ps) == IF ps = <<>> THEN F ELSE RemovePath(F, Head(ps))"), "MC_BS3.tla", "MC_BS3_quick.cfg", {"StaleAllObsolete"}),
]

def main():
    want = set(sys.argv[1:])
    src = open(os.path.join(vlib.SPEC, "BuildSystem.tla")).read()
    res = []
    for name, (old, new), module, cfg, invs in MUTANTS:
        if want and name not in want: continue
        if old not in src: print("%-26s PATTERN NOT FOUND" % name); res.append((name, "stale-pattern")); continue
        d = vlib.scratch("mutant_" + name)
        for f in os.listdir(vlib.SPEC):
            if f.endswith(".tla") or f.endswith(".cfg"): shutil.copy(os.path.join(vlib.SPEC, f), d)
        open(os.path.join(d, "BuildSystem.tla"), "w").write(src.replace(old, new, 1))
        t0 = time.time()
        rc, out = vlib.tlc(module, cfg, cwd=d, workers=vlib.NCPU, heap="-Xmx8g", timeout=3000)
        p = vlib.parse_tlc(out)
        verdict = "KILLED by %s" % p["violated"] if p["violated"] else ("ERROR " + str(p["error"]) if p["error"] else "SURVIVED")
        print("%-26s %-28s %s (%d s, %s states)" % (name, cfg, verdict, time.time() - t0, p["distinct"]), flush=True)
        res.append((name, verdict)); shutil.rmtree(d, ignore_errors=True)
    return 0

if __name__ == "__main__":
    sys.exit(main())
