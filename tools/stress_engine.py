#!/usr/bin/env python3
"""development aid: many random engine cases -> trace validation; prints rejections"""
import sys, os, random, json, time
sys.path.insert(0, os.path.dirname(__file__))
import vlib, enginegen, engine_check
seed = int(sys.argv[1]) if len(sys.argv) > 1 else 1
n = int(sys.argv[2]) if len(sys.argv) > 2 else 400
opts = dict(a.split("=") for a in sys.argv[3:])
variant = opts.get("variant", "hooks")
b = vlib.build(variant)
wd = vlib.scratch("stress%d" % seed)
rng = random.Random(seed)
cases = []
for i in range(n):
    cases.append(enginegen.gen_case(rng, "s%d_%d" % (seed, i), dbdir=wd if opts.get("db", "1") == "1" else None,
                                    cyclic=(opts.get("cyclic", "0") == "1") or (opts.get("cyclic") == "mix" and rng.random() < 0.4),
                                    modes=tuple(opts.get("modes", "sync,det").split(",")),
                                    cancel_p=float(opts.get("cancel", "0.25")), restart_p=float(opts.get("restart", "0.15")),
                                    rewire_cyclic=opts.get("rwc", "0") == "1",
                                    adversarial=opts.get("adv", "0") == "1"))
t0 = time.time()
tot = engine_check.run_cases("dev", wd, cases, b + "/harness/engine_driver", batch=int(opts.get("batch", "40")))
print("executions", tot["executions"], "accepted", tot["accepted"], "events", tot["events"], "nontrivial", len(tot["nontrivial"]), "rejections", len(tot["rejections"]), "wall %.1f" % (time.time() - t0))
for i, r in enumerate(tot["rejections"][:6]):
    print("---- rejection", i, r["cid"], r["reason"], "at", r["at"], r["event"])
    p = os.path.join(wd, "rej%d" % i)
    open(p + ".trace", "w").write("\n".join(r["lines"]) + "\n")
    if r["case"]: open(p + ".case", "w").write(r["case"])
    lo = max(0, r["at"] - 12)
    for ln in r["lines"][lo:r["at"] + 2]: print("   ", ln[:260])
