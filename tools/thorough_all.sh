#!/bin/bash
# run the thorough tier of the given checks once, in scratch mode (evidence/replay/out under /tmp/thor), sequentially
export VERIF_SCRATCH=/tmp/thor
mkdir -p /verif/out/thor
for p in "$@"; do s=$(date +%s); timeout 3300 /verif/tools/check $p --tier thorough > /verif/out/thor/$p.log 2>&1; echo "$p rc=$? $(( $(date +%s) - s ))s $(grep -m1 '^VIOLATION' /verif/out/thor/$p.log | cut -c1-150)" >> /verif/out/thor/summary.txt; done
