#!/usr/bin/env python3
"""condense a TLC counterexample: for each state print the variables that changed"""
import re, sys
txt = open(sys.argv[1]).read()
only = set(sys.argv[2].split(",")) if len(sys.argv) > 2 else None
states = re.split(r"\nState (\d+): ", txt)
prev = {}
for i in range(1, len(states), 2):
    num, body = states[i], states[i + 1]
    head, _, rest = body.partition("\n")
    body = rest.split("\n\n")[0]
    vars_ = {}
    for m in re.finditer(r"^/\\ (\w+) = (.*?)(?=^/\\ \w+ = |\Z)", body, re.S | re.M):
        vars_[m.group(1)] = re.sub(r"\s+", " ", m.group(2)).strip()
    print("== State", num, head[:90])
    for k, v in vars_.items():
        if only and k not in only: continue
        if prev.get(k) != v: print("   %s = %s" % (k, v[:600]))
    prev = vars_
