#!/bin/bash
# apply a seeded patch to /repo, run a command, always undo.   usage: try_seed.sh patch.diff cmd...
P=$(realpath $1); shift
git -C /repo apply "$P" || { echo "patch does not apply"; exit 2; }
"$@"; rc=$?
git -C /repo checkout -- . 
exit $rc
