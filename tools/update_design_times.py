#!/usr/bin/env python3
"""rewrite the last column (measured quick wall time) of the summary table of DESIGN.md from evidence/<id>.json"""
import json, re, os
root = os.path.dirname(os.path.dirname(os.path.abspath(__file__)))
s = open(root + "/DESIGN.md").read()
def sub(m):
    pid = m.group(1); f = root + "/evidence/%s.json" % pid
    if not os.path.exists(f): return m.group(0)
    e = json.load(open(f))
    if e.get("tier") != "quick": return m.group(0)
    return "%s%d s |" % (m.group(2), round(e["wall_s"]))
s2 = re.sub(r"(?m)^(\| (C\d\d) \|.*\| )\d+ s \|$", lambda m: sub(type("M", (), dict(group=lambda self, i: {0: m.group(0), 1: m.group(2), 2: m.group(1)}[i]))()), s)
open(root + "/DESIGN.md", "w").write(s2)
print("updated" if s2 != s else "unchanged")
