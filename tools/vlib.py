#!/usr/bin/env python3
"""Shared helpers of the /verif checks: building, running TLC, trace validation,
evidence files, known findings."""
import json, os, re, subprocess, sys, time, shutil, hashlib, tempfile
from concurrent.futures import ThreadPoolExecutor

ROOT = os.environ.get("VERIF_ROOT") or os.path.dirname(os.path.dirname(os.path.abspath(__file__)))   # /verif
SPEC = os.environ.get("VERIF_SPEC", ROOT + "/spec")      # (development: a copy of the specifications being edited)
# Scratch mode (development only: mutation / seeded-change runs that must not touch /repo or the
# registered evidence): VERIF_REPO names another checkout, VERIF_SCRATCH a directory that receives the
# build tree, the scratch output, the evidence and the replay files of that run.
REPO = os.environ.get("VERIF_REPO", "/repo")
SCRATCH = os.environ.get("VERIF_SCRATCH")
OUT = (SCRATCH + "/out") if SCRATCH else ROOT + "/out"   # scratch (git-ignored); nothing registered depends on /tmp
BUILDROOT = (SCRATCH + "/build") if SCRATCH else ROOT + "/.build"
EVIDENCE = (SCRATCH + "/evidence") if SCRATCH else ROOT + "/evidence"
REPLAY = (SCRATCH + "/replay") if SCRATCH else ROOT + "/replay"
NCPU = os.cpu_count() or 8
JAVA_HEAP_TRACE = "-Xmx2g"

class Infra(Exception):
    """infrastructure failure (tool crash, parse error): exit code 2, never a verdict"""

def log(*a):
    print(*a, flush=True)

def build(variant="hooks"):
    r = subprocess.run([ROOT + "/tools/build.sh", variant], capture_output=True, text=True)
    if r.returncode != 0:
        raise Infra("build of variant %s failed:\n%s\n%s" % (variant, r.stdout[-3000:], r.stderr[-3000:]))
    return BUILDROOT + "/" + variant

def scratch(name):
    d = os.path.join(OUT, name)
    shutil.rmtree(d, ignore_errors=True)
    os.makedirs(d, exist_ok=True)
    return d

# ----------------------------------------------------------------------------- TLC
TLC_JAR = "/opt/veriftools/tla/tla2tools.jar"
COMMUNITY = None
def _classpath():
    global COMMUNITY
    if COMMUNITY is None:
        # reuse the classpath of the `tlc` wrapper
        try:
            txt = open(shutil.which("tlc")).read()
            m = re.search(r"-cp\s+(\S+)", txt)
            COMMUNITY = m.group(1).strip('"') if m else TLC_JAR
        except Exception:
            COMMUNITY = TLC_JAR
    return COMMUNITY

def tlc(module, cfg, cwd=SPEC, workers=1, env=None, extra=(), timeout=3600, heap=None, metadir=None, simulate=None):
    """run TLC; returns (returncode, stdout text)."""
    md = metadir or tempfile.mkdtemp(prefix="tlcmeta_", dir=OUT if os.path.isdir(OUT) else None)
    cmd = ["tlc", "-workers", str(workers), "-noGenerateSpecTE", "-metadir", md, "-config", cfg]
    if simulate: cmd += ["-simulate", simulate]
    cmd += list(extra) + [module]
    e = dict(os.environ)
    # a large thread stack: the rule-granularity specifications recurse deeply (Ensure/RunRule), and with the default
    # stack a StackOverflowError appeared in about one run of three, depending on what the JIT had compiled
    e["JAVA_TOOL_OPTIONS"] = ((heap or "") + " -Xss64m -XX:-UseGCOverheadLimit").strip()      # (deep Ensure recursion; GC starved on a loaded machine is not "out of memory")
    if env: e.update(env)
    try:
        r = subprocess.run(cmd, cwd=cwd, env=e, capture_output=True, text=True, timeout=timeout)
        out = r.stdout + r.stderr
        rc = r.returncode
    except subprocess.TimeoutExpired as ex:
        out = (ex.stdout or b"").decode(errors="replace") if isinstance(ex.stdout, bytes) else (ex.stdout or "")
        out += "\nTIMEOUT"
        rc = 124
    shutil.rmtree(md, ignore_errors=True)
    return rc, out

def parse_tlc(out):
    """extract state counts / verdicts from TLC output"""
    res = dict(states=None, distinct=None, depth=None, violated=None, error=None, maxl=None, total=None, postfalse=False)
    m = re.search(r"(\d[\d,]*) states generated, (\d[\d,]*) distinct states found", out)
    if m:
        res["states"] = int(m.group(1).replace(",", "")); res["distinct"] = int(m.group(2).replace(",", ""))
    if res["distinct"] is None:      # stopped by the time limit: what the last progress report says (a breadth-first prefix)
        pm = re.findall(r"Progress\((\d+)\)[^\n]*?: ([\d,]+) states generated[^\n]*?, ([\d,]+) distinct states found", out)
        if pm: res["depth"] = int(pm[-1][0]); res["states"] = int(pm[-1][1].replace(",", "")); res["distinct"] = int(pm[-1][2].replace(",", ""))
    m = re.search(r"depth of the complete state graph search is (\d+)", out)
    if m: res["depth"] = int(m.group(1))
    m = re.search(r"Invariant (\w+) is violated", out)
    if m: res["violated"] = m.group(1)
    m = re.search(r"Temporal properties were violated|Action property (\w+) .*violated", out)
    if m: res["violated"] = res["violated"] or (m.group(1) if m.lastindex else "temporal")
    for m in re.finditer(r'<<"MAXL", (\d+), (\d+)>>', out):
        res["maxl"] = int(m.group(1)); res["total"] = int(m.group(2))
    if "Postcondition" in out and "is false" in out: res["postfalse"] = True
    if re.search(r"Parsing or semantic analysis failed|Error: TLC threw|java\.lang\.\w*Error|TLC encountered|was not.*enumerable|Evaluating", out) and not res["violated"] and not res["postfalse"]:
        m = re.search(r"(Error: .*|.*Parsing or semantic analysis failed.*)", out)
        res["error"] = m.group(1) if m else "TLC error"
    if "Error:" in out and not (res["violated"] or res["postfalse"] or res["error"]):
        m = re.search(r"Error: (.*)", out)
        res["error"] = m.group(1)
    return res

def coverage_actions(out):
    """parse `-coverage` output: action -> (taken, generated)"""
    acts = {}
    for m in re.finditer(r"<(\w+) line \d+, col \d+ to line \d+, col \d+ of module (\w+)>: (\d+):(\d+)", out):
        acts[m.group(1)] = (int(m.group(3)), int(m.group(4)))
    return acts

# ----------------------------------------------------------------------------- trace validation
def split_executions(lines):
    """split a concatenated trace into executions (each starts with a Reset line)"""
    execs, cur = [], []
    for ln in lines:
        if ln.startswith('{"e":"Reset"'):
            if cur: execs.append(cur)
            cur = []
        cur.append(ln)
    if cur: execs.append(cur)
    return execs

def validate_trace_file(path, module="EngineTrace.tla", cfg="EngineTrace.cfg", timeout=1800, extra_env=None):
    """returns dict(accepted, maxl, total, violated, out)"""
    env = {"TRACE": path}
    if extra_env: env.update(extra_env)
    rc, out = tlc(module, cfg, workers=1, env=env, heap=JAVA_HEAP_TRACE, timeout=timeout)
    p = parse_tlc(out)
    if p["error"] or (p["maxl"] is None and not p["violated"]):
        raise Infra("TLC failed on %s: %s\n%s" % (path, p["error"], out[-2500:]))
    accepted = (not p["violated"]) and (not p["postfalse"]) and p["maxl"] == p["total"] + 1
    return dict(accepted=accepted, maxl=p["maxl"], total=p["total"], violated=p["violated"], states=p["distinct"], out=out)

def validate_executions(execs, workdir, tag, module="EngineTrace.tla", cfg="EngineTrace.cfg", max_rejects=3):
    """Validate a list of executions (lists of lines) as one batch.  On rejection the
    offending execution is isolated, recorded, and the rest of the batch re-validated.
    returns (n_accepted, rejections[list of dict(lines, reason, at, event)], states, events)"""
    rejections = []; accepted = 0; states = 0; events = 0
    todo = list(execs)
    rnd = 0
    while todo:
        path = os.path.join(workdir, "%s.%d.ndjson" % (tag, rnd)); rnd += 1
        with open(path, "w") as f:
            for ex in todo: f.write("\n".join(ex) + "\n")
        r = validate_trace_file(path, module, cfg)
        states += r["states"] or 0
        if r["accepted"]:
            accepted += len(todo); events += sum(len(e) for e in todo)
            os.unlink(path)
            break
        # find the execution that holds the first unmatched line / the violating state
        if r["violated"]:
            # the violating state is the deepest one printed; TLC prints l in the last state
            ls = re.findall(r"/\\ l = (\d+)", r["out"])
            at = int(ls[-1]) - 1 if ls else (r["maxl"] or 1)
            reason = "invariant " + r["violated"]
        else:
            at = r["maxl"]; reason = "no matching specification step"
        # map line number `at` (1-based) to execution index
        pos = 0; idx = len(todo) - 1
        for i, ex in enumerate(todo):
            if at <= pos + len(ex): idx = i; break
            pos += len(ex)
        bad = todo[idx]
        off = max(0, min(len(bad) - 1, at - pos - 1))
        rejections.append(dict(lines=bad, reason=reason, at=off + 1, event=bad[off], violated=r["violated"]))
        accepted += idx; events += sum(len(e) for e in todo[:idx])
        todo = todo[idx + 1:]
        os.unlink(path)
        if len(rejections) >= max_rejects: break
    return accepted, rejections, states, events

# ----------------------------------------------------------------------------- evidence / findings
def load_known():
    p = ROOT + "/known_findings.jsonl"
    res = []
    if os.path.exists(p):
        for ln in open(p):
            ln = ln.strip()
            if ln and not ln.startswith("#"): res.append(json.loads(ln))
    return res

def write_evidence(pid, tier, seed, level, coverage, wall, violations, assumptions=()):
    os.makedirs(EVIDENCE, exist_ok=True)
    ev = dict(property_id=pid, tier=tier, seed=int(seed), level=level, coverage=coverage,
              assumptions=list(assumptions), wall_s=round(wall, 2), violations=int(violations))
    tmp = EVIDENCE + "/.%s.tmp" % pid
    with open(tmp, "w") as f: json.dump(ev, f, indent=1, default=str)
    os.replace(tmp, EVIDENCE + "/%s.json" % pid)

def save_replay(pid, name, obj):
    d = os.path.join(REPLAY, pid)
    os.makedirs(d, exist_ok=True)
    p = os.path.join(d, name + ".json")
    with open(p, "w") as f: json.dump(obj, f, indent=1)
    return p

def parallel(fn, items, n=None):
    with ThreadPoolExecutor(max_workers=n or NCPU) as ex:
        return list(ex.map(fn, items))
